#!/usr/bin/env python3-vt
"""Validate MANIFEST.json and evidence/*.json against the schemas in /root/.vp."""
import json, sys, glob, jsonschema
ok = True
def check(path, schema):
    global ok
    try:
        jsonschema.validate(json.load(open(path)), json.load(open(schema)))
        print("valid  ", path)
    except Exception as e:
        ok = False
        print("INVALID", path, str(e).splitlines()[0])
check('/verif/MANIFEST.json', '/root/.vp/MANIFEST.schema.json')
for p in sorted(glob.glob('/verif/evidence/*.json')):
    check(p, '/root/.vp/EVIDENCE.schema.json')
man = json.load(open('/verif/MANIFEST.json'))
for c in man['checks']:
    try:
        ev = json.load(open(c['evidence_file']))
        if ev['level'] != c['level_claimed']['category']:
            ok = False; print("LEVEL MISMATCH", c['property_id'], ev['level'], c['level_claimed']['category'])
        if ev.get('violations', 0):
            ok = False; print("EVIDENCE HAS VIOLATIONS", c['property_id'])
    except FileNotFoundError:
        ok = False; print("NO EVIDENCE", c['property_id'])
sys.exit(0 if ok else 1)
