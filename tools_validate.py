#!/usr/bin/env python3-vt
"""Validate MANIFEST.json and evidence/*.json against the schemas in /root/.vp."""
import json, sys, glob, jsonschema
ok = True
def check(path, schema):
    global ok
    try:
        jsonschema.validate(json.load(open(path)), json.load(open(schema)))
        print("valid  ", path)
    except Exception as e:
        ok = False
        print("INVALID", path, str(e).splitlines()[0])
check('/verif/MANIFEST.json', '/root/.vp/MANIFEST.schema.json')
for p in sorted(glob.glob('/verif/evidence/*.json')):
    check(p, '/root/.vp/EVIDENCE.schema.json')
sys.exit(0 if ok else 1)
