#!/usr/bin/env python3
"""Rewrites the generated block of DESIGN.md section 8.2 (between the two markers) from the evidence files."""
import json, re
rows = []
for i in range(1, 21):
    pid = "C%02d" % i
    e = json.load(open(f"/verif/evidence/{pid}.json"))
    cov = e.get("coverage", {})
    kh = cov.get("known_findings_hit", 0); kf = len(kh) if isinstance(kh, (list, dict)) else kh
    rows.append(f"| {pid} | {e.get('tier')} | {cov.get('evaluations'):,} | {cov.get('distinct_nontrivial'):,} | {cov.get('distinct_outcome_classes')} | {e.get('wall_s')} | {e.get('violations')} | {kf} |")
block = ("<!-- figures:begin -->\n"
         "Figures of the last committed run of every check (from the evidence files; regenerate with `python3 tools_table.py`):\n\n"
         "| id | tier | evaluations | distinct non-trivial | outcome classes | wall s | violations | known findings printed |\n"
         "|----|------|-------------|----------------------|-----------------|--------|------------|------------------------|\n"
         + "\n".join(rows) + "\n<!-- figures:end -->")
p = "/verif/DESIGN.md"
s = open(p).read()
if "<!-- figures:begin -->" in s:
    s = re.sub(r"<!-- figures:begin -->.*?<!-- figures:end -->", lambda m: block, s, flags=re.S)
else:
    anchor = "No property is listed as not applicable."
    assert anchor in s
    s = s.replace(anchor, block + "\n\n" + anchor, 1)
open(p, "w").write(s)
print("figures block written")
