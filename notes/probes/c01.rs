// C01 probe: one-deviation word mutation sweep over seed dumps, exercising the whole read/print API
use minidump::*; use minidump::system_info::{Cpu, Os};
use std::io::Write; use std::panic::{catch_unwind, AssertUnwindSafe};
use std::sync::{Arc, Mutex};

fn exercise(bytes: &[u8], op: &Arc<Mutex<String>>) {
    let set = |s: &str| { *op.lock().unwrap() = s.to_string(); };
    let mut sink = std::io::sink();
    set("read"); let dump = match Minidump::read(bytes) { Ok(d) => d, Err(_) => return };
    set("print header"); let _ = dump.print(&mut sink);
    let sys = dump.get_stream::<MinidumpSystemInfo>().ok(); let misc = dump.get_stream::<MinidumpMiscInfo>().ok();
    set("get_memory"); let mem = dump.get_memory();
    if let Some(m) = &mem { set("memory print"); let _ = m.print(&mut sink, false); let _ = m.print(&mut sink, true); for r in m.iter() { let _ = r.memory_range(); let b = r.base_address(); let _ = m.memory_at_address(b); let _ = m.memory_at_address(b.wrapping_add(r.size()).wrapping_sub(1)); let _ = m.memory_at_address(b.wrapping_add(r.size())); let _: Option<u64> = r.get_memory_at_address(b); } let _ = m.by_addr().count(); }
    set("memory lists"); if let Ok(l) = dump.get_stream::<MinidumpMemoryList>() { let _ = l.print(&mut sink, false); } if let Ok(l) = dump.get_stream::<MinidumpMemory64List>() { let _ = l.print(&mut sink, true); }
    set("thread list"); if let Ok(tl) = dump.get_stream::<MinidumpThreadList>() {
        let _ = tl.print(&mut sink, mem.as_ref(), sys.as_ref(), misc.as_ref(), false); let _ = tl.print(&mut sink, None, None, None, true);
        let dm = UnifiedMemoryList::default(); let m = mem.as_ref().unwrap_or(&dm);
        for t in &tl.threads { let _ = tl.get_thread(t.raw.thread_id); if let Some(s) = &sys { if let Some(c) = t.context(s, misc.as_ref()) { set("thread context print"); let _ = c.print(&mut sink); let _ = c.get_instruction_pointer(); let _ = c.get_stack_pointer(); for (r, _) in c.valid_registers() { let _ = c.format_register(r); } } }
            set("thread stack"); let _ = t.stack_memory(m).map(|s| s.memory_range()); for cpu in [Cpu::X86, Cpu::X86_64, Cpu::Unknown(0)] { let _ = t.last_error(cpu, m); } } }
    set("module list"); if let Ok(ml) = dump.get_stream::<MinidumpModuleList>() { let _ = ml.print(&mut sink); let _ = ml.main_module(); for m in ml.iter() { let _ = (m.base_address(), m.size(), m.code_file().len(), m.code_identifier(), m.debug_file(), m.debug_identifier(), m.version()); let b = m.base_address(); let _ = ml.module_at_address(b); let _ = ml.module_at_address(b.wrapping_add(m.size()).wrapping_sub(1)); let _ = ml.module_at_address(b.wrapping_add(m.size())); } let _ = ml.by_addr().count(); }
    set("unloaded module list"); if let Ok(ml) = dump.get_stream::<MinidumpUnloadedModuleList>() { let _ = ml.print(&mut sink); for m in ml.iter() { let _ = (m.code_identifier(), m.debug_file(), m.version()); let _ = ml.modules_at_address(m.base_address()).count(); } let _ = ml.by_addr().count(); }
    set("handle data"); if let Ok(h) = dump.get_stream::<MinidumpHandleDataStream>() { let _ = h.print(&mut sink); }
    set("memory info"); if let Ok(mi) = dump.get_stream::<MinidumpMemoryInfoList>() { let _ = mi.print(&mut sink); for r in mi.iter() { let _ = (r.memory_range(), r.is_readable(), r.is_writable(), r.is_executable()); let _ = mi.memory_info_at_address(r.raw.base_address); } let _ = mi.by_addr().count(); }
    set("linux maps"); if let Ok(mi) = dump.get_stream::<MinidumpLinuxMaps>() { let _ = mi.print(&mut sink); for r in mi.iter() { let _ = r.memory_range(); } let _ = mi.by_addr().count(); }
    set("exception"); if let Ok(e) = dump.get_stream::<MinidumpException>() { for os in [Os::Windows, Os::MacOs, Os::Linux, Os::Unknown(0)] { for cpu in [Cpu::X86, Cpu::X86_64, Cpu::Arm64, Cpu::Ppc] { let r = e.get_crash_reason(os, cpu); let _ = r.to_string(); let _ = e.get_crash_address(os, cpu); } } let _ = e.get_crashing_thread_id(); if let Some(s) = &sys { let _ = e.context(s, misc.as_ref()); } set("exception print"); let _ = e.print(&mut sink, sys.as_ref(), misc.as_ref()); }
    set("assertion"); if let Ok(a) = dump.get_stream::<MinidumpAssertion>() { let _ = a.print(&mut sink); }
    set("system info"); if let Some(s) = &sys { let _ = s.print(&mut sink); let _ = s.os_parts(); let _ = s.csd_version(); let _ = s.cpu_info(); }
    set("misc info"); if let Some(m) = &misc { let _ = m.print(&mut sink); let _ = m.process_create_time(); }
    set("thread names"); if let Ok(t) = dump.get_stream::<MinidumpThreadNames>() { let _ = t.print(&mut sink); }
    set("thread info"); if let Ok(t) = dump.get_stream::<MinidumpThreadInfoList>() { let _ = t.print(&mut sink); }
    set("breakpad info"); if let Ok(b) = dump.get_stream::<MinidumpBreakpadInfo>() { let _ = b.print(&mut sink); }
    set("crashpad info"); if let Ok(c) = dump.get_stream::<MinidumpCrashpadInfo>() { let _ = c.print(&mut sink); }
    set("mac crash info"); if let Ok(c) = dump.get_stream::<MinidumpMacCrashInfo>() { let _ = c.print(&mut sink); }
    set("mac bootargs"); if let Ok(c) = dump.get_stream::<MinidumpMacBootargs>() { let _ = c.print(&mut sink); }
    set("linux text streams"); if let Ok(s) = dump.get_stream::<MinidumpLinuxCpuInfo>() { let _ = s.iter().count(); } if let Ok(s) = dump.get_stream::<MinidumpLinuxEnviron>() { let _ = s.iter().count(); } if let Ok(s) = dump.get_stream::<MinidumpLinuxLsbRelease>() { let _ = s.iter().count(); } if let Ok(s) = dump.get_stream::<MinidumpLinuxProcStatus>() { let _ = s.iter().count(); } if let Ok(s) = dump.get_stream::<MinidumpLinuxProcLimits>() { let _ = s.iter().count(); } let _ = dump.get_stream::<MinidumpSoftErrors>();
    set("raw streams"); let types: Vec<u32> = dump.all_streams().map(|d| d.stream_type).collect(); for t in types { let _ = dump.get_raw_stream(t); } let _ = dump.unknown_streams().count(); let _ = dump.unimplemented_streams().count();
}
fn main() {
    let args: Vec<String> = std::env::args().collect(); let path = &args[1]; let start: usize = args.get(2).map(|s| s.parse().unwrap()).unwrap_or(0);
    let seed = std::fs::read(path).unwrap(); let len = seed.len() as u64;
    // values
    let mut dirs: Vec<u64> = vec![]; if let Ok(d) = Minidump::read(&seed[..]) { for s in d.all_streams() { dirs.push(s.location.rva as u64); dirs.push(s.location.rva as u64 + s.location.data_size as u64); } }
    let sites = std::sync::Arc::new(Mutex::new(std::collections::BTreeMap::<String,(u64,String)>::new()));
    let s2 = sites.clone(); let op = Arc::new(Mutex::new(String::new())); let op2 = op.clone();
    let cur = Arc::new(Mutex::new(String::new())); let cur2 = cur.clone();
    std::panic::set_hook(Box::new(move |i| { let loc = i.location().map(|l| format!("{}:{}", l.file(), l.line())).unwrap_or_default(); let msg = i.payload().downcast_ref::<String>().cloned().or(i.payload().downcast_ref::<&str>().map(|s| s.to_string())).unwrap_or_default();
        let mut s = s2.lock().unwrap(); let e = s.entry(format!("{loc} :: {} :: op={}", msg.chars().take(60).collect::<String>(), op2.lock().unwrap())).or_insert((0, cur2.lock().unwrap().clone())); e.0 += 1; }));
    // watchdog
    let progress = Arc::new(std::sync::atomic::AtomicU64::new(0)); let p2 = progress.clone(); let cur3 = cur.clone(); let op3 = op.clone();
    std::thread::spawn(move || { let mut last = u64::MAX; let mut same = 0; loop { std::thread::sleep(std::time::Duration::from_millis(500)); let p = p2.load(std::sync::atomic::Ordering::SeqCst); if p == last { same += 1; if same >= 6 { println!("HANG case={} op={}", cur3.lock().unwrap(), op3.lock().unwrap()); std::io::stdout().flush().unwrap(); std::process::exit(3); } } else { same = 0; last = p; } } });
    let words = (seed.len() / 4).min(6000); let mut idx = 0usize; let mut total = 0u64;
    for w in 0..words { let off = w * 4; let mut vals: Vec<u64> = vec![0, 1, len - 1, len, len + 1, 1 << 31, u32::MAX as u64, off as u64, (off as u64).saturating_sub(4), (off as u64).saturating_sub(8), (off as u64).saturating_sub(16), 16, 0xffff]; vals.extend(dirs.iter().cloned());
        vals.sort(); vals.dedup();
        for v in vals { for width in [2usize, 4, 8] { if off + width > seed.len() { continue; } idx += 1; if idx <= start { continue; }
            let mut b = seed.clone(); b[off..off + width].copy_from_slice(&v.to_le_bytes()[..width]);
            *cur.lock().unwrap() = format!("idx={idx} off={off:#x} width={width} val={v:#x}"); progress.fetch_add(1, std::sync::atomic::Ordering::SeqCst); total += 1;
            let _ = catch_unwind(AssertUnwindSafe(|| exercise(&b, &op)));
        } } }
    println!("seed={path} len={len} cases={total} distinct panic sites={}", sites.lock().unwrap().len());
    for (k, v) in sites.lock().unwrap().iter() { println!("  {}x {k}   e.g. {}", v.0, v.1); }
}
