// C16 probe: scripted loopback server x every cut point x cancellation after every event -> cache/tmp invariants
use breakpad_symbols::*; use std::io::{Read, Write}; use std::sync::mpsc; use std::path::Path; use std::str::FromStr;
#[derive(Debug, Clone)] enum Ev { Send(Vec<u8>), Close }
fn server(l: std::net::TcpListener, rx: mpsc::Receiver<Ev>, reqs: mpsc::Sender<String>) { while let Ok((mut c, _)) = l.accept() { let mut buf = [0u8; 8192]; let n = c.read(&mut buf).unwrap_or(0); let _ = reqs.send(String::from_utf8_lossy(&buf[..n]).lines().next().unwrap_or("").to_string());
        loop { match rx.recv() { Ok(Ev::Send(b)) => { let _ = c.write_all(&b); let _ = c.flush(); } Ok(Ev::Close) | Err(_) => break } } drop(c); } }
fn files(p: &Path) -> Vec<(String, Vec<u8>)> { let mut v = vec![]; fn rec(p: &Path, v: &mut Vec<(String, Vec<u8>)>) { if let Ok(rd) = std::fs::read_dir(p) { for e in rd.flatten() { let pp = e.path(); if pp.is_dir() { rec(&pp, v) } else { v.push((pp.display().to_string(), std::fs::read(&pp).unwrap_or_default())) } } } } rec(p, &mut v); v }
fn main() {
    let rt = tokio::runtime::Builder::new_current_thread().enable_all().build().unwrap();
    let body = b"MODULE Linux x86 ABCD1234ABCD1234ABCDABCD12345678a foo\nFILE 1 foo.c\nFUNC 1000 30 10 some func\n1000 30 100 1\nPUBLIC 2000 0 pub\nSTACK CFI INIT 1000 30 .cfa: $esp 4 + .ra: .cfa 4 - ^\n".to_vec();
    let id = debugid::DebugId::from_str("abcd1234-abcd-1234-abcd-abcd12345678-a").unwrap();
    let mut problems: std::collections::BTreeMap<String,(u64,String)> = Default::default(); let mut runs = 0u64; let mut oks = 0u64;
    // scenario = (framing, events, cancel_after: Option<usize>)
    let mut scenarios: Vec<(String, Vec<Ev>, Option<usize>, Option<Vec<u8>>)> = vec![]; // last: expected downloaded bytes if Ok expected
    let head_cl = |n: usize| format!("HTTP/1.1 200 OK\r\nContent-Length: {n}\r\n\r\n").into_bytes(); let head_close = b"HTTP/1.1 200 OK\r\nConnection: close\r\n\r\n".to_vec(); let head_ch = b"HTTP/1.1 200 OK\r\nTransfer-Encoding: chunked\r\n\r\n".to_vec();
    for k in 0..=body.len() { // cut after k bytes
        scenarios.push((format!("content-length cut@{k}"), vec![Ev::Send(head_cl(body.len())), Ev::Send(body[..k].to_vec()), Ev::Close], None, if k == body.len() { Some(body.clone()) } else { None }));
        scenarios.push((format!("close-delimited cut@{k}"), vec![Ev::Send(head_close.clone()), Ev::Send(body[..k].to_vec()), Ev::Close], None, Some(body[..k].to_vec())));
        let mut ch = vec![Ev::Send(head_ch.clone())]; if k > 0 { ch.push(Ev::Send(format!("{:x}\r\n", k).into_bytes())); ch.push(Ev::Send(body[..k].to_vec())); ch.push(Ev::Send(b"\r\n".to_vec())); } if k == body.len() { ch.push(Ev::Send(b"0\r\n\r\n".to_vec())); } ch.push(Ev::Close);
        scenarios.push((format!("chunked cut@{k}"), ch, None, if k == body.len() { Some(body.clone()) } else { None }));
        // two chunks split at k, full delivery, and cancellation after each event
        let evs = vec![Ev::Send(head_cl(body.len())), Ev::Send(body[..k].to_vec()), Ev::Send(body[k..].to_vec()), Ev::Close];
        scenarios.push((format!("split@{k}"), evs.clone(), None, Some(body.clone())));
        if k % 16 == 0 { for c in 0..3 { scenarios.push((format!("split@{k} cancel-after-event{c}"), evs.clone(), Some(c), None)); } } }
    for st in [404u16, 500, 301] { scenarios.push((format!("status {st}"), vec![Ev::Send(format!("HTTP/1.1 {st} X\r\nContent-Length: 0\r\n\r\n").into_bytes()), Ev::Close], None, None)); }
    for j in 0..6 { let mut b = body.clone(); let lines: Vec<usize> = std::iter::once(0).chain(b.iter().enumerate().filter(|x| *x.1 == b'\n').map(|x| x.0 + 1)).collect(); if j < lines.len() - 1 { b[lines[j]] = b'@'; } scenarios.push((format!("corrupt line {j}"), vec![Ev::Send(head_cl(b.len())), Ev::Send(b), Ev::Close], None, None)); }
    for (name, evs, cancel, exp_bytes) in scenarios { runs += 1;
        let dir = tempfile::tempdir().unwrap(); let cache = dir.path().join("cache"); let tmp = dir.path().join("tmp"); std::fs::create_dir_all(&cache).unwrap(); std::fs::create_dir_all(&tmp).unwrap();
        let l = std::net::TcpListener::bind("127.0.0.1:0").unwrap(); let port = l.local_addr().unwrap().port(); let (tx, rx) = mpsc::channel(); let (rtx, rrx) = mpsc::channel(); std::thread::spawn(move || server(l, rx, rtx));
        let supplier = HttpSymbolSupplier::new(vec![format!("http://127.0.0.1:{port}/")], cache.clone(), tmp.clone(), vec![], std::time::Duration::from_secs(5)); let m = SimpleModule::new("foo.pdb", id);
        let mut note = |k: String| { let e = problems.entry(k).or_insert((0, name.clone())); e.0 += 1; };
        let res = rt.block_on(async { match cancel { None => { for e in &evs { tx.send(e.clone()).unwrap(); } Some(supplier.locate_symbols(&m).await) }
            Some(c) => { for e in &evs[..=c] { tx.send(e.clone()).unwrap(); } let r = tokio::time::timeout(std::time::Duration::from_millis(60), supplier.locate_symbols(&m)).await; for e in &evs[c + 1..] { let _ = tx.send(e.clone()); } r.ok() } } });
        drop(tx);
        let cf = files(&cache); let tf = files(&tmp); if !tf.is_empty() { note(format!("stray temp file")); }
        match &res { Some(Ok(r)) => { oks += 1; if cf.len() != 1 { note(format!("Ok but {} cache files", cf.len())); } else { let url = r.symbols.url.clone().unwrap_or_default(); let expect_suffix = format!("INFO URL {url}\n"); let c = &cf[0].1;
                    match &exp_bytes { Some(b) => { let mut e = b.clone(); e.extend_from_slice(expect_suffix.as_bytes()); if c != &e { note(format!("cache content != downloaded + INFO URL")); } } None => note("Ok not expected".into()) }
                    // reload from cache, dead server
                    let s2 = HttpSymbolSupplier::new(vec!["http://127.0.0.1:1/".into()], cache.clone(), tmp.clone(), vec![], std::time::Duration::from_secs(1)); match rt.block_on(s2.locate_symbols(&m)) { Ok(r2) => { if r2.symbols != r.symbols { note("reload differs from original".into()); } } Err(e) => note(format!("reload failed {e}")) } } }
            Some(Err(_)) | None => { if !cf.is_empty() { note(format!("failed/cancelled run left {} cache file(s)", cf.len())); } if cancel.is_none() { if let Some(b) = &exp_bytes { if SymbolFile::from_bytes(b).is_ok() { note("expected Ok (downloaded bytes parse) but got error".into()); } } } } }
        let _ = rrx.try_iter().count();
    }
    println!("runs={runs} ok={oks} problem kinds={}", problems.len()); for (k, (n, ex)) in &problems { println!("  {n}x {k}   e.g. {ex}"); }
}
