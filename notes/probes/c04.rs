// C04 probe: generated well-formed stacks (CFI / frame pointer / scan, mixed per frame) -> exact call chain
use minidump::*; use minidump::format::*; use minidump::system_info::{Cpu, Os}; use minidump_unwind::*; use std::collections::HashMap;
#[derive(Clone, Copy, PartialEq, Debug)] enum T { Cfi, Fp, Scan }
#[derive(Clone, Copy, PartialEq, Debug)] enum A { X86, Amd64, Arm, ArmIos, Arm64, Arm64Old, Mips32, Mips64 }
struct Spec { ptr: u64, adj: u64, sp: &'static str, fp: &'static str, cs: &'static str, cfi_sp: &'static str, cfi_fp: &'static str, cfi_cs: &'static str, has_fp: bool, cpu: Cpu, os: Os }
fn spec(a: A) -> Spec { match a {
    A::X86 => Spec { ptr: 4, adj: 1, sp: "esp", fp: "ebp", cs: "ebx", cfi_sp: "$esp", cfi_fp: "$ebp", cfi_cs: "$ebx", has_fp: true, cpu: Cpu::X86, os: Os::Linux },
    A::Amd64 => Spec { ptr: 8, adj: 1, sp: "rsp", fp: "rbp", cs: "rbx", cfi_sp: "$rsp", cfi_fp: "$rbp", cfi_cs: "$rbx", has_fp: true, cpu: Cpu::X86_64, os: Os::Linux },
    A::Arm => Spec { ptr: 4, adj: 2, sp: "sp", fp: "fp", cs: "r4", cfi_sp: "sp", cfi_fp: "r11", cfi_cs: "r4", has_fp: false, cpu: Cpu::Arm, os: Os::Linux },
    A::ArmIos => Spec { ptr: 4, adj: 2, sp: "sp", fp: "fp", cs: "r4", cfi_sp: "sp", cfi_fp: "fp", cfi_cs: "r4", has_fp: true, cpu: Cpu::Arm, os: Os::Ios },
    A::Arm64 | A::Arm64Old => Spec { ptr: 8, adj: 4, sp: "sp", fp: "fp", cs: "x19", cfi_sp: "sp", cfi_fp: "x29", cfi_cs: "x19", has_fp: true, cpu: Cpu::Arm64, os: Os::MacOs },
    A::Mips32 => Spec { ptr: 4, adj: 8, sp: "sp", fp: "fp", cs: "s0", cfi_sp: "$sp", cfi_fp: "$fp", cfi_cs: "$s0", has_fp: false, cpu: Cpu::Mips, os: Os::Linux },
    A::Mips64 => Spec { ptr: 8, adj: 8, sp: "sp", fp: "fp", cs: "s0", cfi_sp: "$sp", cfi_fp: "$fp", cfi_cs: "$s0", has_fp: false, cpu: Cpu::Mips64, os: Os::Linux },
} }
const MOD: u64 = 0x4000_0000; const STACK: u64 = 0x6000_0000;
fn mkctx(a: A, regs: &[(&str, u64)]) -> MinidumpRawContext {
    macro_rules! fill { ($c:expr, $t:ty) => {{ let mut c = $c; for (n, v) in regs { c.set_register(n, *v as $t).unwrap(); } c }} }
    match a { A::X86 => MinidumpRawContext::X86(fill!(CONTEXT_X86::default(), u32)), A::Amd64 => MinidumpRawContext::Amd64(fill!(CONTEXT_AMD64::default(), u64)),
        A::Arm | A::ArmIos => MinidumpRawContext::Arm(fill!(CONTEXT_ARM::default(), u32)), A::Arm64 => MinidumpRawContext::Arm64(fill!(CONTEXT_ARM64::default(), u64)), A::Arm64Old => MinidumpRawContext::OldArm64(fill!(CONTEXT_ARM64_OLD::default(), u64)),
        A::Mips32 => { let mut c = CONTEXT_MIPS::default(); c.context_flags = 0x0004_0007; MinidumpRawContext::Mips(fill!(c, u64)) }, A::Mips64 => { let mut c = CONTEXT_MIPS::default(); c.context_flags = 0x0008_0007; MinidumpRawContext::Mips(fill!(c, u64)) } } }
fn ip_name(a: A) -> &'static str { match a { A::X86 => "eip", A::Amd64 => "rip", _ => "pc" } }
struct Case { arch: A, techs: Vec<T>, sizes: Vec<u64> }
fn run(rt: &tokio::runtime::Runtime, c: &Case) -> Result<(), String> {
    let s = spec(c.arch); let d = c.techs.len(); let p = s.ptr;
    // sp_i
    let mut sp = vec![STACK]; for i in 0..d { sp.push(sp[i] + c.sizes[i] * p); }
    let dummy = sp[d] + 2 * p; let total_words = (sp[d] - STACK) / p + 6; // dummy area of zeros after the frames
    let ra = |i: usize| -> u64 { if i + 1 < d { MOD + 0x1000 * (i as u64 + 2) + 0x20 } else { 0 } }; // return address stored in frame i = pc of frame i+1
    let pc0 = MOD + 0x1000 + 0x10;
    let fpval = |j: usize| -> u64 { if j < d && c.techs[j] == T::Fp { sp[j + 1] - 2 * p } else if j >= d { 0 } else { match c.arch { A::Amd64 => dummy, A::ArmIos => 4, _ => 0 } } };
    let fpval_top = |j: usize| -> u64 { if j >= d { if c.arch == A::Amd64 { dummy } else { 0 } } else { fpval(j) } };
    let magic = |j: usize| -> u64 { 0x0dea_0000 + j as u64 };
    let mut words = vec![0u64; total_words as usize];
    for i in 0..d { let top = ((sp[i + 1] - STACK) / p) as usize; words[top - 1] = ra(i); words[top - 2] = fpval_top(i + 1); words[top - 3] = magic(i + 1); }
    let mut bytes = vec![]; for w in &words { if p == 4 { bytes.extend_from_slice(&(*w as u32).to_le_bytes()) } else { bytes.extend_from_slice(&w.to_le_bytes()) } }
    // symbols
    let mut sym = String::from("MODULE Linux x 000000000000000000000000000000000 m\n");
    for i in 0..d { sym += &format!("FUNC {:x} 100 0 f{}\n", 0x1000 * (i as u64 + 1), i); }
    for i in 0..d { if c.techs[i] == T::Cfi { let neg = |k: u64| format!(".cfa {} - ^", k * p); sym += &format!("STACK CFI INIT {:x} 100 .cfa: {} {} + .ra: {} {}: {} {}: {}\n", 0x1000 * (i as u64 + 1), s.cfi_sp, c.sizes[i] * p, neg(1), s.cfi_fp, neg(2), s.cfi_cs, neg(3)); } }
    let mut syms = HashMap::new(); syms.insert("m".to_string(), sym.clone());
    let raw = mkctx(c.arch, &[(ip_name(c.arch), pc0), (s.sp, sp[0]), (s.fp, fpval(0)), (s.cs, magic(0))]);
    let ctx = MinidumpContext { raw, valid: MinidumpContextValidity::All };
    let mem = MinidumpMemory { desc: Default::default(), base_address: STACK, size: bytes.len() as u64, bytes: &bytes, endian: scroll::LE };
    let ml = MinidumpModuleList::from_modules(vec![MinidumpModule::new(MOD, 0x100000, "m")]);
    let si = SystemInfo { os: s.os, os_version: None, os_build: None, cpu: s.cpu, cpu_info: None, cpu_microcode_version: None, cpu_count: 1 };
    let symbolizer = Symbolizer::new(string_symbol_supplier(syms));
    let mut cs = CallStack::with_context(ctx);
    rt.block_on(walk_stack(0, |i: usize, _: &StackFrame| { if i > 200 { panic!("frame cap") } }, &mut cs, Some(UnifiedMemory::Memory(&mem)), &ml, &si, &symbolizer));
    if cs.frames.len() != d { return Err(format!("frame count {} != {}; trusts={:?}", cs.frames.len(), d, cs.frames.iter().map(|f| f.trust).collect::<Vec<_>>())); }
    for (j, f) in cs.frames.iter().enumerate() {
        let exp_trust = if j == 0 { FrameTrust::Context } else { match c.techs[j - 1] { T::Cfi => FrameTrust::CallFrameInfo, T::Fp => FrameTrust::FramePointer, T::Scan => FrameTrust::Scan } };
        if f.trust != exp_trust { return Err(format!("frame {j} trust {:?} != {:?}", f.trust, exp_trust)); }
        let exp_resume = if j == 0 { pc0 } else { ra(j - 1) }; let exp_instr = if j == 0 { pc0 } else { exp_resume - s.adj };
        if f.resume_address != exp_resume || f.instruction != exp_instr { return Err(format!("frame {j} resume {:#x}/{:#x} instr {:#x}/{:#x}", f.resume_address, exp_resume, f.instruction, exp_instr)); }
        if f.context.get_stack_pointer() != sp[j] { return Err(format!("frame {j} sp {:#x} != {:#x}", f.context.get_stack_pointer(), sp[j])); }
        if f.function_name.as_deref() != Some(&format!("f{j}")) { return Err(format!("frame {j} function {:?}", f.function_name)); }
        if f.module.as_ref().map(|m| m.name.as_str()) != Some("m") { return Err(format!("frame {j} module")); }
        if j > 0 && c.techs[j - 1] == T::Cfi { if f.context.get_register(s.cs) != Some(magic(j)) { return Err(format!("frame {j} callee-saved {} = {:?}, expected {:#x}", s.cs, f.context.get_register(s.cs), magic(j))); }
            if f.context.get_register(s.fp) != Some(fpval_top(j)) { return Err(format!("frame {j} fp = {:?}, expected {:#x}", f.context.get_register(s.fp), fpval_top(j))); } }
        if j > 0 && c.techs[j - 1] == T::Fp { if f.context.get_register(s.fp) != Some(fpval_top(j)) { return Err(format!("frame {j} fp(after fp) = {:?}, expected {:#x}", f.context.get_register(s.fp), fpval_top(j))); } }
    }
    Ok(())
}
fn allowed(a: A, techs: &[T]) -> bool { let s = spec(a);
    for (i, t) in techs.iter().enumerate() { if *t == T::Fp && !s.has_fp { return false; }
        // FP cannot follow a scan frame except on x86 (scan recovers ebp there)
        if *t == T::Fp && i > 0 && techs[i - 1] == T::Scan && a != A::X86 { return false; } }
    true }
fn main() {
    std::panic::set_hook(Box::new(|_| {}));
    let rt = tokio::runtime::Builder::new_current_thread().build().unwrap();
    let archs = [A::X86, A::Amd64, A::Arm, A::ArmIos, A::Arm64, A::Arm64Old, A::Mips32, A::Mips64];
    let mut fails: std::collections::BTreeMap<String, (u64, String)> = Default::default(); let mut total = 0u64;
    for &a in &archs {
        // mixed techniques, depth <= 4, sizes from menu
        for d in 1..=4usize { let n = 3usize.pow(d as u32); for code in 0..n { let techs: Vec<T> = (0..d).map(|i| [T::Cfi, T::Fp, T::Scan][(code / 3usize.pow(i as u32)) % 3]).collect(); if !allowed(a, &techs) { continue; }
            for size_menu in [vec![6u64; d], vec![8; d], (0..d).map(|i| if i == 0 { if matches!(a, A::Mips32 | A::Mips64) { 100 } else { 150 } } else { 39 }).collect::<Vec<_>>(), (0..d).map(|i| 6 + 3 * i as u64).collect::<Vec<_>>()] {
                let c = Case { arch: a, techs: techs.clone(), sizes: size_menu.clone() }; total += 1;
                let r = std::panic::catch_unwind(std::panic::AssertUnwindSafe(|| run(&rt, &c))).unwrap_or_else(|_| Err("PANIC".into()));
                if let Err(e) = r { let key = format!("{a:?}: {}", e.split(';').next().unwrap().chars().take(70).collect::<String>()); let ent = fails.entry(key).or_insert((0, format!("{techs:?} sizes={size_menu:?} :: {e}"))); ent.0 += 1; } } } }
        // uniform sweeps depth 1..64
        for t in [T::Cfi, T::Fp, T::Scan] { for d in 1..=64usize { let techs = vec![t; d]; if !allowed(a, &techs) { continue; } for sz in [6u64, 20, 39] { let c = Case { arch: a, techs: techs.clone(), sizes: vec![sz; d] }; total += 1;
            let r = std::panic::catch_unwind(std::panic::AssertUnwindSafe(|| run(&rt, &c))).unwrap_or_else(|_| Err("PANIC".into()));
            if let Err(e) = r { let key = format!("{a:?} uniform {t:?}: {}", e.split(|c: char| c.is_ascii_digit()).next().unwrap_or("")); let ent = fails.entry(key).or_insert((0, format!("d={d} sz={sz} :: {e}"))); ent.0 += 1; } } } }
    }
    println!("cases={total} failure kinds={}", fails.len());
    for (k, (n, ex)) in &fails { println!("  {n}x {k}\n      e.g. {ex}"); }
}
