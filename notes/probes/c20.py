import subprocess, itertools, os, tempfile, sys
BIN='/repo/target/debug/minidump-stackwalk'; X='/tmp/pr/target/release/c20x'
dumps=['/repo/testdata/test.dmp','/repo/testdata/linux-mini.dmp']
sym='/repo/testdata/symbols'
tmp=tempfile.mkdtemp()
bad=0; total=0
def lib(d,symdir,mode,brief,pretty,feat):
    p=subprocess.run([X,d,symdir or '-',mode,str(int(brief)),str(int(pretty)),feat],capture_output=True); return p.returncode,p.stdout
for d in dumps:
  for mode in [None,'--human','--json','--cyborg','--dump']:
    for brief in [0,1]:
      for pretty in [0,1]:
        for feat in ['stable-basic','stable-all','unstable-all']:
          for outf in [0,1]:
            for symmode in [0,1,2]:
              args=[BIN,'--no-interactive']
              cy=os.path.join(tmp,'cy.json'); of=os.path.join(tmp,'out.txt')
              for f in (cy,of):
                  if os.path.exists(f): os.remove(f)
              if mode=='--cyborg': args+=['--cyborg',cy]
              elif mode: args.append(mode)
              if brief: args.append('--brief')
              if pretty: args.append('--pretty')
              args+=['--features',feat]
              if outf: args+=['--output-file',of]
              if symmode==2: args+=['--symbols-path',sym]
              args.append(d)
              if symmode==1: args.append(sym)
              p=subprocess.run(args,capture_output=True); total+=1
              human = mode in (None,'--human','--cyborg'); json_ = mode in ('--json','--cyborg'); dumpm = mode=='--dump'
              invalid = (pretty and not json_) or (brief and not (human or dumpm))
              primary = open(of,'rb').read() if (outf and os.path.exists(of)) else p.stdout
              prob=None
              if p.returncode not in (0,1): prob=f'exit {p.returncode}'
              elif invalid:
                  if p.returncode!=1 or primary or not p.stderr: prob=f'invalid combo: rc={p.returncode} primary={len(primary)} stderr={len(p.stderr)}'
              elif p.returncode!=0: prob=f'rc={p.returncode} stderr={p.stderr[:200]}'
              elif outf and p.stdout: prob='stdout not empty with --output-file'
              elif not dumpm:
                  sd = sym if symmode else None
                  exp=b''
                  if human: exp=lib(d,sd,'human',brief,0,feat)[1]
                  if mode=='--cyborg':
                      ej=lib(d,sd,'json',0,pretty,feat)[1]
                      got=open(cy,'rb').read() if os.path.exists(cy) else None
                      if got!=ej: prob='cyborg json differs'
                  elif json_: exp=lib(d,sd,'json',0,pretty,feat)[1]
                  if prob is None and primary!=exp: prob=f'primary output differs (len {len(primary)} vs {len(exp)})'
              elif not primary: prob='empty dump output'
              if prob:
                  bad+=1
                  if bad<=12: print('PROBLEM',prob,' '.join(args[1:]))
print('runs',total,'problems',bad)
