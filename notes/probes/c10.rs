// C10 probe: Rust port of the buffer-machine model + conformance against the real parser (small-buffer build)
use breakpad_symbols::SymbolFile; use std::io::Read; use std::collections::{HashMap, HashSet};
const INIT: usize = 16; const MAX: usize = 256;
#[derive(Clone, Hash, PartialEq, Eq, Debug)]
struct St { cap: usize, pos: usize, end: usize, fully: bool, tried: bool, rec: bool, justfin: bool, total: usize, src: usize, mem: Vec<u8>, cb: usize, dropped: usize }
#[derive(Clone, Hash, PartialEq, Eq, Debug)] enum Out { Ok { cb: usize, dropped: usize }, ErrEmpty, ErrEof }
impl St {
    fn new() -> St { St { cap: INIT, pos: 0, end: 0, fully: false, tried: false, rec: false, justfin: false, total: 0, src: 0, mem: vec![0; INIT], cb: 0, dropped: 0 } }
    fn shift(&mut self) { if self.pos > 0 { let l = self.end - self.pos; self.mem.copy_within(self.pos..self.end, 0); self.pos = 0; self.end = l; } }
    fn consume(&mut self, c: usize) { let c = c.min(self.end - self.pos); self.pos += c; if self.pos > self.cap / 2 { self.shift(); } }
    fn fill(&mut self, c: usize) { let c = c.min(self.cap - self.end); self.end += c; if self.cap - self.end < (self.end - self.pos) + c { self.shift(); } }
    // phase A (top of loop, before read): recovery step. returns space available for the read
    fn pre(&mut self) -> usize { if self.rec { let d = &self.mem[self.pos..self.end]; if let Some(i) = d.iter().position(|&b| b == b'\n') { let a = i + 1; self.cb += a; self.consume(a); self.total += a; self.rec = false; self.fully = false; self.justfin = true; self.dropped += 1; } else { let a = d.len(); self.cb += a; self.consume(a); self.total += a; self.fully = true; } } self.cap - self.end }
    // phase B: after reading `size` bytes (already copied). returns Some(outcome) when terminal
    fn post(&mut self, data: &[u8], size: usize) -> Option<Out> { let e = self.end; self.mem[e..e + size].copy_from_slice(&data[self.src..self.src + size]); self.src += size; self.fill(size);
        if size == 0 { if self.justfin && self.end > self.pos { } else if self.fully { return Some(Out::Ok { cb: self.cb, dropped: self.dropped }); } else if !self.tried { let nc = self.cap * 2; if nc > MAX { self.rec = true; return None; } self.mem.resize(nc, 0); self.cap = nc; self.tried = true; return None; } else if self.total == 0 { return Some(Out::ErrEmpty); } else { return Some(Out::ErrEof); } } else { self.tried = false; }
        if self.rec { return None; } self.justfin = false;
        let d = &self.mem[self.pos..self.end]; let consumed = d.iter().rposition(|&b| b == b'\n').map(|i| i + 1).unwrap_or(0); self.total += consumed; self.cb += consumed; self.fully = d.len() == consumed; self.consume(consumed); None }
}
fn run_model(data: &[u8], plan: &[usize]) -> (Out, Vec<(usize, usize)>) { let mut s = St::new(); let mut i = 0; let mut log = vec![]; loop { let space = s.pre(); let lim = if space > 0 && i < plan.len() { let v = plan[i]; i += 1; v } else { usize::MAX }; let n = space.min(lim).min(data.len() - s.src); log.push((space, n)); if let Some(o) = s.post(data, n) { return (o, log); } } }
// all schedules: memoised DFS over states; returns set of terminal outcomes
fn all_outcomes(data: &[u8], states: &mut usize, trans: &mut usize) -> HashSet<Out> { let mut seen: HashSet<St> = HashSet::new(); let mut outs = HashSet::new(); let mut stack = vec![St::new()];
    while let Some(s0) = stack.pop() { let mut s = s0.clone(); let space = s.pre(); if !seen.insert(s.clone()) { continue; } *states += 1; let maxn = space.min(data.len() - s.src); let choices: Vec<usize> = if maxn == 0 { vec![0] } else { (1..=maxn).collect() };
        for n in choices { let mut t = s.clone(); *trans += 1; match t.post(data, n) { Some(o) => { outs.insert(o); } None => stack.push(t) } } } outs }
struct R<'a> { d: &'a [u8], plan: Vec<usize>, i: usize, log: Vec<(usize, usize)> }
impl<'a> Read for R<'a> { fn read(&mut self, b: &mut [u8]) -> std::io::Result<usize> { let lim = if !b.is_empty() && self.i < self.plan.len() { let v = self.plan[self.i]; self.i += 1; v } else { usize::MAX }; let n = b.len().min(lim).min(self.d.len()); b[..n].copy_from_slice(&self.d[..n]); self.d = &self.d[n..]; self.log.push((b.len(), n)); Ok(n) } }
fn run_real(data: &[u8], plan: &[usize]) -> (Out, Vec<(usize, usize)>, Vec<u8>) { let mut r = R { d: data, plan: plan.to_vec(), i: 0, log: vec![] }; let mut cb = vec![]; let res = SymbolFile::parse(&mut r, |b| cb.extend_from_slice(b)); let out = match res { Ok(_) => Out::Ok { cb: cb.len(), dropped: 0 }, Err(e) => if e.to_string().contains("empty SymbolFile") { Out::ErrEmpty } else { Out::ErrEof } }; (out, r.log, cb) }
fn line(l: usize) -> Vec<u8> { let mut v = if l >= 7 { b"INFO ".to_vec() } else { vec![] }; if l == 0 { return v; } v.resize(l - 1, if l >= 7 { b'x' } else { b' ' }); if l < 7 { v.clear(); v.resize(l - 1, b'\r'); } v.push(b'\n'); v }
fn main() {
    let lens: Vec<usize> = vec![1, 2, 7, 9, 15, 16, 17, 31, 33, 63, 64, 65, 100, 127, 128, 129, 200, 255, 256, 257, 300];
    let (mut inputs, mut sched, mut diverge, mut states, mut trans) = (0u64, 0u64, 0u64, 0usize, 0usize); let mut depend: Vec<String> = vec![]; let mut classes: HashMap<String, u64> = HashMap::new();
    for k in 1..=3usize { let mut idx = vec![0usize; k]; loop { for nofinal in [false, true] {
        let ls: Vec<usize> = idx.iter().map(|&i| lens[i]).collect(); let mut d: Vec<u8> = ls.iter().flat_map(|&l| line(l)).collect(); if nofinal { d.pop(); } if d.is_empty() { continue; } inputs += 1;
        // conformance: default, 1-byte trickle, fixed chunk sizes, <=1 deviation at each of first 8 reads
        let mut plans: Vec<Vec<usize>> = vec![vec![], vec![1; d.len() + 8]]; for c in [2usize, 3, 7, 8, 15, 16, 17, 32, 100, 255] { plans.push(vec![c; d.len() + 8]); }
        for at in 0..8 { for sz in [1usize, 2, 8, 15, 16, 31] { let mut p = vec![usize::MAX; at]; p.push(sz); plans.push(p); } }
        let reference = run_model(&d, &[]).0;
        for p in &plans { sched += 1; let (mo, mlog) = run_model(&d, p); let (ro, rlog, cb) = run_real(&d, p);
            let mo_cmp = match &mo { Out::Ok { cb, .. } => Out::Ok { cb: *cb, dropped: 0 }, o => o.clone() };
            if mo_cmp != ro || mlog != rlog { diverge += 1; if diverge <= 5 { println!("MODEL/CODE DIVERGENCE lens={ls:?} nofinal={nofinal} plan={:?}\n model={mo:?} {:?}\n real ={ro:?} {:?}", &p[..p.len().min(10)], &mlog[..mlog.len().min(12)], &rlog[..rlog.len().min(12)]); } }
            if !d.starts_with(&cb) { println!("callback bytes not a prefix of input! lens={ls:?}"); }
            let maxl = *ls.iter().max().unwrap(); if maxl < MAX / 2 && mo != reference { let key = format!("lines<{}: nofinal={nofinal} ref={:?} alt={:?}", MAX / 2, std::mem::discriminant(&reference), std::mem::discriminant(&mo)); *classes.entry(key).or_insert(0) += 1; if depend.len() < 4 { depend.push(format!("lens={ls:?} nofinal={nofinal} plan={:?} ref={reference:?} got={mo:?}", &p[..p.len().min(10)])); } } }
        // full-schedule model check for inputs with short total length
        if d.len() <= 140 { let outs = all_outcomes(&d, &mut states, &mut trans); let maxl = *ls.iter().max().unwrap(); if maxl < MAX / 2 && outs.len() > 1 { *classes.entry(format!("ALL-SCHEDULES lines<{}: nofinal={nofinal} outcomes={}", MAX / 2, outs.len())).or_insert(0) += 1; } }
    } let mut j = 0; loop { if j == k { break; } idx[j] += 1; if idx[j] < lens.len() { break; } idx[j] = 0; j += 1; } if j == k { break; } } }
    println!("inputs={inputs} schedules replayed on real parser={sched} model/code divergences={diverge} model states={states} transitions={trans}");
    for (k, v) in &classes { println!("  schedule-dependent outcome: {v}x {k}"); } for d in &depend { println!("   e.g. {d}"); }
}
