// helper for the C20 probe: print what the library computes for (dump, symbols dir, mode, brief, pretty, features)
use minidump::*; use minidump_processor::*; use minidump_unwind::*; use std::io::Write;
#[tokio::main]
async fn main() {
    let a: Vec<String> = std::env::args().collect(); // dump symdir|- mode(human|json) brief(0|1) pretty(0|1) features
    let dump = match Minidump::read_path(&a[1]) { Ok(d) => d, Err(_) => { std::process::exit(1) } };
    let mut provider = MultiSymbolProvider::new();
    if a[2] != "-" { provider.add(Box::new(Symbolizer::new(simple_symbol_supplier(vec![a[2].clone().into()])))); }
    let mut o = match a[6].as_str() { "stable-basic" => ProcessorOptions::stable_basic(), "stable-all" => ProcessorOptions::stable_all(), _ => ProcessorOptions::unstable_all() };
    o.recover_function_args = false; // CLI overrides with its own flag (default false)
    let st = match process_minidump_with_options(&dump, &provider, o).await { Ok(s) => s, Err(_) => std::process::exit(1) };
    let mut out = std::io::stdout();
    match a[3].as_str() { "human" => { if a[4] == "1" { st.print_brief(&mut out).unwrap() } else { st.print(&mut out).unwrap() } } _ => st.print_json(&mut out, a[5] == "1").unwrap() }
    out.flush().unwrap();
}
