// C02 probe: model -> synth (LE/BE, MemoryList/Memory64List) -> parse == model
use minidump::{Minidump, MinidumpModuleList, MinidumpThreadList, MinidumpThreadNames, MinidumpUnloadedModuleList, MinidumpMemoryInfoList, MinidumpMiscInfo, MinidumpException, MinidumpSystemInfo, MinidumpCrashpadInfo, MinidumpLinuxMaps, UnifiedMemoryList, Module as _};
use minidump_synth as synth; use minidump_synth::DumpSection; use test_assembler::*; use minidump_common::format as md;
#[derive(Clone, Debug)] struct Mod { base: u64, size: u32, name: String, ts: u32, cv: u8, age: u32 }
#[derive(Clone, Debug)] struct Model { nthreads: usize, mods: Vec<Mod>, unl: Vec<(u64,u32,String)>, regions: Vec<(u64, Vec<u8>)>, infos: Vec<(u64,u64,u32)>, names: Vec<String>, pid: Option<u32>, dup_sysinfo: bool }
fn build(m: &Model, e: Endian, mem64: bool) -> Vec<u8> {
    let mut d = synth::SynthMinidump::with_endian(e);
    if m.dup_sysinfo { d = d.add_system_info(synth::SystemInfo::new(e).set_processor_architecture(md::ProcessorArchitecture::PROCESSOR_ARCHITECTURE_INTEL as u16).set_platform_id(md::PlatformId::Linux as u32)); let first = synth::SystemInfo::new(e).set_processor_architecture(md::ProcessorArchitecture::PROCESSOR_ARCHITECTURE_ARM as u16).set_platform_id(md::PlatformId::MacOs as u32); d = d.add_stream(first); }
    else { d = d.add_system_info(synth::SystemInfo::new(e).set_processor_architecture(md::ProcessorArchitecture::PROCESSOR_ARCHITECTURE_AMD64 as u16).set_platform_id(md::PlatformId::VER_PLATFORM_WIN32_NT as u32)); }
    for t in 0..m.nthreads { let stack = synth::Memory::with_section(Section::with_endian(e).append_repeated(t as u8 + 1, 32), 0x7000_0000 + 0x1000 * t as u64); let ctx = if m.dup_sysinfo { synth::x86_context(e, 0x1000 + t as u32, 0x7000_0000 + 0x1000 * t as u32) } else { synth::amd64_context(e, 0x1_0000_1000 + t as u64, 0x7000_0000 + 0x1000 * t as u64) };
        d = d.add_thread(synth::Thread::new(e, 100 + t as u32, &stack, &ctx)).add(stack).add(ctx);
        if t < m.names.len() { let s = synth::DumpString::new(&m.names[t], e); d = d.add_thread_name(synth::ThreadName::new(e, 100 + t as u32, Some(&s))).add(s); } }
    for mo in &m.mods { let name = synth::DumpString::new(&mo.name, e); let mut sm = synth::Module::new(e, mo.base, mo.size, &name, mo.ts, 7, None);
        let cv = match mo.cv { 1 => Some(Section::with_endian(e).D32(md::CvSignature::Pdb70 as u32).D32(0x0a0b0c0d).D16(0x0102).D16(0x0304).append_bytes(&[5,6,7,8,9,10,11,12]).D32(mo.age).append_bytes(b"c:\\x\\foo.pdb\0")),
            2 => Some(Section::with_endian(e).D32(md::CvSignature::Pdb20 as u32).D32(0).D32(0x5566_7788).D32(mo.age).append_bytes(b"bar.pdb\0")), 3 => Some(Section::with_endian(e).D32(md::CvSignature::Elf as u32).append_bytes(&(0..(mo.age as u8 % 40)).collect::<Vec<u8>>())), 4 => Some(Section::with_endian(e).D32(0x1234_5678).append_bytes(b"junk")), _ => None };
        if let Some(c) = &cv { sm = sm.cv_record(c); } d = d.add_module(sm).add(name); if let Some(c) = cv { d = d.add(c); } }
    for (b, s, n) in &m.unl { let name = synth::DumpString::new(n, e); d = d.add_unloaded_module(synth::UnloadedModule::new(e, *b, *s, &name, 3, 4)).add(name); }
    for (a, bytes) in &m.regions { let mem = synth::Memory::with_section(Section::with_endian(e).append_bytes(bytes), *a); d = if mem64 { d.add_memory64(mem) } else { d.add_memory(mem) }; }
    for (b, s, p) in &m.infos { d = d.add_memory_info(synth::MemoryInfo::new(e, *b, *b, *p, *s, 0x1000, *p, 0x20000)); }
    if let Some(pid) = m.pid { let mut misc = synth::MiscStream::new(e); misc.process_id = Some(pid); misc.process_times = Some(synth::MiscFieldsProcessTimes { process_create_time: 77, process_user_time: 1, process_kernel_time: 2 }); d = d.add_stream(misc); }
    d = d.add_crashpad_info(synth::CrashpadInfo::new(e).add_simple_annotation("k\u{e9}", "v\u{1F600}").add_module(synth::ModuleCrashpadInfo::new(0, e).add_list_annotation("la").add_simple_annotation("a", "b")));
    d.finish().unwrap()
}
fn main() {
    let mut problems: std::collections::BTreeMap<String,(u64,String)> = Default::default(); let mut total = 0u64;
    let names = ["", "a", "caf\u{e9}.dll", "\u{1F600}\u{10FFFF}x", "with\0nul", "C:\\Program Files\\x y.exe"];
    for nthreads in [0usize, 1, 3, 40] { for nmods in [0usize, 1, 2, 5, 40] { for cvk in 0..5u8 { for &(regn, regsz) in &[(0usize, 0usize), (1, 1), (3, 17), (2, 4096)] { for dup in [false, true] { for pid in [None, Some(0u32), Some(u32::MAX)] {
        let m = Model { nthreads, names: (0..nthreads.min(names.len())).map(|i| names[i].to_string()).collect(),
            mods: (0..nmods).map(|i| Mod { base: if i == 39 { u64::MAX - 0xffff } else { 0x1_0000_0000 + 0x10_0000 * i as u64 }, size: if i % 2 == 0 { 0x10000 } else { 1 }, name: names[i % names.len()].to_string() + &i.to_string(), ts: 0x5000_0000 + i as u32, cv: (cvk + i as u8) % 5, age: if i % 3 == 0 { 0 } else { 17 + i as u32 } }).collect(),
            unl: (0..nmods.min(3)).map(|i| (0x2_0000_0000 + 0x1000 * i as u64, 0x1800, format!("u{i}.dll"))).collect(),
            regions: (0..regn).map(|i| (0x9000_0000u64 + 0x10000 * i as u64, (0..regsz).map(|k| (k * 7 + i) as u8).collect())).collect(),
            infos: (0..regn).map(|i| (0x9000_0000u64 + 0x10000 * i as u64, 0x1000, 4u32 << i)).collect(), pid, dup_sysinfo: dup };
        let mut parsed: Vec<String> = vec![];
        for e in [Endian::Little, Endian::Big] { for mem64 in [false, true] { total += 1; let bytes = build(&m, e, mem64);
            let mut note = |k: String| { let en = problems.entry(format!("{k} [{}]", if matches!(e, Endian::Big) { "BE" } else { "LE" })).or_insert((0, format!("threads={nthreads} mods={nmods} cvk={cvk} reg=({regn},{regsz}) dup={dup} pid={pid:?} mem64={mem64}"))); en.0 += 1; };
            let d = match Minidump::read(&bytes[..]) { Ok(d) => d, Err(er) => { note(format!("read error {er}")); continue; } };
            let mut sig = String::new();
            // system info: last duplicate wins (dup: ARM/MacOs stream added last)
            let si = d.get_stream::<MinidumpSystemInfo>().unwrap(); sig += &format!("{:?}{:?}|", si.os, si.cpu); if m.dup_sysinfo && !(format!("{:?}", si.cpu) == "Arm") { note(format!("last duplicate directory entry not served: {:?}", si.cpu)); }
            match d.get_stream::<MinidumpThreadList>() { Ok(tl) => { if tl.threads.len() != m.nthreads { note("thread count".into()); } for (t, th) in tl.threads.iter().enumerate() { if th.raw.thread_id != 100 + t as u32 { note("thread id/order".into()); }
                    let mem = d.get_memory().unwrap_or_default(); match th.stack_memory(&mem) { Some(s) => { if s.base_address() != 0x7000_0000 + 0x1000 * t as u64 || s.bytes() != vec![t as u8 + 1; 32] { note("stack bytes".into()); } } None => note("stack missing".into()) }
                    match th.context(&si, None) { Some(c) => { let ip = c.get_instruction_pointer(); let exp = if m.dup_sysinfo { 0x1000 + t as u64 } else { 0x1_0000_1000 + t as u64 }; if !m.dup_sysinfo && ip != exp { note(format!("context ip")); } sig += &format!("{ip:x},"); } None => { if !m.dup_sysinfo { note("context unreadable".into()); } } } } } Err(_) => { if m.nthreads > 0 { note("thread list missing".into()); } } }
            match d.get_stream::<MinidumpThreadNames>() { Ok(tn) => { for (t, n) in m.names.iter().enumerate() { if tn.get_name(100 + t as u32).as_deref() != Some(n.as_str()) { note(format!("thread name {:?}", n)); } } } Err(_) => { if !m.names.is_empty() { note("thread names missing".into()); } } }
            match d.get_stream::<MinidumpModuleList>() { Ok(ml) => { let v: Vec<_> = ml.iter().collect(); if v.len() != m.mods.len() { note(format!("module count {} != {}", v.len(), m.mods.len())); } else { for (mo, pm) in m.mods.iter().zip(v) { if pm.base_address() != mo.base || pm.size() != mo.size as u64 || pm.code_file() != mo.name { note("module base/size/name".into()); }
                    let (edf, edi): (Option<String>, Option<String>) = match mo.cv { 1 => (Some("c:\\x\\foo.pdb".into()), Some(format!("0A0B0C0D01020304050607080{}{:x}", "90A0B0C", mo.age))), 2 => (Some("bar.pdb".into()), Some(format!("5566778800000000000000000000000{:x}", mo.age).replacen("0000000", "0000000", 1))), 3 => (Some(mo.name.clone()), None), _ => (None, None) };
                    if pm.debug_file().map(|s| s.to_string()) != edf { note(format!("debug_file cv={}", mo.cv)); }
                    let di = pm.debug_identifier().map(|x| x.breakpad().to_string());
                    if mo.cv == 1 { if di != edi { note(format!("pdb70 debug id {:?} != {:?}", di, edi)); } }
                    if mo.cv == 2 { let exp = format!("55667788{:x}", mo.age); if di.as_deref() != Some(exp.as_str()) { note(format!("pdb20 debug id {:?} != {exp}", di)); } }
                    let ci = pm.code_identifier().map(|c| c.to_string()); if mo.cv == 1 || mo.cv == 2 || mo.cv == 0 { let exp = format!("{:08X}{:x}", mo.ts, mo.size).to_lowercase(); if ci.as_deref().map(|s| s.to_lowercase()) != Some(exp.clone()) && !(m.dup_sysinfo && mo.cv == 0) { note(format!("code id {:?} != {exp} cv={}", ci, mo.cv)); } }
                    sig += &format!("{:?}{:?}|", di, ci); } } } Err(er) => { if !m.mods.is_empty() { note(format!("module list error {er}")); } } }
            match d.get_stream::<MinidumpUnloadedModuleList>() { Ok(ul) => { let v: Vec<_> = ul.iter().collect(); if v.len() != m.unl.len() || v.iter().zip(&m.unl).any(|(p, q)| p.base_address() != q.0 || p.size() != q.1 as u64 || p.code_file() != q.2) { note("unloaded modules".into()); } } Err(_) => { if !m.unl.is_empty() { note("unloaded list missing".into()); } } }
            let mem = d.get_memory(); let kind_ok = match (&mem, mem64, m.regions.is_empty() && m.nthreads == 0) { (Some(UnifiedMemoryList::Memory64(_)), true, _) => true, (Some(UnifiedMemoryList::Memory(_)), false, _) => true, (None, _, _) => m.regions.is_empty(), (Some(UnifiedMemoryList::Memory(_)), true, _) => m.regions.is_empty(), _ => false }; if !kind_ok { note("memory list kind".into()); }
            if let Some(ml) = &mem { for (a, bytes) in &m.regions { for (k, b) in bytes.iter().enumerate().step_by(if bytes.len() > 64 { 37 } else { 1 }) { match ml.memory_at_address(a + k as u64) { Some(r) => { if r.base_address() != *a || r.get_memory_at_address::<u8>(a + k as u64) != Some(*b) { note("memory byte".into()); } } None => note("memory_at_address none".into()) } }
                    if ml.memory_at_address(a + bytes.len() as u64).map(|r| r.base_address()) == Some(*a) { note("memory region too long".into()); } }
                let it: Vec<u64> = ml.iter().map(|r| r.base_address()).filter(|b| *b >= 0x9000_0000).collect(); if it != m.regions.iter().map(|r| r.0).collect::<Vec<_>>() { note("memory order".into()); } }
            match d.get_stream::<MinidumpMemoryInfoList>() { Ok(il) => { let v: Vec<_> = il.iter().collect(); if v.len() != m.infos.len() || v.iter().zip(&m.infos).any(|(p, q)| p.raw.base_address != q.0 || p.raw.region_size != q.1 || p.raw.protection != q.2) { note("memory info".into()); } } Err(_) => { if !m.infos.is_empty() { note("memory info missing".into()); } } }
            match (d.get_stream::<MinidumpMiscInfo>(), m.pid) { (Ok(mi), Some(p)) => { if mi.raw.process_id() != Some(&p) || mi.raw.process_create_time() != Some(&77) { note("misc info".into()); } } (Err(_), None) => {} _ => note("misc presence".into()) }
            match d.get_stream::<MinidumpCrashpadInfo>() { Ok(c) => { if c.simple_annotations.get("k\u{e9}").map(|s| s.as_str()) != Some("v\u{1F600}") || c.module_list.len() != 1 || c.module_list[0].list_annotations != vec!["la".to_string()] { note("crashpad".into()); } } Err(er) => note(format!("crashpad error {er}")) }
            let _ = d.get_stream::<MinidumpException>(); let _ = d.get_stream::<MinidumpLinuxMaps>();
            parsed.push(sig); } }
        if parsed.len() == 4 && !(parsed[0] == parsed[1] && parsed[2] == parsed[3] && parsed[0] == parsed[2]) { let en = problems.entry("LE/BE or MemoryList/Memory64List parse results differ".into()).or_insert((0, format!("mods={nmods} cvk={cvk}: {:?} vs {:?}", &parsed[0][..parsed[0].len().min(160)], &parsed[2][..parsed[2].len().min(160)]))); en.0 += 1; }
    } } } } } }
    println!("dumps={total} problem kinds={}", problems.len()); for (k, (n, ex)) in &problems { println!("  {n}x {k}\n     e.g. {ex}"); }
}
