// C08 probe: exhaustive small-domain check of range-table builders
use minidump::*;
use minidump_common::traits::IntoRangeMapSafe;
use range_map::Range;
use std::panic::{catch_unwind, AssertUnwindSafe};

fn rng(b: u64, s: u64) -> Option<Range<u64>> { if s == 0 { return None; } Some(Range::new(b, b.checked_add(s)? - 1)) }
fn main() {
    std::panic::set_hook(Box::new(|_| {}));
    let bases: Vec<u64> = (0..6).chain(u64::MAX - 3..=u64::MAX).collect();
    let sizes: Vec<u64> = vec![0, 1, 2, 3, 5, u64::MAX];
    let vals = [b'a', b'b'];
    let mut entries = vec![]; for &b in &bases { for &s in &sizes { for &v in &vals { entries.push((b, s, v)); } } }
    let domain: Vec<u64> = (0..10).chain(u64::MAX - 6..=u64::MAX).collect();
    let n = entries.len(); let mut total = 0u64; let mut bad = 0u64; let mut shown = 0;
    let mut report = |msg: String| { bad += 1; if shown < 10 { shown += 1; println!("  {msg}"); } };
    // generic trait, sequences of length <= 3
    for len in 1..=3usize { let mut idx = vec![0usize; len]; loop {
        let seq: Vec<(u64,u64,u8)> = idx.iter().map(|&i| entries[i]).collect(); total += 1;
        let input: Vec<(Option<Range<u64>>, (u8, usize))> = seq.iter().enumerate().map(|(i, &(b,s,v))| (rng(b,s), (v, if v==b'a' {0} else {i}))).collect();
        // value = (tag, id): 'a' entries are all equal-valued (id 0) -> merging; 'b' entries distinct
        let r = catch_unwind(AssertUnwindSafe(|| input.clone().into_rangemap_safe()));
        match r { Err(_) => report(format!("generic PANIC on {seq:?}")), Ok(map) => {
            let rv: Vec<_> = map.ranges_values().cloned().collect();
            for w in rv.windows(2) { if !(w[0].0.end < w[1].0.start) { report(format!("generic not sorted/disjoint {seq:?} -> {rv:?}")); } }
            for &a in &domain { if let Some(&(v, id)) = map.get(a) {
                // soundness: some input entry with that value whose own range contains a
                let ok = input.iter().any(|(r, val)| *val == (v,id) && r.map_or(false, |r| r.start <= a && a <= r.end));
                if !ok { report(format!("generic UNSOUND at {a:#x} {seq:?} -> {:?}", (v as char,id))); }
            } }
            // completeness for isolated entries
            for (i,(r,val)) in input.iter().enumerate() { if let Some(r) = r {
                let isolated = input.iter().enumerate().all(|(j,(q,_))| j==i || q.map_or(true, |q| q.end < r.start || r.end < q.start));
                if isolated { for &a in &domain { if r.start <= a && a <= r.end && map.get(a) != Some(val) { report(format!("generic INCOMPLETE at {a:#x} {seq:?}")); } } }
            } }
        } }
        let mut k = 0; loop { if k == len { break; } idx[k] += 1; if idx[k] < n { break; } idx[k] = 0; k += 1; } if k == len { break; }
    } }
    println!("generic IntoRangeMapSafe: sequences={total} problems={bad}");
    // module list (size is u32) and unloaded modules, len <= 3
    let mbases: Vec<u64> = (0..5).chain(u64::MAX - 3..=u64::MAX).collect(); let msizes: Vec<u32> = vec![0,1,2,4,u32::MAX];
    let mut ment = vec![]; for &b in &mbases { for &s in &msizes { ment.push((b,s)); } }
    let (mut mt, mut mb) = (0u64, 0u64);
    for len in 1..=3usize { let mut idx = vec![0usize; len]; loop {
        let seq: Vec<(u64,u32)> = idx.iter().map(|&i| ment[i]).collect(); mt += 1;
        let mods: Vec<MinidumpModule> = seq.iter().enumerate().map(|(i,&(b,s))| MinidumpModule::new(b,s,&format!("m{i}"))).collect();
        let r = catch_unwind(AssertUnwindSafe(|| MinidumpModuleList::from_modules(mods.clone())));
        match r { Err(_) => { mb += 1; if mb < 5 { println!("  modules PANIC {seq:?}"); } } Ok(list) => {
            let mut last_end: Option<u64> = None;
            for m in list.by_addr() { let b = m.base_address(); if let Some(e) = last_end { if b <= e { mb += 1; println!("  by_addr overlap {seq:?}"); } } last_end = Some(b + (m.size() - 1)); }
            for &a in &domain { if let Some(m) = list.module_at_address(a) { let b = m.base_address(); if !(b <= a && a - b < m.size()) { mb += 1; println!("  module UNSOUND {a:#x} {seq:?}"); } } }
            for (i,&(b,s)) in seq.iter().enumerate() { if s == 0 || b.checked_add(s as u64 - 1).is_none() || b.checked_add(s as u64).is_none() { continue; }
                let e = b + (s as u64 - 1);
                let isolated = seq.iter().enumerate().all(|(j,&(b2,s2))| j==i || s2==0 || b2.checked_add(s2 as u64).is_none() || { let e2 = b2 + (s2 as u64 -1); e2 < b || e < b2 });
                if isolated { for &a in &domain { if b <= a && a <= e { match list.module_at_address(a) { Some(m) if m.name == format!("m{i}") => {}, other => { mb += 1; if mb < 8 { println!("  module INCOMPLETE {a:#x} {seq:?} got {:?}", other.map(|m| m.name.clone())); } } } } } }
            }
        } }
        let unl: Vec<MinidumpUnloadedModule> = seq.iter().enumerate().map(|(i,&(b,s))| MinidumpUnloadedModule::new(b,s,&format!("u{i}"))).collect();
        match catch_unwind(AssertUnwindSafe(|| MinidumpUnloadedModuleList::from_modules(unl.clone()))) { Err(_) => { mb += 1; println!("  unloaded PANIC {seq:?}"); } Ok(list) => {
            for &a in &domain { let mut got: Vec<String> = list.modules_at_address(a).map(|m| m.name.clone()).collect(); got.sort();
                let mut exp: Vec<String> = seq.iter().enumerate().filter(|(_,&(b,s))| s != 0 && b.checked_add(s as u64).is_some() && b <= a && a - b < s as u64).map(|(i,_)| format!("u{i}")).collect(); exp.sort();
                if got != exp { mb += 1; if mb < 12 { println!("  unloaded MISMATCH {a:#x} {seq:?} got {got:?} exp {exp:?}"); } } }
        } }
        let mut k = 0; loop { if k == len { break; } idx[k] += 1; if idx[k] < ment.len() { break; } idx[k] = 0; k += 1; } if k == len { break; }
    } }
    println!("module/unloaded lists: sequences={mt} problems={mb}");
}
