// C11 probe: symbolication vs linear-scan reference on small non-overlapping symbol files
use breakpad_symbols::*;
#[derive(Default, Debug, Clone, PartialEq)]
struct Rec { func: Option<(String,u64,u32)>, src: Option<(String,u32,u64)>, inl: Vec<(String,Option<String>,Option<u32>)>, ip: u64 }
impl FrameSymbolizer for Rec {
    fn get_instruction(&self) -> u64 { self.ip }
    fn set_function(&mut self, n: &str, b: u64, p: u32) { self.func = Some((n.into(), b, p)); }
    fn set_source_file(&mut self, f: &str, l: u32, b: u64) { self.src = Some((f.into(), l, b)); }
    fn add_inline_frame(&mut self, n: &str, f: Option<&str>, l: Option<u32>) { self.inl.push((n.into(), f.map(Into::into), l)); }
}
#[derive(Clone, Debug)] struct F { a: u64, s: u64, lines: Vec<(u64,u64,u32)>, inl: Vec<(u32,u64,u64,u32,u32)> } // inl: depth, addr, size, call_line, origin
fn main() {
    let mut total = 0u64; let mut bad = 0u64; let mut files = 0u64;
    let fchoices: Vec<(u64,u64)> = (0..8).flat_map(|a| (0..4).map(move |s| (a as u64, s as u64))).collect();
    let line_menu = |f: (u64,u64)| -> Vec<Vec<(u64,u64,u32)>> { vec![vec![], vec![(f.0, 1, 10)], vec![(f.0, 0, 9), (f.0 + 1, 2, 11)], vec![(f.0, f.1.max(1), 12), (f.0, f.1.max(1), 12)]] };
    let inl_menu = |f: (u64,u64)| -> Vec<Vec<(u32,u64,u64,u32,u32)>> { vec![vec![], vec![(0, f.0, 1, 20, 1)], vec![(0, f.0, 2, 21, 1), (1, f.0 + 1, 1, 22, 2)], vec![(0, f.0 + 1, 1, 23, 7)]] };
    let pub_menu: Vec<Vec<u64>> = vec![vec![], vec![0], vec![3], vec![2, 6], vec![9], vec![5, 5]];
    for &f1 in &fchoices { for &f2 in &fchoices {
        // non-overlapping only (and distinct)
        let r1 = if f1.1 > 0 { Some((f1.0, f1.0 + f1.1 - 1)) } else { None }; let r2 = if f2.1 > 0 { Some((f2.0, f2.0 + f2.1 - 1)) } else { None };
        if let (Some(a), Some(b)) = (r1, r2) { if !(a.1 < b.0 || b.1 < a.0) { continue; } }
        for l1 in line_menu(f1) { for i1 in inl_menu(f1) { for pm in &pub_menu {
            let fs = vec![F { a: f1.0, s: f1.1, lines: l1.clone(), inl: i1.clone() }, F { a: f2.0, s: f2.1, lines: vec![], inl: vec![] }];
            let mut text = String::from("MODULE Linux x86 abcd m\nFILE 1 a.c\nINLINE_ORIGIN 1 in1\nINLINE_ORIGIN 2 in2\n");
            for (k, f) in fs.iter().enumerate() {
                text += &format!("FUNC {:x} {:x} {:x} f{}\n", f.a, f.s, k + 1, k);
                for i in &f.inl { text += &format!("INLINE {} {} 1 {} {:x} {:x}\n", i.0, i.3, i.4, i.1, i.2); }
                for l in &f.lines { text += &format!("{:x} {:x} {} 1\n", l.0, l.1, l.2); }
            }
            for (k, p) in pm.iter().enumerate() { text += &format!("PUBLIC {:x} {:x} p{}\n", p, k + 7, k); }
            let sf = match SymbolFile::from_bytes(text.as_bytes()) { Ok(s) => s, Err(e) => { println!("parse error {e} on\n{text}"); bad += 1; continue; } };
            files += 1;
            for base in [0u64, 0x1000, u64::MAX - 15] {
                let module = SimpleModule { base_address: Some(base), size: Some(16), ..Default::default() };
                for off in 0..12u64 { let ip = match base.checked_add(off) { Some(x) => x, None => continue };
                    let mut got = Rec { ip, ..Default::default() }; sf.fill_symbol(&module, &mut got); total += 1;
                    // reference
                    let mut exp = Rec { ip, ..Default::default() };
                    let cover: Vec<(usize,&F)> = fs.iter().enumerate().filter(|(_, f)| f.s > 0 && f.a <= off && off < f.a + f.s).collect();
                    if let Some(&(k, f)) = cover.first() {
                        exp.func = Some((format!("f{k}"), base + f.a, (k + 1) as u32));
                        // line covering (first-wins among conflicting; identical duplicates merge)
                        let mut ls: Vec<(u64,u64,u32)> = f.lines.iter().cloned().filter(|l| l.1 > 0).collect(); ls.sort();
                        let mut kept: Vec<(u64,u64,u32)> = vec![]; for l in ls { if let Some(last) = kept.last() { if l.0 <= last.0 + last.1 - 1 { continue; } } kept.push(l); }
                        let line = kept.iter().find(|l| l.0 <= off && off < l.0 + l.1).cloned();
                        let inl_at = |d: u32| f.inl.iter().filter(|i| i.0 == d && i.1 <= off && off < i.1 + i.2).max_by_key(|i| i.1).cloned();
                        // code picks the inlinee with greatest address <= off at that depth, then tests range
                        let cand = |d: u32| { let c = f.inl.iter().filter(|i| i.0 == d && i.1 <= off).max_by_key(|i| (i.1, i.2, i.3, i.4)).cloned(); c.filter(|i| off < i.1 + i.2) };
                        let _ = inl_at;
                        if let Some(i0) = cand(0) {
                            exp.src = Some(("a.c".into(), i0.3, base + i0.1));
                            let mut origin = i0.4; let mut d = 1;
                            loop { match cand(d) { Some(i) => { if let Some(n) = name(origin) { exp.inl.push((n, Some("a.c".into()), Some(i.3))); } origin = i.4; d += 1; } None => break } }
                            let (lf, ll) = match line { Some(l) => (Some("a.c".to_string()), if l.2 != 0 { Some(l.2) } else { None }), None => (None, None) };
                            if let Some(n) = name(origin) { exp.inl.push((n, lf, ll)); }
                        } else if let Some(l) = line { exp.src = Some(("a.c".into(), l.2, base + l.0)); }
                    } else {
                        // nearest public <= off, not cut off by a FUNC start in (pub, off] (equality carve-out skipped)
                        let mut ps: Vec<(u64,usize)> = pm.iter().cloned().enumerate().map(|(k,p)| (p,k)).collect(); ps.sort_by_key(|p| (p.0, format!("p{}", p.1)));
                        if let Some(&(pa, pk)) = ps.iter().rev().find(|p| p.0 <= off) {
                            let prev_func = fs.iter().filter(|f| f.s > 0 && f.a <= off).map(|f| f.a).max();
                            match prev_func { Some(fa) if pa == fa => { exp = got.clone(); } // carve-out: equality
                                Some(fa) if pa < fa => {}, _ => { exp.func = Some((format!("p{pk}"), base + pa, (pk + 7) as u32)); } }
                        }
                    }
                    if got != exp { bad += 1; if bad <= 8 { println!("MISMATCH base={base:#x} off={off}\n got={got:?}\n exp={exp:?}\n{text}"); } }
                    if let Some((_, b, _)) = &got.func { if *b > ip { bad += 1; println!("function base beyond ip"); } }
                    if let Some((_, _, b)) = &got.src { if *b > ip { bad += 1; println!("line base beyond ip"); } }
                } }
        } } }
    } }
    println!("files={files} lookups={total} problems={bad}");
}
fn name(o: u32) -> Option<String> { match o { 1 => Some("in1".into()), 2 => Some("in2".into()), _ => None } }
