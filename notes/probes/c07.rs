// C07 probe: STACK WIN (framedata programs + FPO) vs reference interpreter
use breakpad_symbols::*; use std::collections::BTreeMap; use std::panic::{catch_unwind, AssertUnwindSafe};
#[derive(Clone, Default, Debug, PartialEq)]
struct Mock { ip: u64, regs: BTreeMap<String,u64>, mem: BTreeMap<u64,u64>, set: BTreeMap<String,u64>, cleared: Vec<String>, gc: bool, gcp: u32 }
impl FrameWalker for Mock {
    fn get_instruction(&self) -> u64 { self.ip }
    fn has_grand_callee(&self) -> bool { self.gc }
    fn get_grand_callee_parameter_size(&self) -> u32 { self.gcp }
    fn get_register_at_address(&self, a: u64) -> Option<u64> { self.mem.get(&a).copied() }
    fn get_callee_register(&self, n: &str) -> Option<u64> { self.regs.get(n).copied() }
    fn set_caller_register(&mut self, n: &str, v: u64) -> Option<()> { self.set.insert(n.into(), v); Some(()) }
    fn clear_caller_register(&mut self, n: &str) { self.cleared.push(n.into()); }
    fn set_cfa(&mut self, _v: u64) -> Option<()> { unreachable!() }
    fn set_ra(&mut self, _v: u64) -> Option<()> { unreachable!() }
}
#[derive(Clone, Copy)] struct Sizes { params: u32, saved: u32, locals: u32 }
#[derive(Clone)] enum V<'a> { Var(&'a str), Int(u32), Undef }
fn ref_prog(prog: &str, sz: Sizes, m: &Mock) -> Option<BTreeMap<String,u64>> {
    let esp = *m.regs.get("esp")? as u32; let ebp = *m.regs.get("ebp")? as u32;
    let frame = sz.locals.checked_add(sz.saved)?.checked_add(m.gcp)?;
    let mut vars: BTreeMap<String,u32> = BTreeMap::new(); vars.insert("$esp".into(), esp); vars.insert("$ebp".into(), ebp);
    if let Some(b) = m.regs.get("ebx") { vars.insert("$ebx".into(), *b as u32); }
    let ss = if prog.contains('@') { ebp.checked_add(4)? } else { esp.checked_add(frame)? };
    vars.insert(".cbParams".into(), sz.params); vars.insert(".cbCalleeParams".into(), m.gcp); vars.insert(".cbSavedRegs".into(), sz.saved); vars.insert(".cbLocals".into(), sz.locals);
    vars.insert(".raSearch".into(), ss); vars.insert(".raSearchStart".into(), ss);
    let mut toks: Vec<&str> = vec![]; for t in prog.split_ascii_whitespace() { if t.starts_with('=') && t.len() > 1 { toks.push(&t[..1]); toks.push(&t[1..]); } else { toks.push(t); } }
    let mut st: Vec<V> = vec![];
    fn int(v: V, vars: &BTreeMap<String,u32>) -> Option<u32> { match v { V::Int(i) => Some(i), V::Var(n) => vars.get(n).copied(), V::Undef => None } }
    for t in toks { match t {
        "+"|"-"|"*"|"/"|"%"|"@" => { let r = int(st.pop()?, &vars)?; let l = int(st.pop()?, &vars)?; st.push(V::Int(match t { "+" => l.wrapping_add(r), "-" => l.wrapping_sub(r), "*" => l.wrapping_mul(r), "/" => { if r == 0 { return None } l / r }, "%" => { if r == 0 { return None } l % r }, _ => { if r == 0 || r & (r-1) != 0 { return None } l & !(r-1) } })); }
        "=" => { let r = st.pop()?; let l = match st.pop()? { V::Var(n) => n, _ => return None }; match r { V::Undef => { vars.remove(l); } other => { let v = int(other, &vars)?; vars.insert(l.into(), v); } } }
        "^" => { let p = int(st.pop()?, &vars)?; st.push(V::Int(*m.mem.get(&(p as u64))? as u32)); }
        ".undef" => st.push(V::Undef),
        _ => { if t.starts_with('$') || t.starts_with('.') { st.push(V::Var(t)); } else if let Ok(v) = t.parse::<i32>() { st.push(V::Int(v as u32)); } else { return None; } } } }
    let mut out = BTreeMap::new(); for r in ["$eip","$esp","$ebp","$ebx","$esi","$edi"] { if let Some(v) = vars.get(r) { out.insert(r[1..].to_string(), *v as u64); } }
    Some(out)
}
fn ref_fpo(alloc_bp: bool, sz: Sizes, m: &Mock) -> Option<BTreeMap<String,u64>> {
    let frame = sz.locals.checked_add(sz.saved)?.checked_add(m.gcp)? as u64; let esp = *m.regs.get("esp")?;
    let mut eip_addr = esp + frame; let mut eip = *m.mem.get(&eip_addr)?;
    if !m.gc && eip == *m.regs.get("eip")? { eip_addr += 4; eip = *m.mem.get(&eip_addr)?; }
    let mut out = BTreeMap::new();
    let ebp = if alloc_bp { let a = (esp + m.gcp as u64 + sz.saved as u64).checked_sub(8)?; *m.mem.get(&a)? } else { if let Some(b) = m.regs.get("ebx") { out.insert("ebx".to_string(), *b); } *m.regs.get("ebp")? };
    out.insert("eip".into(), eip); out.insert("esp".into(), eip_addr + 4); out.insert("ebp".into(), ebp); Some(out)
}
fn main() {
    std::panic::set_hook(Box::new(|_| {}));
    let module = SimpleModule { base_address: Some(0), size: Some(0x100), ..Default::default() };
    let mem: BTreeMap<u64,u64> = (0..64u64).map(|i| (0x1000 + 4*i, 0x4000_0000 + i)).chain([(0u64, 11u64), (4, 12), (8, 13), (0xffff_fffc, 14)]).collect();
    let mut mocks = vec![];
    for esp in [0x1000u64, 0x1004, 0, 4, 7, 0xffff_fffc] { for ebp in [Some(0x1010u64), None, Some(0xffff_fffe)] { for ebx in [Some(5u64), None] { for (gc, gcp) in [(false, 0u32), (true, 0), (true, 8), (true, u32::MAX)] { for eip in [0x4000_0002u64, 0x15] {
        let mut regs = BTreeMap::new(); regs.insert("esp".to_string(), esp); regs.insert("eip".to_string(), eip); if let Some(b) = ebp { regs.insert("ebp".into(), b); } if let Some(b) = ebx { regs.insert("ebx".into(), b); }
        mocks.push(Mock { ip: 0x15, regs, mem: mem.clone(), gc, gcp, ..Default::default() }); } } } } }
    let sizes = [Sizes{params:0,saved:0,locals:0}, Sizes{params:4,saved:8,locals:4}, Sizes{params:0,saved:u32::MAX,locals:1}, Sizes{params:8,saved:4,locals:u32::MAX}, Sizes{params:0,saved:1<<31,locals:1<<31}];
    let (mut total, mut bad, mut pan) = (0u64, 0u64, 0u64); let mut shown = 0; let mut panic_sites = std::collections::BTreeSet::new();
    let mut run = |line: String, expect: &dyn Fn(&Mock) -> Option<BTreeMap<String,u64>>, total: &mut u64, bad: &mut u64, pan: &mut u64, shown: &mut i32, mocks: &Vec<Mock>| {
        let text = format!("MODULE windows x86 abcd m\n{line}\n"); let sf = SymbolFile::from_bytes(text.as_bytes()).unwrap();
        for m0 in mocks { *total += 1; let mut m = m0.clone(); let r = catch_unwind(AssertUnwindSafe(|| sf.walk_frame(&module, &mut m))); let exp = expect(m0);
            match r { Err(_) => { *pan += 1; panic_sites.insert(line.split(' ').take(3).collect::<Vec<_>>().join(" ")); }
                Ok(res) => { let ok = match (&res, &exp) { (None, None) => true, (Some(()), Some(x)) => &m.set == x, _ => false }; if !ok { *bad += 1; if *shown < 10 { *shown += 1; println!("MISMATCH {line:?}\n regs={:?} gc={} gcp={}\n impl={res:?} {:?}\n ref ={exp:?}", m0.regs, m0.gc, m0.gcp, m.set); } } } } } };
    // FPO
    for sz in sizes { for ab in [false, true] { let line = format!("STACK WIN 0 10 20 0 0 {:x} {:x} {:x} 0 0 {}", sz.params, sz.saved, sz.locals, ab as u8); run(line, &|m| ref_fpo(ab, sz, m), &mut total, &mut bad, &mut pan, &mut shown, &mocks); } }
    println!("after FPO: evaluations={total} mismatches={bad} panics={pan}");
    // programs up to length 4
    let toks = ["+","-","*","/","%","@","^","=","$T0","$eip","$esp","$ebp","$ebx","$esi",".cbParams",".cbCalleeParams",".cbSavedRegs",".cbLocals",".raSearch",".raSearchStart",".undef","0","4","8","-1","=4","!!"];
    let small: Vec<Mock> = mocks.iter().cloned().filter(|m| m.gcp != u32::MAX).step_by(7).collect();
    for len in 1..=4usize { let mut idx = vec![0usize; len]; loop {
        let prog: String = idx.iter().map(|&i| toks[i]).collect::<Vec<_>>().join(" ");
        let has_div = prog.contains('/') || prog.contains('%');
        for sz in [sizes[1]] { let line = format!("STACK WIN 4 10 20 0 0 {:x} {:x} {:x} 0 1 {prog}", sz.params, sz.saved, sz.locals);
            if !(has_div && (prog.contains("-1"))) { run(line, &|m| ref_prog(&prog, sz, m), &mut total, &mut bad, &mut pan, &mut shown, &small); } }
        let mut k = 0; loop { if k == len { break; } idx[k] += 1; if idx[k] < toks.len() { break; } idx[k] = 0; k += 1; } if k == len { break; }
    } }
    // extreme sizes with a simple program
    for sz in sizes { let prog = "$eip .raSearch ^ = $esp .raSearch 4 + ="; let line = format!("STACK WIN 4 10 20 0 0 {:x} {:x} {:x} 0 1 {prog}", sz.params, sz.saved, sz.locals); run(line, &|m| ref_prog(prog, sz, m), &mut total, &mut bad, &mut pan, &mut shown, &mocks); }
    println!("evaluations={total} mismatches={bad} panics={pan} panic line classes={panic_sites:?}");
}
