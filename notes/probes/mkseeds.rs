// builds synthetic seed dumps that contain the stream types the corpus lacks
use minidump_synth as synth; use minidump_synth::DumpSection; use test_assembler::*; use minidump_common::format as md; use scroll::{Pread, Pwrite};
fn ctx_bytes<T>(flags_off: usize, flags: u64, wide: bool) -> Vec<u8> where T: for<'a> scroll::ctx::TryFromCtx<'a, scroll::Endian, [u8], Error = scroll::Error> + scroll::ctx::SizeWith<scroll::Endian> {
    let n = T::size_with(&scroll::LE); let mut b = vec![0u8; n]; if wide { b.pwrite_with(flags, flags_off, scroll::LE).unwrap(); } else { b.pwrite_with(flags as u32, flags_off, scroll::LE).unwrap(); } let _: T = b.pread_with(0, scroll::LE).unwrap(); b }
fn main() {
    let out = std::env::args().nth(1).unwrap(); std::fs::create_dir_all(&out).unwrap(); let e = Endian::Little;
    // 1: handles v2 with object-info chain + thread info list + misc5 + breakpad + assertion
    { let mut d = synth::SynthMinidump::with_endian(e);
      d = d.add_system_info(synth::SystemInfo::new(e).set_processor_architecture(md::ProcessorArchitecture::PROCESSOR_ARCHITECTURE_AMD64 as u16).set_platform_id(md::PlatformId::VER_PLATFORM_WIN32_NT as u32));
      let oi2 = Section::with_endian(e).D32(0).D32(2).D32(16).D32(0xaaaa); let oi1 = Section::with_endian(e).D32(&oi2.file_offset()).D32(1).D32(16).D32(0xbbbb);
      let tn = synth::DumpString::new("File", e); let on = synth::DumpString::new("\\Device\\x", e);
      let hs = Section::with_endian(e).D32(16).D32(40).D32(2).D32(0)
          .D64(0x44).D32(&tn.file_offset()).D32(&on.file_offset()).D32(1).D32(2).D32(3).D32(4).D32(&oi1.file_offset()).D32(0)
          .D64(0x48).D32(0).D32(0).D32(0).D32(0).D32(0).D32(0).D32(0).D32(0);
      d = d.add_stream(synth::SimpleStream { stream_type: md::MINIDUMP_STREAM_TYPE::HandleDataStream as u32, section: hs }).add(tn).add(on).add(oi1).add(oi2);
      let mut ti = Section::with_endian(e).D32(12).D32(64).D32(2); for t in 0..2u32 { ti = ti.D32(10 + t).D32(0).D32(0).D32(0).D64(1).D64(2).D64(3).D64(4).D64(5).D64(6); }
      d = d.add_stream(synth::SimpleStream { stream_type: md::MINIDUMP_STREAM_TYPE::ThreadInfoListStream as u32, section: ti });
      d = d.add_stream(synth::SimpleStream { stream_type: md::MINIDUMP_STREAM_TYPE::BreakpadInfoStream as u32, section: Section::with_endian(e).D32(3).D32(10).D32(11) });
      let mut asrt = Section::with_endian(e); for _ in 0..(128 * 3) { asrt = asrt.D16(0x41); } asrt = asrt.D32(7).D32(1);
      d = d.add_stream(synth::SimpleStream { stream_type: md::MINIDUMP_STREAM_TYPE::AssertionInfoStream as u32, section: asrt });
      let mut misc = synth::MiscStream::new(e); misc.process_id = Some(42); misc.process_times = Some(Default::default()); misc.power_info = Some(Default::default()); misc.process_integrity_level = Some(1); misc.time_zone = Some(Default::default()); misc.build_strings = Some(Default::default()); misc.misc_5 = Some(synth::MiscInfo5Fields { xstate_data: Default::default(), process_cookie: Some(9) });
      d = d.add_stream(misc);
      let mut ex = synth::Exception::new(e); ex.thread_id = 10; ex.exception_record.exception_code = 0xC0000005; ex.exception_record.number_parameters = 2; ex.exception_record.exception_information[1] = 0x1234; d = d.add_exception(ex);
      for t in 0..2u32 { let stack = synth::Memory::with_section(Section::with_endian(e).append_repeated(0, 64), 0x7000_0000 + 0x1000 * t as u64); let ctx = synth::amd64_context(e, 0x4000_1000, 0x7000_0000 + 0x1000 * t as u64); d = d.add_thread(synth::Thread::new(e, 10 + t, &stack, &ctx)).add(stack).add(ctx);
          let n = synth::DumpString::new("thr", e); d = d.add_thread_name(synth::ThreadName::new(e, 10 + t, Some(&n))).add(n); }
      let um = synth::DumpString::new("gone.dll", e); d = d.add_unloaded_module(synth::UnloadedModule::new(e, 0x5000_0000, 0x1000, &um, 1, 2)).add(um);
      d = d.add_memory_info(synth::MemoryInfo::new(e, 0x10000, 0x10000, 4, 0x1000, 0x1000, 4, 0x20000));
      std::fs::write(format!("{out}/seed_handles.dmp"), d.finish().unwrap()).unwrap(); }
    // 2: crashpad with module links / annotations, memory64, linux text streams
    { let mut d = synth::SynthMinidump::with_endian(e);
      d = d.add_system_info(synth::SystemInfo::new(e).set_processor_architecture(md::ProcessorArchitecture::PROCESSOR_ARCHITECTURE_INTEL as u16).set_platform_id(md::PlatformId::Linux as u32));
      let m1 = synth::ModuleCrashpadInfo::new(0, e).add_list_annotation("one").add_list_annotation("two").add_simple_annotation("k", "v").add_annotation_object("obj", synth::AnnotationValue::String("s".into())).add_annotation_object("inv", synth::AnnotationValue::Invalid);
      let m2 = synth::ModuleCrashpadInfo::new(1, e).add_list_annotation("three");
      d = d.add_crashpad_info(synth::CrashpadInfo::new(e).add_simple_annotation("a", "b").add_module(m1).add_module(m2));
      d = d.add_memory64(synth::Memory::with_section(Section::with_endian(e).append_repeated(1, 32), 0x1000)).add_memory64(synth::Memory::with_section(Section::with_endian(e).append_repeated(2, 16), 0x2000));
      d = d.set_linux_maps(b"00400000-00401000 r-xp 00000000 00:00 0 /bin/x\n00401000-00402000 rw-p 00000000 00:00 0 [heap]\n").set_linux_lsb_release(b"DISTRIB_ID=x\n").set_linux_proc_status(b"Pid:\t5\n").set_linux_cpu_info(b"microcode : 0x1\n").set_linux_environ(b"A=B\0").set_linux_proc_limits(b"Limit Soft Hard Units\nMax cpu time  1  2  s\n").set_soft_errors("[]");
      let stack = synth::Memory::with_section(Section::with_endian(e).append_repeated(0, 64), 0x7000_0000); let ctx = synth::x86_context(e, 0x400010, 0x7000_0000); d = d.add_thread(synth::Thread::new(e, 5, &stack, &ctx)).add(stack).add(ctx);
      let name = synth::DumpString::new("/bin/x", e); let cv = Section::with_endian(e).D32(md::CvSignature::Elf as u32).append_bytes(&[1,2,3,4,5,6,7,8,9,10,11,12,13,14,15,16,17,18,19,20]); d = d.add_module(synth::Module::new(e, 0x400000, 0x1000, &name, 0, 0, None).cv_record(&cv)).add(name).add(cv);
      std::fs::write(format!("{out}/seed_crashpad_linux.dmp"), d.finish().unwrap()).unwrap(); }
    // 3..: one thread + exception context for every exotic CPU
    for (nm, arch, bytes) in [("ppc", md::ProcessorArchitecture::PROCESSOR_ARCHITECTURE_PPC, ctx_bytes::<md::CONTEXT_PPC>(0, 0x2000_0000, false)), ("ppc64", md::ProcessorArchitecture::PROCESSOR_ARCHITECTURE_PPC64, ctx_bytes::<md::CONTEXT_PPC64>(0, 0x0100_0000, true)),
        ("sparc", md::ProcessorArchitecture::PROCESSOR_ARCHITECTURE_SPARC, ctx_bytes::<md::CONTEXT_SPARC>(0, 0x1000_0000, false)), ("mips", md::ProcessorArchitecture::PROCESSOR_ARCHITECTURE_MIPS, ctx_bytes::<md::CONTEXT_MIPS>(0, 0x0004_0000, false)),
        ("arm", md::ProcessorArchitecture::PROCESSOR_ARCHITECTURE_ARM, ctx_bytes::<md::CONTEXT_ARM>(0, 0x4000_0000, false)), ("arm64old", md::ProcessorArchitecture::PROCESSOR_ARCHITECTURE_ARM64_OLD, ctx_bytes::<md::CONTEXT_ARM64_OLD>(0, 0x8000_0000, true))] {
      let mut d = synth::SynthMinidump::with_endian(e); d = d.add_system_info(synth::SystemInfo::new(e).set_processor_architecture(arch as u16).set_platform_id(md::PlatformId::Linux as u32));
      let stack = synth::Memory::with_section(Section::with_endian(e).append_repeated(0, 64), 0x7000_0000); let ctx = Section::with_endian(e).append_bytes(&bytes);
      d = d.add_thread(synth::Thread::new(e, 5, &stack, &ctx)).add(stack).add(ctx);
      std::fs::write(format!("{out}/seed_{nm}.dmp"), d.finish().unwrap()).unwrap(); }
}
