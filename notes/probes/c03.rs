// C03 probe: one-deviation word mutation sweep, full processing + all renderers
use minidump::*; use minidump_processor::*; use minidump_unwind::*;
use std::io::Write; use std::panic::{catch_unwind, AssertUnwindSafe}; use std::sync::{Arc, Mutex};
fn main() {
    let args: Vec<String> = std::env::args().collect(); let path = &args[1]; let symdir = args.get(2).cloned(); let start: usize = args.get(3).map(|s| s.parse().unwrap()).unwrap_or(0); let stride: usize = args.get(4).map(|s| s.parse().unwrap()).unwrap_or(1);
    let seed = std::fs::read(path).unwrap(); let len = seed.len() as u64;
    let rt = tokio::runtime::Builder::new_current_thread().build().unwrap();
    let sites = Arc::new(Mutex::new(std::collections::BTreeMap::<String,(u64,String)>::new())); let s2 = sites.clone();
    let cur = Arc::new(Mutex::new(String::new())); let cur2 = cur.clone();
    std::panic::set_hook(Box::new(move |i| { let loc = i.location().map(|l| format!("{}:{}", l.file(), l.line())).unwrap_or_default(); let msg = i.payload().downcast_ref::<String>().cloned().or(i.payload().downcast_ref::<&str>().map(|s| s.to_string())).unwrap_or_default();
        let mut s = s2.lock().unwrap(); let e = s.entry(format!("{loc} :: {}", msg.chars().take(70).collect::<String>())).or_insert((0, cur2.lock().unwrap().clone())); e.0 += 1; }));
    let progress = Arc::new(std::sync::atomic::AtomicU64::new(0)); let p2 = progress.clone(); let cur3 = cur.clone();
    std::thread::spawn(move || { let mut last = u64::MAX; let mut same = 0; loop { std::thread::sleep(std::time::Duration::from_millis(500)); let p = p2.load(std::sync::atomic::Ordering::SeqCst); if p == last { same += 1; if same >= 10 { println!("HANG case={}", cur3.lock().unwrap()); std::io::stdout().flush().unwrap(); std::process::exit(3); } } else { same = 0; last = p; } } });
    let provider = Symbolizer::new(simple_symbol_supplier(symdir.into_iter().map(Into::into).collect()));
    let words = seed.len() / 4; let mut idx = 0usize; let (mut total, mut okc, mut errc) = (0u64, 0u64, 0u64);
    for w in (0..words).step_by(stride) { let off = w * 4; let vals: Vec<u64> = vec![0, 1, 7, 8, len - 1, len, len + 1, 1 << 31, u32::MAX as u64, off as u64, 0xffff, 0x1000];
        for v in vals { for width in [4usize, 8] { if off + width > seed.len() { continue; } idx += 1; if idx <= start { continue; }
            let mut b = seed.clone(); b[off..off + width].copy_from_slice(&v.to_le_bytes()[..width]);
            *cur.lock().unwrap() = format!("idx={idx} off={off:#x} width={width} val={v:#x}"); progress.fetch_add(1, std::sync::atomic::Ordering::SeqCst); total += 1;
            let r = catch_unwind(AssertUnwindSafe(|| { let dump = match Minidump::read(&b[..]) { Ok(d) => d, Err(_) => return false };
                let mut o = ProcessorOptions::unstable_all(); o.recover_function_args = true;
                match rt.block_on(process_minidump_with_options(&dump, &provider, o)) { Ok(st) => { let mut sink = std::io::sink(); st.print(&mut sink).unwrap(); st.print_brief(&mut sink).unwrap(); st.print_json(&mut sink, false).unwrap(); st.print_json(&mut sink, true).unwrap(); true } Err(_) => false } }));
            match r { Ok(true) => okc += 1, Ok(false) => errc += 1, Err(_) => {} }
        } } }
    println!("seed={path} len={len} cases={total} processed_ok={okc} errors={errc} distinct panic sites={}", sites.lock().unwrap().len());
    for (k, v) in sites.lock().unwrap().iter() { println!("  {}x {k}   e.g. {}", v.0, v.1); }
}
