use breakpad_symbols::SymbolFile; use std::panic::catch_unwind;
fn main() {
    std::panic::set_hook(Box::new(|i| eprintln!("PANIC {i}")));
    let t0 = std::time::Instant::now(); let (mut ok, mut err, mut pan) = (0u64, 0u64, 0u64);
    let prefix = b"MODULE Linux x86 abcd m\n";
    for n in 0u32..(1 << 24) { let b = [(n >> 16) as u8, (n >> 8) as u8, n as u8];
        for with_prefix in [false, true] { let mut v = if with_prefix { prefix.to_vec() } else { vec![] }; v.extend_from_slice(&b);
            match catch_unwind(|| SymbolFile::from_bytes(&v)) { Ok(Ok(_)) => ok += 1, Ok(Err(_)) => err += 1, Err(_) => { pan += 1; if pan < 5 { eprintln!("input {v:?}"); } } } } }
    println!("3-byte strings x2: ok={ok} err={err} panics={pan} in {:?}", t0.elapsed());
    // record-kind sequences
    let kinds: Vec<&[u8]> = vec![b"MODULE Linux x86 abcd m\n", b"INFO x\n", b"INFO URL http://x\n", b"FILE 1 a.c\n", b"INLINE_ORIGIN 1 f\n", b"PUBLIC 10 0 p\n", b"PUBLIC m 10 0 p\n", b"FUNC 10 5 0 f\n", b"FUNC m 10 5 0 f\n", b"10 2 7 1\n", b"INLINE 0 3 1 1 10 2\n", b"INLINE 1 3 1 1 10 1 12 1\n",
        b"STACK WIN 4 10 5 0 0 0 0 0 0 1 $eip 4 + ^ =\n", b"STACK WIN 0 10 5 0 0 0 0 0 0 0 1\n", b"STACK WIN 4 10 5 0 0 0 0 0 0 0 1\n", b"STACK WIN 3 10 5 0 0 0 0 0 0 0 1\n", b"STACK CFI INIT 10 5 .cfa: $esp 4 + .ra: .cfa 4 - ^\n", b"STACK CFI 12 .cfa: $esp 8 +\n", b"\n", b"\r\n", b"junk\n", b"FUNC 10 5 0 f", b"FUNC ffffffffffffffff ffffffff 0 f\n", b"ffffffffffffffff ffffffff 7 1\n", b"FUNC 10 0 0 f\n", b"STACK CFI INIT ffffffffffffffff 2 .cfa: 1\n", b"STACK WIN 4 ffffffffffffffff 2 0 0 0 0 0 0 1 x\n", b"FILE 99999999999 a\n", b"FUNC 100000000000000000 5 0 f\n", b"PUBLIC 10 0 \xff\xfe\n"];
    let (mut ok, mut err, mut pan, mut tot) = (0u64, 0u64, 0u64, 0u64);
    let k = kinds.len();
    for a in 0..k { for b in 0..k { for c in 0..k { for d in 0..k {
        let mut v = vec![]; for i in [a,b,c,d] { v.extend_from_slice(kinds[i]); } tot += 1;
        match catch_unwind(|| SymbolFile::from_bytes(&v)) { Ok(Ok(_)) => ok += 1, Ok(Err(_)) => err += 1, Err(_) => { pan += 1; if pan < 5 { eprintln!("input {:?}", String::from_utf8_lossy(&v)); } } }
    } } } }
    println!("record-kind sequences len 4 over {k} kinds: total={tot} ok={ok} err={err} panics={pan} in {:?}", t0.elapsed());
}
