use minidump::*; use minidump::format::*; use minidump::system_info::{Cpu,Os}; use minidump_unwind::*; use std::collections::HashMap;
fn main() {
    let rt = tokio::runtime::Builder::new_current_thread().build().unwrap();
    let base = u64::MAX - 63; let mut stack = vec![0u8; 63];
    let mut ctx = CONTEXT_AMD64::default(); ctx.rip = 0x40001000; ctx.rsp = base; ctx.rbp = u64::MAX - 17;
    // [rbp] = 1 (caller_bp small), [rbp+8] = whatever
    let off = (ctx.rbp - base) as usize; stack[off..off+8].copy_from_slice(&1u64.to_le_bytes());
    let r = std::panic::catch_unwind(|| rt.block_on(async {
        let mem = MinidumpMemory { desc: Default::default(), base_address: base, size: stack.len() as u64, bytes: &stack, endian: scroll::LE };
        let mut cs = CallStack::with_context(MinidumpContext { raw: MinidumpRawContext::Amd64(ctx.clone()), valid: MinidumpContextValidity::All });
        let ml = MinidumpModuleList::from_modules(vec![MinidumpModule::new(0x40000000, 0x10000, "m1")]);
        let si = SystemInfo { os: Os::Windows, os_version: None, os_build: None, cpu: Cpu::X86_64, cpu_info: None, cpu_microcode_version: None, cpu_count: 1 };
        let sym = Symbolizer::new(string_symbol_supplier(HashMap::new()));
        walk_stack(0, (), &mut cs, Some(UnifiedMemory::Memory(&mem)), &ml, &si, &sym).await; cs.frames.len()
    }));
    println!("amd64/windows fp at top of address space: {:?}", r.map_err(|_| "PANIC"));
}
