// C05 probe: exhaustive small stacks x contexts x symbol menus -> frame-chain invariants
use minidump::*; use minidump::format::*; use minidump::system_info::{Cpu, Os}; use minidump_unwind::*; use std::collections::HashMap;
#[derive(Clone, Copy, PartialEq, Debug)] enum A { X86, Amd64, Amd64Win, Arm, ArmIos, Arm64, Arm64Old, Mips32, Mips64 }
fn ptr(a: A) -> u64 { match a { A::X86 | A::Arm | A::ArmIos | A::Mips32 => 4, _ => 8 } }
fn adj(a: A) -> u64 { match a { A::X86 | A::Amd64 | A::Amd64Win => 1, A::Arm | A::ArmIos => 2, A::Arm64 | A::Arm64Old => 4, _ => 8 } }
fn names(a: A) -> (&'static str, &'static str, &'static str, Option<&'static str>) { match a { A::X86 => ("eip","esp","ebp",None), A::Amd64 | A::Amd64Win => ("rip","rsp","rbp",None), A::Arm | A::ArmIos => ("pc","sp","fp",Some("lr")), A::Arm64 | A::Arm64Old => ("pc","sp","fp",Some("lr")), _ => ("pc","sp","fp",Some("ra")) } }
fn mkctx(a: A, regs: &[(&str, u64)]) -> MinidumpRawContext {
    macro_rules! fill { ($c:expr, $t:ty) => {{ let mut c = $c; for (n, v) in regs { c.set_register(n, *v as $t).unwrap(); } c }} }
    match a { A::X86 => MinidumpRawContext::X86(fill!(CONTEXT_X86::default(), u32)), A::Amd64 | A::Amd64Win => MinidumpRawContext::Amd64(fill!(CONTEXT_AMD64::default(), u64)),
        A::Arm | A::ArmIos => MinidumpRawContext::Arm(fill!(CONTEXT_ARM::default(), u32)), A::Arm64 => MinidumpRawContext::Arm64(fill!(CONTEXT_ARM64::default(), u64)), A::Arm64Old => MinidumpRawContext::OldArm64(fill!(CONTEXT_ARM64_OLD::default(), u64)),
        A::Mips32 => { let mut c = CONTEXT_MIPS::default(); c.context_flags = 0x0004_0007; MinidumpRawContext::Mips(fill!(c, u64)) }, _ => { let mut c = CONTEXT_MIPS::default(); c.context_flags = 0x0008_0007; MinidumpRawContext::Mips(fill!(c, u64)) } } }
fn main() {
    let sites = std::sync::Arc::new(std::sync::Mutex::new(std::collections::BTreeMap::<String, u64>::new())); let s2 = sites.clone();
    std::panic::set_hook(Box::new(move |i| { let loc = i.location().map(|l| format!("{}:{}", l.file(), l.line())).unwrap_or_default(); *s2.lock().unwrap().entry(loc).or_insert(0) += 1; }));
    let rt = tokio::runtime::Builder::new_current_thread().build().unwrap();
    let archs = [A::X86, A::Amd64, A::Amd64Win, A::Arm, A::ArmIos, A::Arm64, A::Arm64Old, A::Mips32, A::Mips64];
    const N: usize = 5; let mut total = 0u64; let mut viol: std::collections::BTreeMap<String,(u64,String)> = Default::default(); let mut maxframes = 0usize;
    for &a in &archs { let p = ptr(a); let is32 = p == 4; let top: u64 = if is32 { u32::MAX as u64 } else { u64::MAX };
      for base_kind in 0..2 { let size = N as u64 * p; let base: u64 = if base_kind == 0 { 0x6000_0000 } else { top - size }; // second: stack ends at top-1 (base+size = top)
        let modb: u64 = 0x4000_0000; let in_func = modb + 0x1010; let in_mod_nofunc = modb + 0x8000;
        let alphabet: Vec<u64> = vec![0, 4095, in_func, in_mod_nofunc, base, base + p, base + 2 * p, base + size, top];
        let sym_menu: Vec<Option<String>> = vec![None,
            Some("MODULE Linux x 000000000000000000000000000000000 m\nFUNC 1000 100 0 f\n".into()),
            Some(format!("MODULE Linux x 000000000000000000000000000000000 m\nFUNC 1000 100 0 f\nSTACK CFI INIT 1000 100 .cfa: {sp} {p} + .ra: .cfa {p} - ^\n", sp = if matches!(a, A::X86) { "$esp" } else if matches!(a, A::Amd64 | A::Amd64Win) { "$rsp" } else { "sp" })),
            Some(format!("MODULE Linux x 000000000000000000000000000000000 m\nFUNC 1000 100 0 f\nSTACK CFI INIT 1000 100 .cfa: {sp} .ra: {v}\n", sp = if matches!(a, A::X86) { "$esp" } else if matches!(a, A::Amd64 | A::Amd64Win) { "$rsp" } else { "sp" }, v = in_func)),
            Some(format!("MODULE Linux x 000000000000000000000000000000000 m\nFUNC 1000 100 0 f\nSTACK CFI INIT 1000 100 .cfa: {sp} {p} - .ra: {v}\n", sp = if matches!(a, A::X86) { "$esp" } else if matches!(a, A::Amd64 | A::Amd64Win) { "$rsp" } else { "sp" }, v = in_func))];
        let ctx_menu: Vec<(u64,u64,u64)> = vec![(in_func, base, base + p), (in_func, base, 0), (in_func, base + size - p, base), (in_func, 0, top), (in_mod_nofunc, base, top - 2 * p), (in_func, base + p, base + 2 * p)];
        for sym in &sym_menu { let mut syms = HashMap::new(); if let Some(s) = sym { syms.insert("m".to_string(), s.clone()); }
          let symbolizer = Symbolizer::new(string_symbol_supplier(syms));
          let ml = MinidumpModuleList::from_modules(vec![MinidumpModule::new(modb, 0x10000, "m")]);
          let (os, cpu) = match a { A::X86 => (Os::Linux, Cpu::X86), A::Amd64 => (Os::Linux, Cpu::X86_64), A::Amd64Win => (Os::Windows, Cpu::X86_64), A::Arm => (Os::Linux, Cpu::Arm), A::ArmIos => (Os::Ios, Cpu::Arm), A::Arm64 | A::Arm64Old => (Os::MacOs, Cpu::Arm64), A::Mips32 => (Os::Linux, Cpu::Mips), A::Mips64 => (Os::Linux, Cpu::Mips64) };
          let si = SystemInfo { os, os_version: None, os_build: None, cpu, cpu_info: None, cpu_microcode_version: None, cpu_count: 1 };
          for &(ip, sp, fp) in &ctx_menu { let k = alphabet.len(); for code in 0..k.pow(N as u32) {
            let words: Vec<u64> = (0..N).map(|i| alphabet[(code / k.pow(i as u32)) % k]).collect();
            let mut bytes = vec![]; for w in &words { if is32 { bytes.extend_from_slice(&(*w as u32).to_le_bytes()) } else { bytes.extend_from_slice(&w.to_le_bytes()) } }
            let (ipn, spn, fpn, lrn) = names(a); let mut regs = vec![(ipn, ip), (spn, sp), (fpn, fp)]; if let Some(l) = lrn { regs.push((l, in_func)); }
            let ctx = MinidumpContext { raw: mkctx(a, &regs), valid: MinidumpContextValidity::All };
            let mem = MinidumpMemory { desc: Default::default(), base_address: base, size: bytes.len() as u64, bytes: &bytes, endian: scroll::LE };
            let mut cs = CallStack::with_context(ctx); total += 1; let budget = bytes.len() + 2;
            let r = std::panic::catch_unwind(std::panic::AssertUnwindSafe(|| { rt.block_on(walk_stack(0, |i: usize, _: &StackFrame| { if i > budget { panic!("frame budget") } }, &mut cs, Some(UnifiedMemory::Memory(&mem)), &ml, &si, &symbolizer)); cs }));
            let desc = || format!("{a:?} base={base:#x} sym#{} ctx=({ip:#x},{sp:#x},{fp:#x}) words={words:x?}", sym_menu.iter().position(|s| s == sym).unwrap());
            let cs = match r { Ok(c) => c, Err(_) => { let e = viol.entry(format!("{a:?}: PANIC / budget")).or_insert((0, desc())); e.0 += 1; continue; } };
            maxframes = maxframes.max(cs.frames.len());
            let mut bad = |k: &str| { let e = viol.entry(format!("{a:?}: {k}")).or_insert((0, desc())); e.0 += 1; };
            let f0 = &cs.frames[0]; let ipmask = if is32 && !matches!(a, A::Mips32) { ip & 0xffff_ffff } else { ip };
            if f0.trust != FrameTrust::Context || f0.instruction != ipmask || f0.resume_address != ipmask { bad("frame0"); }
            for j in 1..cs.frames.len() { let f = &cs.frames[j]; let prev = &cs.frames[j - 1];
                if f.resume_address < 4096 { bad("resume < 4096"); }
                if f.instruction != f.resume_address - adj(a) { bad("instruction adjust"); }
                if !matches!(f.trust, FrameTrust::CallFrameInfo | FrameTrust::FramePointer | FrameTrust::Scan) { bad("trust"); }
                let (s1, s0) = (f.context.get_stack_pointer(), prev.context.get_stack_pointer());
                let leaf_ok = j == 1 && matches!(a, A::Arm | A::ArmIos | A::Arm64 | A::Arm64Old | A::Mips32 | A::Mips64) && s1 == s0;
                if !(s1 > s0 || leaf_ok) { bad("sp not increasing"); }
                if f.trust == FrameTrust::Scan { let slot = s1.wrapping_sub(p); let w: Option<u64> = if is32 { mem.get_memory_at_address::<u32>(slot).map(|x| x as u64) } else { mem.get_memory_at_address::<u64>(slot) }; if w != Some(f.resume_address) { bad("scan frame return address not below sp"); } }
                if let Some(m) = &f.module { if !(m.base_address() <= f.instruction && f.instruction - m.base_address() < m.size()) { bad("module does not cover"); } }
                if let Some(b) = f.function_base { if b > f.instruction { bad("function base beyond"); } }
            }
          } } } } }
    println!("walks={total} max_frames={maxframes} violation kinds={}", viol.len());
    for (k, (n, ex)) in &viol { println!("  {n}x {k}\n     e.g. {ex}"); }
    println!("panic sites: {:?}", sites.lock().unwrap());
}
