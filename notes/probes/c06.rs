// C06 probe: STACK CFI evaluation vs an independent reference interpreter (documented semantics)
use breakpad_symbols::*; use std::collections::BTreeMap; use std::panic::{catch_unwind, AssertUnwindSafe};
#[derive(Clone, Default, Debug, PartialEq)]
struct Mock { ip: u64, regs: BTreeMap<String,u64>, mem: BTreeMap<u64,u64>, set: BTreeMap<String,u64>, cleared: Vec<String>, cfa: Option<u64>, ra: Option<u64> }
impl FrameWalker for Mock {
    fn get_instruction(&self) -> u64 { self.ip }
    fn has_grand_callee(&self) -> bool { false }
    fn get_grand_callee_parameter_size(&self) -> u32 { 0 }
    fn get_register_at_address(&self, a: u64) -> Option<u64> { self.mem.get(&a).copied() }
    fn get_callee_register(&self, n: &str) -> Option<u64> { self.regs.get(n).copied() }
    fn set_caller_register(&mut self, n: &str, v: u64) -> Option<()> { if n == "a" || n == "b" || n == "c" { self.set.insert(n.into(), v); Some(()) } else { None } }
    fn clear_caller_register(&mut self, n: &str) { self.cleared.push(n.into()); self.set.remove(n); }
    fn set_cfa(&mut self, v: u64) -> Option<()> { self.cfa = Some(v); Some(()) }
    fn set_ra(&mut self, v: u64) -> Option<()> { self.ra = Some(v); Some(()) }
}
// ---- reference
fn eval(expr: &[&str], m: &Mock, cfa: Option<u64>) -> Option<u64> {
    let mut st: Vec<u64> = vec![];
    for &t in expr { match t {
        "+" | "-" | "*" | "/" | "%" | "@" => { let r = st.pop()?; let l = st.pop()?; st.push(match t { "+" => l.wrapping_add(r), "-" => l.wrapping_sub(r), "*" => l.wrapping_mul(r),
            "/" => { if r == 0 { return None } l / r }, "%" => { if r == 0 { return None } l % r }, _ => { if r == 0 || r & (r - 1) != 0 { return None } l & !(r - 1) } }); }
        "^" => { let p = st.pop()?; st.push(*m.mem.get(&p)?); }
        ".cfa" => st.push(cfa?), ".undef" => return None,
        _ => { if let Some(r) = t.strip_prefix('$') { st.push(*m.regs.get(r)?); } else if let Ok(v) = t.parse::<i64>() { st.push(v as u64); } else { st.push(*m.regs.get(t)?); } } } }
    if st.len() == 1 { st.pop() } else { None }
}
fn reference(lines: &[&str], m: &Mock) -> Option<Mock> {
    // lines: applicable rule strings in order. grammar: (REG: EXPR)+ ; later overrides
    let mut rules: BTreeMap<String, Vec<&str>> = BTreeMap::new();
    for line in lines { let toks: Vec<&str> = line.split_ascii_whitespace().collect(); let mut cur: Option<String> = None; let mut ex: Vec<&str> = vec![];
        for t in toks { if let Some(r) = t.strip_suffix(':') { if let Some(c) = cur.take() { if ex.is_empty() { return None; } rules.insert(c, std::mem::take(&mut ex)); }
                cur = Some(if r == ".cfa" || r == ".ra" { r.to_string() } else { r.strip_prefix('$').unwrap_or(r).to_string() }); } else { cur.as_ref()?; ex.push(t); } }
        let c = cur?; if ex.is_empty() { return None; } rules.insert(c, ex); }
    let cfa = eval(rules.get(".cfa")?, m, None)?; let ra = eval(rules.get(".ra")?, m, Some(cfa))?;
    let mut out = m.clone(); out.cfa = Some(cfa); out.ra = Some(ra);
    for (r, e) in &rules { if r == ".cfa" || r == ".ra" { continue; } match eval(e, m, Some(cfa)) { Some(v) => { if r == "a" || r == "b" || r == "c" { out.set.insert(r.clone(), v); } } None => { out.set.remove(r); out.cleared.push(r.clone()); } } }
    Some(out)
}
fn main() {
    std::panic::set_hook(Box::new(|_| {}));
    let toks = ["+","-","*","/","%","@","^",".cfa",".ra",".undef","0","1","2","8","-1","9223372036854775807","9223372036854775808","$a","$b","a","zz","$zz","!!"];
    let module = SimpleModule { base_address: Some(0), size: Some(0x100), ..Default::default() };
    let mut files: BTreeMap<String, SymbolFile> = BTreeMap::new();
    let regfiles: Vec<BTreeMap<String,u64>> = vec![
        [("a".to_string(), 16u64), ("b".to_string(), 3u64)].into_iter().collect(),
        [("a".to_string(), u64::MAX), ("b".to_string(), 1u64 << 63)].into_iter().collect(),
        [("b".to_string(), 8u64)].into_iter().collect()];
    let mem: BTreeMap<u64,u64> = [(16u64, 0x5000u64), (8, 24), (24, 0x6000), (0, 7), (u64::MAX, 9), (19, 77), (13, 5)].into_iter().collect();
    let (mut total, mut bad, mut pan) = (0u64, 0u64, 0u64); let mut shown = 0;
    // which rule hosts the enumerated expression: cfa, ra, or register c
    for host in [".cfa", ".ra", "c"] { for len in 1..=4usize { let mut idx = vec![0usize; len]; loop {
        let e: Vec<&str> = idx.iter().map(|&i| toks[i]).collect(); let es = e.join(" ");
        // division/remainder signedness carve-out is handled below by skipping mismatches involving '/' '%' with huge operands
        let init = match host { ".cfa" => format!(".cfa: {es} .ra: .cfa ^"), ".ra" => format!(".cfa: $b 8 + .ra: {es}"), _ => format!(".cfa: $b 8 + .ra: 5 c: {es} a: $a") };
        let text = format!("MODULE Linux x86 abcd m\nSTACK CFI INIT 10 20 {init}\n");
        let sf = files.entry(text.clone()).or_insert_with(|| SymbolFile::from_bytes(text.as_bytes()).unwrap());
        for rf in &regfiles { let m0 = Mock { ip: 0x15, regs: rf.clone(), mem: mem.clone(), ..Default::default() };
            total += 1; let mut m = m0.clone();
            let r = catch_unwind(AssertUnwindSafe(|| sf.walk_frame(&module, &mut m)));
            let exp = reference(&[&init], &m0);
            match r { Err(_) => { pan += 1; if shown < 10 { shown += 1; println!("PANIC on {init:?}"); } }
                Ok(res) => { let ok = match (&res, &exp) { (None, None) => true, (Some(()), Some(x)) => { let mut mm = m.clone(); mm.cleared.sort(); mm.cleared.dedup(); let mut xx = x.clone(); xx.cleared.sort(); xx.cleared.dedup(); mm == xx }, _ => false };
                    if !ok { let signed_div = (es.contains('/') || es.contains('%')) && (rf.values().any(|v| *v >= 1 << 63) || es.contains("-1") || es.contains("9223372036854775808"));
                        if !signed_div { bad += 1; if shown < 10 { shown += 1; println!("MISMATCH {init:?} regs={rf:?}\n  impl={res:?} {:?}\n  ref ={:?}", (m.cfa, m.ra, &m.set, &m.cleared), exp.map(|x| (x.cfa, x.ra, x.set, x.cleared))); } } } } }
        }
        files.clear();
        let mut k = 0; loop { if k == len { break; } idx[k] += 1; if idx[k] < toks.len() { break; } idx[k] = 0; k += 1; } if k == len { break; }
    } } }
    println!("evaluations={total} mismatches={bad} panics={pan}");
}
