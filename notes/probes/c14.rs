// C14/C15/C19 probe: generated dumps -> process -> index, JSON and bit-flip oracles
use minidump::{Minidump, MinidumpContextValidity}; use minidump::system_info::{Os, Cpu, PointerWidth};
use minidump_common::format as md; use minidump_processor::*; use minidump_unwind::*; use minidump_synth as synth; use test_assembler::*;
use std::collections::HashMap;
#[derive(Clone, Debug)] struct Model { cpu64: bool, os: u32, tids: Vec<u32>, names: Vec<Option<String>>, exc: Option<Exc>, bp: Option<(u32,u32,u32)>, regions: Vec<(u64,u64,u32)>, ctx_ok: Vec<bool>, arm64: bool }
#[derive(Clone, Debug)] struct Exc { tid: u32, code: u32, flags: u32, addr: u64, nparams: u32, info: [u64;3], ctx: u8 /*0 none,1 valid,2 garbage*/, ctx_ip: u64 }
fn build(m: &Model) -> Vec<u8> {
    let e = test_assembler::Endian::Little;
    let mut d = synth::SynthMinidump::with_endian(e);
    // exception context first => rva 32
    let mk = |ip: u64, sp: u64| if m.arm64 { synth::arm64_context(e, ip, sp) } else if m.cpu64 { synth::amd64_context(e, ip, sp) } else { synth::x86_context(e, ip as u32, sp as u32) };
    let (ctx_rva, ctx_size) = match &m.exc { Some(x) if x.ctx == 1 => { let c = mk(x.ctx_ip, 0x7000_1000); let sz = c.size() as u32; d = d.add(c); (32u32, sz) }, Some(x) if x.ctx == 2 => { let c = Section::with_endian(e).append_repeated(0xAB, 40); d = d.add(c); (32u32, 40u32) }, _ => (0, 0) };
    let arch = if m.arm64 { md::ProcessorArchitecture::PROCESSOR_ARCHITECTURE_ARM64 } else if m.cpu64 { md::ProcessorArchitecture::PROCESSOR_ARCHITECTURE_AMD64 } else { md::ProcessorArchitecture::PROCESSOR_ARCHITECTURE_INTEL };
    d = d.add_system_info(synth::SystemInfo::new(e).set_processor_architecture(arch as u16).set_platform_id(m.os));
    for (i, &tid) in m.tids.iter().enumerate() {
        let stack = synth::Memory::with_section(Section::with_endian(e).append_repeated(0, 64), 0x7000_0000 + 0x1000 * i as u64);
        let ctx = if m.ctx_ok[i] { mk(0x4000_1000 + i as u64, 0x7000_0000 + 0x1000 * i as u64) } else { Section::with_endian(e).append_repeated(0xCD, 24) };
        let th = synth::Thread::new(e, tid, &stack, &ctx); d = d.add_thread(th).add(stack).add(ctx);
        if let Some(n) = &m.names[i] { let s = synth::DumpString::new(n, e); d = d.add_thread_name(synth::ThreadName::new(e, tid, Some(&s))).add(s); }
    }
    let name = synth::DumpString::new("mod\"A\\\u{1}\u{1F600}", e);
    d = d.add_module(synth::Module::new(e, 0x4000_0000, 0x10000, &name, 0x1234, 0, None)).add(name);
    if let Some(x) = &m.exc { let mut ex = synth::Exception::new(e); ex.thread_id = x.tid; ex.exception_record.exception_code = x.code; ex.exception_record.exception_flags = x.flags; ex.exception_record.exception_address = x.addr; ex.exception_record.number_parameters = x.nparams; ex.exception_record.exception_information[..3].copy_from_slice(&x.info); ex.thread_context = (ctx_size, ctx_rva); d = d.add_exception(ex); }
    if let Some((v, dt, rt)) = m.bp { d = d.add_stream(synth::SimpleStream { stream_type: md::MINIDUMP_STREAM_TYPE::BreakpadInfoStream as u32, section: Section::with_endian(e).D32(v).D32(dt).D32(rt) }); }
    for &(b, s, prot) in &m.regions { d = d.add_memory_info(synth::MemoryInfo::new(e, b, b, prot, s, 0x1000, prot, 0x20000)); }
    d.finish().unwrap()
}
fn main() {
    let rt = tokio::runtime::Builder::new_current_thread().build().unwrap();
    let provider = Symbolizer::new(string_symbol_supplier(HashMap::new()));
    let mut problems: std::collections::BTreeMap<String,(u64,String)> = Default::default(); let mut total = 0u64; let mut flips_seen = 0u64;
    let mut note = |k: String, m: &Model| { let e = problems.entry(k).or_insert((0, format!("{m:?}"))); e.0 += 1; };
    let tid_sets: Vec<Vec<u32>> = vec![vec![], vec![1], vec![1,2], vec![2,2], vec![1,2,7], vec![5,1,5]];
    let oses = [md::PlatformId::VER_PLATFORM_WIN32_NT as u32, md::PlatformId::Linux as u32, md::PlatformId::MacOs as u32, 0x9999];
    let regions_menu: Vec<Vec<(u64,u64,u32)>> = vec![vec![], vec![(0x10000, 0x1000, 0x04)], vec![(0x10000, 0x1000, 0x01), (0x7fff_0000_0000, 0x10000, 0x20)], vec![(u64::MAX - 0xfff, 0xfff, 0x04), (0, 0x1000, 0x02)]];
    for cpu in 0..3 { let (cpu64, arm64) = (cpu >= 1, cpu == 2);
    for tids in &tid_sets { for &os in &oses {
        let mut excs: Vec<Option<Exc>> = vec![None];
        for tid in [1u32, 2, 5, 99] { for (code, flags) in [(0xC0000005u32, 0u32), (0xC0000006, 0), (11, 1), (1, 13), (0x1234_5678, 0)] { for np in [0u32, 1, 2, 3] { for addr in [0x45u64, 0xffff_ffff_0000_0045, 0x10800, 0x0000_8000_0001_0000] { for ctx in [0u8, 1, 2] {
            if (tid != 1 && ctx == 2) || (np == 3 && addr != 0x45) { continue; }
            excs.push(Some(Exc { tid, code, flags, addr, nparams: np, info: [1, 0x20800, 0xC000009A], ctx, ctx_ip: 0x4000_2222 })); } } } } }
        for exc in &excs { for bp in [None, Some((3u32, 2u32, 1u32)), Some((1, 1, 7)), Some((2, 0, 2)), Some((0, 1, 2))] {
            let regs = &regions_menu[(total as usize) % regions_menu.len()];
            let ctx_ok: Vec<bool> = (0..tids.len()).map(|i| !(i == 1 && total % 3 == 0)).collect();
            let names: Vec<Option<String>> = (0..tids.len()).map(|i| if i % 2 == 0 { Some(format!("t{i}\"\u{7}")) } else { None }).collect();
            let m = Model { cpu64, os, tids: tids.clone(), names, exc: exc.clone(), bp, regions: regs.clone(), ctx_ok, arm64 };
            let bytes = build(&m); total += 1;
            let dump = Minidump::read(&bytes[..]).unwrap();
            let st = match std::panic::catch_unwind(std::panic::AssertUnwindSafe(|| rt.block_on(process_minidump(&dump, &provider)))) { Ok(Ok(s)) => s, Ok(Err(e)) => { if !tids.is_empty() { note(format!("process error {e}"), &m); } continue; } Err(_) => { note("PANIC in process".into(), &m); continue; } };
            // ---- C14 index oracle
            if st.threads.len() != m.tids.len() { note("thread count".into(), &m); continue; }
            let dump_tid = m.bp.and_then(|(v, d, _)| if v & 1 != 0 { Some(d) } else { None }); let req_tid = m.bp.and_then(|(v, _, r)| if v & 2 != 0 { Some(r) } else { None });
            for (i, t) in st.threads.iter().enumerate() { if t.thread_id != m.tids[i] { note("thread id/order".into(), &m); }
                let skipped = dump_tid == Some(m.tids[i]); if skipped != (t.info == CallStackInfo::DumpThreadSkipped) { note("dump thread skip".into(), &m); }
                // names: last name for that id wins (BTreeMap insert)
                let exp_name = m.tids.iter().enumerate().filter(|(_, &x)| x == m.tids[i]).filter_map(|(j, _)| m.names[j].clone()).last();
                if !skipped && t.thread_name != exp_name { note(format!("thread name"), &m); } }
            let target = m.exc.as_ref().map(|x| x.tid).or(req_tid);
            let cands: Vec<usize> = (0..m.tids.len()).filter(|&i| Some(m.tids[i]) == target && dump_tid != Some(m.tids[i])).collect();
            match st.requesting_thread { None => if !cands.is_empty() { note("requesting thread missing".into(), &m); }, Some(i) => if !cands.contains(&i) { note("requesting thread wrong".into(), &m); } }
            if let (Some(i), Some(x)) = (st.requesting_thread, &m.exc) { if let Some(f0) = st.threads[i].frames.first() { let ip = f0.context.get_instruction_pointer();
                let want = if x.ctx == 1 { x.ctx_ip } else { 0x4000_1000 + i as u64 }; let want = if m.cpu64 { want } else { want & 0xffff_ffff };
                if x.ctx == 1 && ip != want { note("exception context not used".into(), &m); } if x.ctx != 1 && m.ctx_ok[i] && ip != want { note("thread context fallback wrong".into(), &m); } } else if x.ctx == 1 { note("no frame despite exception ctx".into(), &m); } }
            // crash address
            if let (Some(x), Some(info)) = (&m.exc, &st.exception_info) { let is_win = os == md::PlatformId::VER_PLATFORM_WIN32_NT as u32;
                let mut a = if is_win && (x.code == 0xC0000005 || x.code == 0xC0000006) && x.nparams >= 2 { x.info[1] } else { x.addr }; if !m.cpu64 { a &= 0xffff_ffff; }
                if info.address.0 != a { note(format!("crash address"), &m); }
                let rs = info.reason.to_string(); if is_win && x.code == 0xC0000005 { let exp = if x.nparams >= 1 { "EXCEPTION_ACCESS_VIOLATION_WRITE" } else { "EXCEPTION_ACCESS_VIOLATION" }; if rs != exp { note(format!("reason {rs} != {exp}"), &m); } }
                // ---- C19 oracle
                let is64 = st.system_info.cpu.pointer_width() == PointerWidth::Bits64;
                for f in &info.possible_bit_flips { flips_seen += 1; let examined = match f.source_register { None => match &info.adjusted_address { Some(AdjustedAddress::NonCanonical(v)) => v.0, _ => info.address.0 }, Some(r) => st.threads[st.requesting_thread.unwrap()].frames[0].context.get_register(r).unwrap_or(0) };
                    if (f.address.0 ^ examined).count_ones() != 1 { note("bitflip not single bit".into(), &m); }
                    if !is64 || st.system_info.cpu == Cpu::Arm64 { note("bitflip on 32-bit/arm64".into(), &m); }
                    let bit = (f.address.0 ^ examined).trailing_zeros(); if st.system_info.cpu == Cpu::X86_64 && info.adjusted_address.is_none() && bit >= 48 { note("bitflip outside canonical range".into(), &m); }
                    let mapped = m.regions.iter().any(|&(b, s, _)| b <= f.address.0 && f.address.0 - b < s); if f.address.0 != 0 && !mapped { note("bitflip target unmapped".into(), &m); }
                    if let Some(c) = f.confidence { if !(0.0..=1.0).contains(&c) { note("confidence range".into(), &m); } } else { note("no confidence".into(), &m); } }
                if !info.possible_bit_flips.is_empty() { let self_ok = m.regions.iter().any(|&(b, s, _)| b <= info.address.0 && info.address.0 - b < s); if self_ok && info.possible_bit_flips.iter().any(|f| f.source_register.is_none()) { /* permission-dependent; skip */ } }
            } else if m.exc.is_some() != st.exception_info.is_some() { note("exception presence".into(), &m); }
            // ---- C15 JSON oracle (validity + redundancy)
            for pretty in [false, true] { let mut out = vec![]; if st.print_json(&mut out, pretty).is_err() { note("print_json error".into(), &m); continue; }
                let v: serde_json::Value = match serde_json::from_slice(&out) { Ok(v) => v, Err(e) => { note(format!("invalid JSON {e}"), &m); continue; } };
                if v["thread_count"].as_u64() != Some(m.tids.len() as u64) || v["threads"].as_array().map(|a| a.len()) != Some(m.tids.len()) { note("json thread_count".into(), &m); }
                for (ti, t) in v["threads"].as_array().unwrap().iter().enumerate() { let fr = t["frames"].as_array().unwrap(); if t["frame_count"].as_u64() != Some(fr.len() as u64) { note("json frame_count".into(), &m); }
                    for (k, f) in fr.iter().enumerate() { if f["frame"].as_u64() != Some(k as u64) { note("json frame idx".into(), &m); }
                        let off = u64::from_str_radix(f["offset"].as_str().unwrap().trim_start_matches("0x"), 16).unwrap();
                        if let Some(mo) = f["module_offset"].as_str() { let mo = u64::from_str_radix(mo.trim_start_matches("0x"), 16).unwrap(); if off.wrapping_sub(0x4000_0000) != mo { note("json module_offset".into(), &m); } }
                        let w = if m.cpu64 { 18 } else { 10 }; if f["offset"].as_str().unwrap().len() < w { note("json hex width".into(), &m); } }
                    if t["thread_id"].as_u64() != Some(m.tids[ti] as u64) { note("json thread_id".into(), &m); } }
                match (st.requesting_thread, v.get("crashing_thread")) { (Some(i), Some(ct)) if !ct.is_null() => { if ct["threads_index"].as_u64() != Some(i as u64) { note("json threads_index".into(), &m); } let mut a = ct.clone(); a.as_object_mut().unwrap().remove("threads_index"); if let Some(f0) = a["frames"].as_array_mut().and_then(|f| f.get_mut(0)) { f0.as_object_mut().unwrap().remove("registers"); } if a != v["threads"][i] { note("json crashing_thread copy differs".into(), &m); } }
                    (Some(i), _) => { if !st.threads[i].frames.is_empty() { note("json crashing_thread missing".into(), &m); } } (None, Some(ct)) if !ct.is_null() => note("json crashing_thread unexpected".into(), &m), _ => {} }
                let os_s = v["system_info"]["os"].as_str().unwrap_or(""); if os == 0x9999 && !(os_s.starts_with("0x") && os_s[2..].chars().all(|c| c.is_ascii_hexdigit())) { note(format!("json os not hexstring: {os_s}"), &m); }
            }
            let mut sink = std::io::sink(); if st.print(&mut sink).is_err() || st.print_brief(&mut sink).is_err() { note("text print error".into(), &m); }
        } }
    } } }
    println!("dumps={total} bitflips_checked={flips_seen} problem kinds={}", problems.len());
    for (k, (n, ex)) in &problems { println!("  {n}x {k}\n      e.g. {}", &ex[..ex.len().min(400)]); }
}
