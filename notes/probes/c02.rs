use minidump::{Minidump, MinidumpModuleList, Module as _}; use minidump_synth::*; use minidump_synth::Module as SynthModule; use test_assembler::*;
use minidump_common::format as md;
fn build(e: test_assembler::Endian, cv: u8) -> Vec<u8> {
    let name = DumpString::new("module 1", e);
    let id: Vec<u8> = (0u8..24).collect();
    let cvr = match cv {
        0 => Section::with_endian(e).D32(md::CvSignature::Elf as u32).append_bytes(&id),
        _ => Section::with_endian(e).D32(md::CvSignature::Pdb70 as u32).D32(0x00010203).D16(0x0405).D16(0x0607).append_bytes(&[8,9,10,11,12,13,14,15]).D32(7).append_bytes(b"foo.pdb\0"),
    };
    let m = SynthModule::new(e, 0x100000000, 0x4000, &name, 0xb1054d2a, 0x34571371, None).cv_record(&cvr);
    let si = SystemInfo::new(e).set_processor_architecture(md::ProcessorArchitecture::PROCESSOR_ARCHITECTURE_AMD64 as u16).set_platform_id(md::PlatformId::Linux as u32);
    SynthMinidump::with_endian(e).add_module(m).add(name).add(cvr).add_system_info(si).finish().unwrap()
}
fn main() {
    for cv in [0u8, 1] { for e in [Endian::Little, Endian::Big] {
        let d = Minidump::read(build(e, cv)).unwrap(); let ml = d.get_stream::<MinidumpModuleList>().unwrap(); let m = ml.iter().next().unwrap();
        println!("cv={cv} endian={:?}: debug_id={:?} code_id={:?} debug_file={:?}", d.endian, m.debug_identifier().map(|x| x.breakpad().to_string()), m.code_identifier().map(|c| c.to_string()), m.debug_file());
    } }
}
