// C18 probe: register access consistency for all 9 context kinds
use minidump::format::*;
use minidump::*;
use std::collections::{BTreeMap, HashSet};
use std::panic::{catch_unwind, AssertUnwindSafe};

fn check<C: CpuContext + Clone>(mk: fn() -> C, kind: &str, aliases: &[(&'static str, &'static str)], extra: &[(&'static str, &'static str)], sp: &str, ip: &str, wrap: fn(C) -> MinidumpRawContext)
where C::Register: Into<u64> + TryFrom<u64> + Copy + PartialEq + std::fmt::Debug {
    let mut problems: Vec<String> = vec![];
    let regs = C::REGISTERS;
    let all_ones: u64 = if std::mem::size_of::<C::Register>() == 4 { 0xffff_ffff } else { u64::MAX };
    // names: canonical + aliases + extra spellings
    let mut names: Vec<(&'static str, &'static str)> = regs.iter().map(|r| (*r, *r)).collect();
    names.extend_from_slice(aliases); names.extend_from_slice(extra);
    // depth-1/2 set sequences vs model
    for &(n1, c1) in &names { for v1 in [0u64, all_ones, 0x1234_5678] {
        let mut ctx = mk(); let mut model: BTreeMap<&str, u64> = regs.iter().map(|r| (*r, 0u64)).collect();
        let r = ctx.set_register(n1, C::Register::try_from(v1).ok().unwrap());
        if r.is_none() { problems.push(format!("{kind}: set_register({n1}) -> None")); continue; }
        model.insert(c1, v1);
        for &(n2, c2) in &names {
            let mut ctx2 = ctx.clone(); let mut m2 = model.clone();
            let v2 = 0x0f0f_0f0fu64;
            ctx2.set_register(n2, C::Register::try_from(v2).ok().unwrap()); m2.insert(c2, v2);
            for &(n, c) in &names {
                let got: u64 = ctx2.get_register_always(n).into();
                if got != m2[c] { problems.push(format!("{kind}: after set({n1}),set({n2}) get_always({n})={got:#x} model[{c}]={:#x}", m2[c])); }
            }
        }
    }}
    let ctx = mk();
    // validity All
    for &(n, c) in names.iter() {
        let is_extra = extra.iter().any(|e| e.0 == n);
        let g = ctx.get_register(n, &MinidumpContextValidity::All);
        if g.is_none() && !is_extra { problems.push(format!("{kind}: get_register({n}, All) = None")); }
        if is_extra && g.is_none() { problems.push(format!("{kind}: NOTE extra spelling {n} (-> {c}) accepted by set/get_always but get_register(All)=None")); }
        let m = ctx.memoize_register(n);
        if !is_extra && m != Some(c) { problems.push(format!("{kind}: memoize({n}) = {m:?}, expected {c}")); }
    }
    for junk in ["", "zz", "RAX", "$rax", "r99", "pc "] {
        let r = catch_unwind(AssertUnwindSafe(|| ctx.get_register(junk, &MinidumpContextValidity::All)));
        match r { Ok(None) => {}, Ok(Some(_)) => problems.push(format!("{kind}: unknown {junk:?} readable")), Err(_) => problems.push(format!("{kind}: unknown {junk:?} PANICS under All")) }
        let mut c2 = ctx.clone();
        if c2.set_register(junk, C::Register::try_from(0).ok().unwrap()).is_some() { problems.push(format!("{kind}: set unknown {junk:?} ok")); }
    }
    // validity Some(S): singletons by canonical and by alias
    for &(n, c) in names.iter() { if extra.iter().any(|e| e.0 == n) { continue; }
        let set: HashSet<&'static str> = [n].into_iter().collect(); let valid = MinidumpContextValidity::Some(set);
        for &(q, qc) in names.iter() { if extra.iter().any(|e| e.0 == q) { continue; }
            let expect = qc == c; let got = ctx.get_register(q, &valid).is_some();
            if got != expect { problems.push(format!("{kind}: valid={{{n}}} get_register({q}) is_some={got}, expected {expect}")); }
        }
        let mc = MinidumpContext { raw: wrap(ctx.clone()), valid: valid.clone() };
        let vr: Vec<&str> = mc.valid_registers().map(|x| x.0).collect();
        if vr != vec![c] { problems.push(format!("{kind}: valid={{{n}}} MinidumpContext::valid_registers={vr:?} expected [{c}]")); }
    }
    // empty set
    let valid = MinidumpContextValidity::Some(HashSet::new());
    for &(q, _) in names.iter() { if ctx.get_register(q, &valid).is_some() { problems.push(format!("{kind}: empty validity yet {q} valid")); } }
    // sp / ip accessors
    let mut c = mk(); c.set_register(sp, C::Register::try_from(0x1111).ok().unwrap()); c.set_register(ip, C::Register::try_from(0x2222).ok().unwrap());
    if c.stack_pointer_register_name() != sp && !aliases.iter().any(|a| a.0 == sp && a.1 == c.stack_pointer_register_name()) { problems.push(format!("{kind}: sp name {}", c.stack_pointer_register_name())); }
    let mc = MinidumpContext::from_raw(wrap(c.clone()));
    if mc.get_stack_pointer() != 0x1111 { problems.push(format!("{kind}: get_stack_pointer {:#x}", mc.get_stack_pointer())); }
    if mc.get_instruction_pointer() != 0x2222 { problems.push(format!("{kind}: get_instruction_pointer {:#x}", mc.get_instruction_pointer())); }
    let gp = mc.general_purpose_registers(); if gp != regs { problems.push(format!("{kind}: general_purpose_registers != REGISTERS")); }
    let rr: Vec<&str> = mc.registers().map(|x| x.0).collect(); if rr != regs { problems.push(format!("{kind}: registers() != REGISTERS")); }
    if mc.register_size() != std::mem::size_of::<C::Register>() { problems.push(format!("{kind}: register_size")); }
    for r in regs { let f = mc.format_register(r); if f.len() != 2 + 2 * std::mem::size_of::<C::Register>() { problems.push(format!("{kind}: format_register({r}) = {f}")); } }
    problems.sort(); problems.dedup();
    println!("{kind}: {} names, {} problems", names.len(), problems.len());
    for p in problems.iter().take(12) { println!("   {p}"); }
}
fn z<T>() -> T where T: for<'a> scroll::ctx::TryFromCtx<'a, scroll::Endian, [u8], Error = scroll::Error> {
    use scroll::Pread; let b = vec![0u8; 4096]; b.pread_with::<T>(0, scroll::LE).unwrap()
}
fn main() {
    std::panic::set_hook(Box::new(|_| {}));
    check::<CONTEXT_X86>(Default::default, "x86", &[], &[], "esp", "eip", MinidumpRawContext::X86);
    check::<CONTEXT_AMD64>(Default::default, "amd64", &[], &[], "rsp", "rip", MinidumpRawContext::Amd64);
    check::<CONTEXT_ARM>(Default::default, "arm", &[("r11","fp"),("r13","sp"),("r14","lr"),("r15","pc")], &[], "sp", "pc", MinidumpRawContext::Arm);
    check::<CONTEXT_ARM64>(Default::default, "arm64", &[("x29","fp"),("x30","lr")], &[], "sp", "pc", MinidumpRawContext::Arm64);
    check::<CONTEXT_ARM64_OLD>(Default::default, "arm64_old", &[("x29","fp"),("x30","lr")], &[], "sp", "pc", MinidumpRawContext::OldArm64);
    check::<CONTEXT_PPC>(|| z(), "ppc", &[], &[], "r1", "srr0", MinidumpRawContext::Ppc);
    check::<CONTEXT_PPC64>(|| z(), "ppc64", &[], &[], "r1", "srr0", MinidumpRawContext::Ppc64);
    check::<CONTEXT_MIPS>(Default::default, "mips", &[], &[], "sp", "pc", MinidumpRawContext::Mips);
    let sparc_extra: Vec<(&'static str,&'static str)> = vec![("g0","g_r0"),("g7","g_r7"),("o0","g_r8"),("o6","g_r14"),("o7","g_r15"),("l0","g_r16"),("l7","g_r23"),("i0","g_r24"),("i7","g_r31")];
    check::<CONTEXT_SPARC>(|| z(), "sparc", &[], &sparc_extra, "g_r14", "pc", MinidumpRawContext::Sparc);
}
