// C13 probe: same input, repeated runs (fresh hash seeds) and supplier delay vectors -> byte-identical output
use minidump::{Minidump}; use minidump_processor::*; use minidump_unwind::*; use breakpad_symbols::*; use minidump_synth as synth; use test_assembler::*; use minidump_common::format as md;
use std::sync::{Arc, Mutex}; use std::future::Future; use std::pin::Pin; use std::task::{Context, Poll};
struct Delay(usize); impl Future for Delay { type Output = (); fn poll(mut self: Pin<&mut Self>, cx: &mut Context<'_>) -> Poll<()> { if self.0 == 0 { Poll::Ready(()) } else { self.0 -= 1; cx.waker().wake_by_ref(); Poll::Pending } } }
struct Sup { syms: std::collections::HashMap<String, String>, delays: Vec<usize>, calls: Arc<Mutex<usize>> }
#[async_trait::async_trait]
impl SymbolSupplier for Sup {
    async fn locate_symbols(&self, m: &(dyn Module + Sync)) -> Result<LocateSymbolsResult, SymbolError> { let i = { let mut c = self.calls.lock().unwrap(); *c += 1; *c - 1 }; Delay(self.delays[i % self.delays.len()]).await;
        match self.syms.get(&*m.code_file()) { Some(s) => Ok(LocateSymbolsResult { symbols: SymbolFile::from_bytes(s.as_bytes())?, extra_debug_info: None }), None => Err(SymbolError::NotFound) } }
    async fn locate_file(&self, _m: &(dyn Module + Sync), _k: FileKind) -> Result<std::path::PathBuf, FileError> { Err(FileError::NotFound) }
}
fn build(with_limits: bool, alias: bool) -> (Vec<u8>, std::collections::HashMap<String,String>) {
    let e = Endian::Little; let mut d = synth::SynthMinidump::with_endian(e);
    d = d.add_system_info(synth::SystemInfo::new(e).set_processor_architecture(md::ProcessorArchitecture::PROCESSOR_ARCHITECTURE_ARM64 as u16).set_platform_id(md::PlatformId::Linux as u32));
    let mut syms = std::collections::HashMap::new();
    for t in 0..3u64 { let mut st = Section::with_endian(e); for k in 0..16u64 { st = st.D64(if k == 3 { 0x4000_2020 + 0x10_0000 * ((t + 1) % 3) } else { 0 }); }
        let stack = synth::Memory::with_section(st, 0x7000_0000 + 0x1000 * t); let ctx = synth::arm64_context(e, 0x4000_1010 + 0x10_0000 * t, 0x7000_0000 + 0x1000 * t);
        d = d.add_thread(synth::Thread::new(e, 10 + t as u32, &stack, &ctx)).add(stack).add(ctx);
        let name = synth::DumpString::new(&format!("m{t}"), e); d = d.add_module(synth::Module::new(e, 0x4000_0000 + 0x10_0000 * t, 0x10000, &name, 1, 0, None)).add(name);
        let rules = if alias { ".cfa: sp 32 + .ra: .cfa -8 + ^ x29: 1 fp: 2 x19: 3 x20: 4 x21: 5" } else { ".cfa: sp 32 + .ra: .cfa -8 + ^ x19: 3 x20: 4" };
        syms.insert(format!("m{t}"), format!("MODULE Linux arm64 000000000000000000000000000000000 m{t}\nFUNC 1000 100 0 f{t}\nFUNC 2000 100 0 g{t}\nSTACK CFI INIT 1000 100 {rules}\n")); }
    if with_limits { let mut s = String::from("Limit                     Soft Limit           Hard Limit           Units     \n"); for k in 0..16 { s += &format!("Max thing {k}                  {}            unlimited            bytes     \n", k * 10); } d = d.set_linux_proc_limits(s.as_bytes()); }
    (d.finish().unwrap(), syms)
}
fn render(st: &ProcessState) -> Vec<u8> { let mut o = vec![]; st.print(&mut o).unwrap(); st.print_brief(&mut o).unwrap(); st.print_json(&mut o, false).unwrap(); st.print_json(&mut o, true).unwrap(); o }
fn main() {
    let rt = tokio::runtime::Builder::new_current_thread().build().unwrap(); let mt = tokio::runtime::Builder::new_multi_thread().worker_threads(4).build().unwrap();
    for (limits, alias) in [(false, false), (true, false), (false, true)] { let (bytes, syms) = build(limits, alias); let dump = Minidump::read(&bytes[..]).unwrap();
        let mut outs = std::collections::BTreeSet::new(); let mut runs = 0;
        for d0 in 0..3 { for d1 in 0..3 { for d2 in 0..3 { for rep in 0..4 { let sup = Sup { syms: syms.clone(), delays: vec![d0, d1, d2], calls: Default::default() }; let p = Symbolizer::new(sup);
            let st = if rep % 2 == 0 { rt.block_on(process_minidump(&dump, &p)).unwrap() } else { mt.block_on(process_minidump(&dump, &p)).unwrap() }; outs.insert(render(&st)); runs += 1; } } } }
        println!("limits={limits} alias={alias}: runs={runs} distinct outputs={}", outs.len());
        if outs.len() > 1 { let v: Vec<_> = outs.iter().collect(); let a = String::from_utf8_lossy(v[0]); let b = String::from_utf8_lossy(v[1]); for (la, lb) in a.lines().zip(b.lines()) { if la != lb { println!("   first differing line:\n     {la}\n     {lb}"); break; } } }
    }
}
