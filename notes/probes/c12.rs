// C12 probe (E2 prototype): exhaustive poll/IO-completion schedules of tasks sharing one real Symbolizer
use breakpad_symbols::*;
use std::cell::RefCell; use std::future::Future; use std::pin::Pin; use std::rc::Rc;
use std::sync::atomic::{AtomicBool, Ordering}; use std::sync::{Arc, Mutex}; use std::task::{Context, Poll, Wake, Waker};
#[derive(Default)] struct Env { calls: Vec<String>, io: Vec<(Option<Waker>, bool)> }
struct Mock { env: Arc<Mutex<Env>>, suspensions: usize, answer: u8 }
struct IoFut { env: Arc<Mutex<Env>>, id: usize }
impl Future for IoFut { type Output = (); fn poll(self: Pin<&mut Self>, cx: &mut Context<'_>) -> Poll<()> { let mut e = self.env.lock().unwrap(); if e.io[self.id].1 { Poll::Ready(()) } else { e.io[self.id].0 = Some(cx.waker().clone()); Poll::Pending } } }
#[async_trait::async_trait]
impl SymbolSupplier for Mock {
    async fn locate_symbols(&self, module: &(dyn Module + Sync)) -> Result<LocateSymbolsResult, SymbolError> {
        let key = module.debug_file().unwrap().to_string(); self.env.lock().unwrap().calls.push(key);
        for _ in 0..self.suspensions { let id = { let mut e = self.env.lock().unwrap(); e.io.push((None, false)); e.io.len() - 1 }; IoFut { env: self.env.clone(), id }.await; }
        match self.answer { 0 => Ok(LocateSymbolsResult { symbols: SymbolFile::from_bytes(b"MODULE Linux x86 abcd foo\nFUNC 1000 10 0 fn_x\n").unwrap(), extra_debug_info: None }), 1 => Err(SymbolError::NotFound), _ => Err(SymbolError::ParseError("x", 0)) } }
    async fn locate_file(&self, _m: &(dyn Module + Sync), _k: FileKind) -> Result<std::path::PathBuf, FileError> { Err(FileError::NotFound) }
}
struct Flag(AtomicBool); impl Wake for Flag { fn wake(self: Arc<Self>) { self.0.store(true, Ordering::SeqCst) } }
struct Cfg { tasks: Vec<Vec<usize>>, susp: usize, answer: u8, spurious: usize }
struct Exec { choices: Vec<usize>, nenabled: Vec<usize>, obs: String, violation: Option<String> }
#[derive(Clone, Copy)] enum A { Poll(usize), Io(usize), Sp(usize) }
fn run(cfg: &Cfg, prefix: &[usize]) -> Exec {
    let env = Arc::new(Mutex::new(Env::default())); let sym = Arc::new(Symbolizer::new(Mock { env: env.clone(), suspensions: cfg.susp, answer: cfg.answer }));
    let results: Rc<RefCell<Vec<Vec<Option<String>>>>> = Rc::new(RefCell::new(vec![vec![]; cfg.tasks.len()]));
    let mut futs: Vec<Option<Pin<Box<dyn Future<Output = ()>>>>> = vec![];
    for (t, script) in cfg.tasks.iter().enumerate() { let sym = sym.clone(); let script = script.clone(); let results = results.clone();
        futs.push(Some(Box::pin(async move { for k in script { let m = SimpleModule::new(&format!("mod{k}"), debugid::DebugId::nil()); let mut f = SimpleFrame::with_instruction(0x1005); let r = sym.fill_symbol(&m, &mut f).await; results.borrow_mut()[t].push(match r { Ok(()) => Some(format!("{k}:ok:{:?}", f.function)), Err(_) => Some(format!("{k}:err")) }); } }))); }
    let flags: Vec<Arc<Flag>> = (0..futs.len()).map(|_| Arc::new(Flag(AtomicBool::new(true)))).collect(); let wakers: Vec<Waker> = flags.iter().map(|f| Waker::from(f.clone())).collect();
    let mut ex = Exec { choices: vec![], nenabled: vec![], obs: String::new(), violation: None }; let mut spurious_used = 0; let mut deadlock = false;
    loop { if futs.iter().all(|f| f.is_none()) { break; }
        let mut en: Vec<A> = vec![]; for t in 0..futs.len() { if futs[t].is_some() && flags[t].0.load(Ordering::SeqCst) { en.push(A::Poll(t)); } }
        { let e = env.lock().unwrap(); for (i, io) in e.io.iter().enumerate() { if !io.1 { en.push(A::Io(i)); } } }
        let real = en.len(); if spurious_used < cfg.spurious { for t in 0..futs.len() { if futs[t].is_some() && !flags[t].0.load(Ordering::SeqCst) { en.push(A::Sp(t)); } } }
        if real == 0 { deadlock = true; break; }
        let step = ex.choices.len(); let c = if step < prefix.len() { assert!(prefix[step] < en.len(), "replay divergence"); prefix[step] } else { 0 }; ex.choices.push(c); ex.nenabled.push(en.len());
        match en[c] { A::Poll(t) | A::Sp(t) => { if let A::Sp(_) = en[c] { spurious_used += 1; } flags[t].0.store(false, Ordering::SeqCst); let mut cx = Context::from_waker(&wakers[t]); if futs[t].as_mut().unwrap().as_mut().poll(&mut cx).is_ready() { futs[t] = None; } }
            A::Io(i) => { let w = { let mut e = env.lock().unwrap(); e.io[i].1 = true; e.io[i].0.take() }; if let Some(w) = w { w.wake(); } } } }
    let e = env.lock().unwrap(); let ps = sym.pending_stats();
    ex.obs = format!("calls={:?} results={:?} req={} proc={}", e.calls, results.borrow(), ps.symbols_requested, ps.symbols_processed);
    let mut sorted = e.calls.clone(); sorted.sort(); let n = sorted.len(); sorted.dedup(); let distinct: std::collections::BTreeSet<usize> = cfg.tasks.iter().flatten().copied().collect();
    if deadlock { ex.violation = Some("deadlock / lost wake-up".into()); } else if n != sorted.len() { ex.violation = Some("supplier asked more than once for one module".into()); } else if ps.symbols_requested as usize != distinct.len() || ps.symbols_processed as usize != distinct.len() { ex.violation = Some("pending counters".into()); }
    else { let r = results.borrow(); let mut per_key: std::collections::BTreeMap<String, std::collections::BTreeSet<String>> = Default::default(); for t in r.iter() { for x in t.iter().flatten() { let (k, rest) = x.split_once(':').unwrap(); per_key.entry(k.into()).or_default().insert(rest.into()); } } if per_key.values().any(|s| s.len() != 1) { ex.violation = Some("requesters of one module saw different outcomes".into()); } }
    ex }
fn explore(cfg: &Cfg, prefix: Vec<usize>, count: &mut u64, outcomes: &mut std::collections::BTreeSet<String>, viol: &mut Vec<(String, Vec<usize>, String)>) {
    let x = run(cfg, &prefix); *count += 1; outcomes.insert(x.obs.clone()); if let Some(v) = &x.violation { if viol.len() < 3 { viol.push((v.clone(), x.choices.clone(), x.obs.clone())); } else { viol.push((v.clone(), vec![], String::new())); } }
    for i in prefix.len()..x.choices.len() { for alt in 1..x.nenabled[i] { let mut p = x.choices[..i].to_vec(); p.push(alt); explore(cfg, p, count, outcomes, viol); } } }
fn main() {
    for (name, cfg) in [("2 tasks x 2 lookups, 1 key, 1 suspension, S=1", Cfg { tasks: vec![vec![0,0], vec![0,0]], susp: 1, answer: 0, spurious: 1 }), ("3 tasks x 1 lookup, 1 key, 2 suspensions, S=1", Cfg { tasks: vec![vec![0], vec![0], vec![0]], susp: 2, answer: 1, spurious: 1 }),
        ("3 tasks x 2 lookups, 2 keys, 1 suspension, S=1", Cfg { tasks: vec![vec![0,1], vec![1,0], vec![0,0]], susp: 1, answer: 0, spurious: 1 }), ("2 tasks x 1 lookup, 1 key, 0 suspensions, S=0", Cfg { tasks: vec![vec![0], vec![0]], susp: 0, answer: 2, spurious: 0 })] {
        let t0 = std::time::Instant::now(); let (mut count, mut outcomes, mut viol) = (0u64, Default::default(), vec![]); explore(&cfg, vec![], &mut count, &mut outcomes, &mut viol);
        println!("{name}: schedules={count} distinct outcomes={} violations={} time={:?}", outcomes.len(), viol.len(), t0.elapsed()); for v in viol.iter().take(2) { println!("   VIOLATION {} schedule={:?}\n      {}", v.0, v.1, v.2); } } }
