// C03 probe: exhaustive instruction-byte prefixes at the crashing rip (amd64) through process_minidump
use minidump::Minidump; use minidump_processor::*; use minidump_unwind::*; use minidump_synth as synth; use test_assembler::*; use minidump_common::format as md; use std::collections::HashMap;
use scroll::Pwrite;
fn main() {
    let a: Vec<String> = std::env::args().collect(); let nbytes: u32 = a[1].parse().unwrap(); let shard: u32 = a[2].parse().unwrap(); let nshards: u32 = a[3].parse().unwrap();
    let sites = std::sync::Arc::new(std::sync::Mutex::new(std::collections::BTreeMap::<String,(u64,String)>::new())); let s2 = sites.clone(); let cur = std::sync::Arc::new(std::sync::Mutex::new(String::new())); let c2 = cur.clone();
    std::panic::set_hook(Box::new(move |i| { let loc = i.location().map(|l| format!("{}:{}", l.file(), l.line())).unwrap_or_default(); let msg = i.payload().downcast_ref::<String>().cloned().or(i.payload().downcast_ref::<&str>().map(|s| s.to_string())).unwrap_or_default(); let mut s = s2.lock().unwrap(); let e = s.entry(format!("{loc} :: {msg}")).or_insert((0, c2.lock().unwrap().clone())); e.0 += 1; }));
    let rt = tokio::runtime::Builder::new_current_thread().build().unwrap(); let provider = Symbolizer::new(string_symbol_supplier(HashMap::new()));
    let e = Endian::Little;
    // template dump: exception context first (rva 32), code memory region at 0x10000 (16 bytes), stack
    let build = |code: &[u8; 16], rsp: u64| -> Vec<u8> {
        let mut ctxb = vec![0u8; 1232]; ctxb.pwrite_with(0x10001fu32, 48, scroll::LE).unwrap(); // context_flags
        // gp regs start at offset 120: rax,rcx,rdx,rbx,rsp,rbp,rsi,rdi,r8..r15,rip
        for (k, v) in [0x1111u64, 0, 0x8000_0000_0000, 0x3333, rsp, 0x7000_0010, 0, 8, 1, 2, 3, 4, 5, 6, 7, 8, 0x10000].iter().enumerate() { ctxb.pwrite_with(*v, 120 + 8 * k, scroll::LE).unwrap(); }
        let ctx = Section::with_endian(e).append_bytes(&ctxb);
        let mut d = synth::SynthMinidump::with_endian(e).add(ctx);
        d = d.add_system_info(synth::SystemInfo::new(e).set_processor_architecture(md::ProcessorArchitecture::PROCESSOR_ARCHITECTURE_AMD64 as u16).set_platform_id(md::PlatformId::VER_PLATFORM_WIN32_NT as u32));
        let codemem = synth::Memory::with_section(Section::with_endian(e).append_bytes(code), 0x10000); d = d.add_memory(codemem);
        let stack = synth::Memory::with_section(Section::with_endian(e).append_repeated(0, 64), 0x7000_0000); let tctx = synth::amd64_context(e, 0x10000, 0x7000_0000);
        d = d.add_thread(synth::Thread::new(e, 1, &stack, &tctx)).add(stack).add(tctx);
        let mut ex = synth::Exception::new(e); ex.thread_id = 1; ex.exception_record.exception_code = 0xC0000005; ex.exception_record.number_parameters = 2; ex.exception_record.exception_information = [0; 15]; ex.exception_record.exception_information[1] = u64::MAX; ex.thread_context = (1232, 32); d = d.add_exception(ex);
        d = d.add_memory_info(synth::MemoryInfo::new(e, 0x10000, 0x10000, 0x20, 0x1000, 0x1000, 0x20, 0x20000));
        d.finish().unwrap() };
    let n: u64 = 1u64 << (8 * nbytes); let (mut total, mut analysed) = (0u64, 0u64);
    for v in 0..n { if (v % nshards as u64) as u32 != shard { continue; } let mut code = [0u8; 16]; for b in 0..nbytes { code[b as usize] = (v >> (8 * b)) as u8; }
        for rsp in [0x7000_0020u64, 0, 7, u64::MAX] { if nbytes > 2 && rsp != 7 { continue; }
            *cur.lock().unwrap() = format!("code={:02x?} rsp={rsp:#x}", &code[..4]); total += 1; let bytes = build(&code, rsp);
            let _ = std::panic::catch_unwind(std::panic::AssertUnwindSafe(|| { let dump = Minidump::read(&bytes[..]).unwrap(); let st = rt.block_on(process_minidump(&dump, &provider)).unwrap(); let mut o = std::io::sink(); st.print(&mut o).unwrap(); st.print_json(&mut o, false).unwrap(); st.exception_info.as_ref().map(|i| i.instruction_str.is_some()).unwrap_or(false) })).map(|x| if x { analysed += 1 }); } }
    println!("shard {shard}/{nshards}: cases={total} analysed={analysed} panic sites={}", sites.lock().unwrap().len());
    for (k, (c, ex)) in sites.lock().unwrap().iter() { println!("  {c}x {k}  e.g. {ex}"); }
}
