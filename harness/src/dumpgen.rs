//! Dump models (plain values) and their serialisation to minidump bytes.
//!
//! A [`DumpModel`] is the list of streams of a dump **in directory order**; several streams of
//! one type may be present (the property says the last one is served). The model is the ground
//! truth a check compares a parse against. Serialisation goes through the `minidump-synth`
//! crate (which does not share layouts with `minidump-common`) in either byte order and with the
//! memory regions in a `MemoryList` or a `Memory64List`; what synth lacks is written as raw
//! `test_assembler::Section`s (lists with the optional 4 bytes of padding after the count,
//! thread records with non-zero scheduling fields) or, for the CPU contexts synth has no writer
//! for, with `scroll::Pwrite` of the `md::CONTEXT_*` structs.
use minidump::MinidumpRawContext;
use minidump_common::format as md;
use minidump_synth as synth;
use scroll::ctx::{SizeWith, TryFromCtx, TryIntoCtx};
use scroll::{Pread, Pwrite};
use synth::{DumpSection, ListItem, SectionExtra, SimpleStream, SynthMinidump};
use test_assembler::{Endian, Section};

// stream type numbers, from the Microsoft / Breakpad / Crashpad headers (not from minidump-common)
pub const ST_THREAD_LIST: u32 = 3;
pub const ST_MODULE_LIST: u32 = 4;
pub const ST_MEMORY_LIST: u32 = 5;
pub const ST_EXCEPTION: u32 = 6;
pub const ST_SYSTEM_INFO: u32 = 7;
pub const ST_MEMORY64_LIST: u32 = 9;
pub const ST_HANDLE_DATA: u32 = 12;
pub const ST_UNLOADED_MODULE_LIST: u32 = 14;
pub const ST_MISC_INFO: u32 = 15;
pub const ST_MEMORY_INFO_LIST: u32 = 16;
pub const ST_THREAD_NAMES: u32 = 24;
pub const ST_LINUX_MAPS: u32 = 0x4767_0009;
pub const ST_CRASHPAD_INFO: u32 = 0x4350_0001;

pub fn scroll_endian(e: Endian) -> scroll::Endian {
    match e {
        Endian::Little => scroll::LE,
        Endian::Big => scroll::BE,
    }
}

// ---------------------------------------------------------------------------------------------
// CPU contexts

#[derive(Clone, Copy, Debug, PartialEq, Eq, Hash, PartialOrd, Ord)]
pub enum CpuKind {
    X86,
    Amd64,
    Arm,
    Arm64,
    Arm64Old,
    Ppc,
    Ppc64,
    Sparc,
    Mips,
}
impl CpuKind {
    pub const ALL: [CpuKind; 9] =
        [CpuKind::X86, CpuKind::Amd64, CpuKind::Arm, CpuKind::Arm64, CpuKind::Arm64Old, CpuKind::Ppc, CpuKind::Ppc64, CpuKind::Sparc, CpuKind::Mips];
    /// `MINIDUMP_SYSTEM_INFO::processor_architecture` value that selects this context layout.
    pub fn arch(self) -> u16 {
        match self {
            CpuKind::X86 => 0,
            CpuKind::Mips => 1,
            CpuKind::Ppc => 3,
            CpuKind::Arm => 5,
            CpuKind::Amd64 => 9,
            CpuKind::Arm64 => 12,
            CpuKind::Sparc => 0x8001,
            CpuKind::Ppc64 => 0x8002,
            CpuKind::Arm64Old => 0x8003,
        }
    }
    pub fn from_arch(arch: u16) -> Option<CpuKind> {
        // 10 = IA32_ON_WIN64 shares the x86 layout
        if arch == 10 {
            return Some(CpuKind::X86);
        }
        CpuKind::ALL.iter().copied().find(|k| k.arch() == arch)
    }
    pub fn name(self) -> &'static str {
        match self {
            CpuKind::X86 => "x86",
            CpuKind::Amd64 => "amd64",
            CpuKind::Arm => "arm",
            CpuKind::Arm64 => "arm64",
            CpuKind::Arm64Old => "arm64_old",
            CpuKind::Ppc => "ppc",
            CpuKind::Ppc64 => "ppc64",
            CpuKind::Sparc => "sparc",
            CpuKind::Mips => "mips",
        }
    }
    /// true when instruction and stack pointer are 32-bit fields in the context layout
    pub fn narrow(self) -> bool {
        matches!(self, CpuKind::X86 | CpuKind::Arm | CpuKind::Ppc)
    }
    /// The CPU-identifying bit of `context_flags` (winnt.h / Breakpad `MD_CONTEXT_<cpu>`); it lies inside
    /// the documented CPU mask 0xffffff00, everything below the mask says which parts of the context
    /// the writer filled in and does not take part in identifying the CPU.
    pub fn cpu_flag(self) -> u32 {
        match self {
            CpuKind::X86 => 0x0001_0000,
            CpuKind::Amd64 => 0x0010_0000,
            CpuKind::Arm => 0x4000_0000,
            CpuKind::Arm64 => 0x0040_0000,
            CpuKind::Arm64Old => 0x8000_0000,
            CpuKind::Ppc => 0x2000_0000,
            CpuKind::Ppc64 => 0x0100_0000,
            CpuKind::Sparc => 0x1000_0000,
            CpuKind::Mips => 0x0004_0000,
        }
    }
    /// The documented part flags (single low bits) of the CPU: control / integer / segments / floating
    /// point / debug registers / extended registers / xstate for x86 and amd64 (winnt.h; 0x40 is
    /// CONTEXT_XSTATE = `CONTEXT_HAS_XSTATE`, "x86 and x64 contexts have this bit set ... when they have
    /// extra XSTATE"), control / integer / floating point / debug / x18 for arm64, and the Breakpad
    /// `MD_CONTEXT_<cpu>_*` parts for the others.
    pub fn part_flags(self) -> &'static [u8] {
        match self {
            CpuKind::X86 | CpuKind::Amd64 => &[0x01, 0x02, 0x04, 0x08, 0x10, 0x20, 0x40],
            CpuKind::Arm => &[0x01, 0x02, 0x04, 0x08],
            CpuKind::Arm64 => &[0x01, 0x02, 0x04, 0x08, 0x10],
            CpuKind::Arm64Old => &[0x02, 0x04],
            CpuKind::Ppc | CpuKind::Ppc64 => &[0x01, 0x02, 0x04],
            CpuKind::Sparc => &[0x01, 0x02, 0x04, 0x08],
            CpuKind::Mips => &[0x02, 0x04, 0x08],
        }
    }
    /// Low flag bits `ContextM::new` uses (what a writer of a complete context of that CPU sets).
    pub fn default_low_flags(self) -> u8 {
        match self {
            CpuKind::X86 => 0x3f,
            CpuKind::Amd64 | CpuKind::Arm64 => 0x1f,
            CpuKind::Arm => 0x0f,
            CpuKind::Arm64Old => 0x06,
            CpuKind::Ppc | CpuKind::Ppc64 | CpuKind::Sparc | CpuKind::Mips => 0x07,
        }
    }
    /// Menu of legal low-flag bytes: none (the CPU bit alone), every documented part alone, all
    /// documented parts together, the default of `ContextM::new`, and every bit below the CPU mask.
    pub fn low_flags_menu(self) -> Vec<u8> {
        let mut v = vec![0u8];
        v.extend_from_slice(self.part_flags());
        v.push(self.part_flags().iter().fold(0, |a, b| a | b));
        v.push(self.default_low_flags());
        v.push(0xff);
        let mut out: Vec<u8> = vec![];
        for x in v {
            if !out.contains(&x) {
                out.push(x);
            }
        }
        out
    }
}

/// A CPU context: every byte of the layout comes from a fill pattern, except `context_flags`
/// (the CPU bit of the layout plus `low_flags`), the instruction pointer and the stack pointer.
#[derive(Clone, Debug, PartialEq, Eq, Hash)]
pub struct ContextM {
    pub kind: CpuKind,
    /// 0: all zero, 1: all ones, 2: position-dependent pattern
    pub fill: u8,
    pub ip: u64,
    pub sp: u64,
    /// the bits of `context_flags` below the CPU mask 0xffffff00 (which parts of the context are
    /// present); the rest of `context_flags` is `kind.cpu_flag()`. Ignored with `via_synth`.
    pub low_flags: u8,
    /// use the writer of minidump-synth (x86, amd64, arm64 only; implies fill 0)
    pub via_synth: bool,
}

fn fill_byte(fill: u8, k: usize) -> u8 {
    match fill {
        0 => 0,
        1 => 0xff,
        _ => (k.wrapping_mul(7).wrapping_add(3)) as u8,
    }
}

fn build_ctx<T>(fill: u8, e: scroll::Endian, fix: impl FnOnce(&mut T)) -> Vec<u8>
where
    T: for<'a> TryFromCtx<'a, scroll::Endian, [u8], Error = scroll::Error> + TryIntoCtx<scroll::Endian, [u8], Error = scroll::Error> + SizeWith<scroll::Endian>,
{
    let n = T::size_with(&scroll::LE);
    let src: Vec<u8> = (0..n).map(|k| fill_byte(fill, k)).collect();
    let mut v: T = src.pread_with(0, scroll::LE).expect("context from pattern");
    fix(&mut v);
    let mut out = vec![0u8; n];
    let w = out.pwrite_with(v, 0, e).expect("context write");
    assert_eq!(w, n, "context size");
    out
}

fn le_of<T>(v: T) -> Vec<u8>
where
    T: TryIntoCtx<scroll::Endian, [u8], Error = scroll::Error> + SizeWith<scroll::Endian>,
{
    let n = T::size_with(&scroll::LE);
    let mut out = vec![0u8; n];
    let w = out.pwrite_with(v, 0, scroll::LE).expect("context write");
    assert_eq!(w, n, "context size");
    out
}

/// Canonical (little-endian) image of a parsed raw context, for comparison with `ContextM::bytes(LE)`.
pub fn raw_context_le(raw: &MinidumpRawContext) -> (CpuKind, Vec<u8>) {
    match raw {
        MinidumpRawContext::X86(c) => (CpuKind::X86, le_of(c.clone())),
        MinidumpRawContext::Amd64(c) => (CpuKind::Amd64, le_of(c.clone())),
        MinidumpRawContext::Arm(c) => (CpuKind::Arm, le_of(c.clone())),
        MinidumpRawContext::Arm64(c) => (CpuKind::Arm64, le_of(c.clone())),
        MinidumpRawContext::OldArm64(c) => (CpuKind::Arm64Old, le_of(*c)),
        MinidumpRawContext::Ppc(c) => (CpuKind::Ppc, le_of(c.clone())),
        MinidumpRawContext::Ppc64(c) => (CpuKind::Ppc64, le_of(c.clone())),
        MinidumpRawContext::Sparc(c) => (CpuKind::Sparc, le_of(c.clone())),
        MinidumpRawContext::Mips(c) => (CpuKind::Mips, le_of(c.clone())),
    }
}

impl ContextM {
    pub fn new(kind: CpuKind, fill: u8, ip: u64, sp: u64) -> ContextM {
        let m = if kind.narrow() { 0xffff_ffff } else { u64::MAX };
        ContextM { kind, fill, ip: ip & m, sp: sp & m, low_flags: kind.default_low_flags(), via_synth: false }
    }
    /// The same context with other part flags (bits below the CPU mask) in `context_flags`.
    pub fn with_low_flags(mut self, low: u8) -> ContextM {
        assert!(!self.via_synth, "synth writes its own context_flags");
        self.low_flags = low;
        self
    }
    /// The `context_flags` value written (not meaningful with `via_synth`).
    pub fn context_flags(&self) -> u32 {
        self.kind.cpu_flag() | self.low_flags as u32
    }
    pub fn synth(kind: CpuKind, ip: u64, sp: u64) -> ContextM {
        assert!(matches!(kind, CpuKind::X86 | CpuKind::Amd64 | CpuKind::Arm64), "synth has no writer for {kind:?}");
        let mut c = ContextM::new(kind, 0, ip, sp);
        c.via_synth = true;
        c
    }
    /// The context record in byte order `e`.
    pub fn bytes(&self, e: Endian) -> Vec<u8> {
        let (ip, sp, f, se) = (self.ip, self.sp, self.fill, scroll_endian(e));
        let flags = self.context_flags();
        if self.via_synth {
            let s = match self.kind {
                CpuKind::X86 => synth::x86_context(e, ip as u32, sp as u32),
                CpuKind::Amd64 => synth::amd64_context(e, ip, sp),
                CpuKind::Arm64 => synth::arm64_context(e, ip, sp),
                _ => unreachable!(),
            };
            return s.get_contents().expect("synth context");
        }
        match self.kind {
            CpuKind::X86 => build_ctx::<md::CONTEXT_X86>(f, se, |c| {
                c.context_flags = flags;
                c.eip = ip as u32;
                c.esp = sp as u32;
            }),
            CpuKind::Amd64 => build_ctx::<md::CONTEXT_AMD64>(f, se, |c| {
                c.context_flags = flags;
                c.rip = ip;
                c.rsp = sp;
            }),
            CpuKind::Arm => build_ctx::<md::CONTEXT_ARM>(f, se, |c| {
                c.context_flags = flags;
                c.iregs[15] = ip as u32;
                c.iregs[13] = sp as u32;
            }),
            CpuKind::Arm64 => build_ctx::<md::CONTEXT_ARM64>(f, se, |c| {
                c.context_flags = flags;
                c.pc = ip;
                c.sp = sp;
            }),
            CpuKind::Arm64Old => build_ctx::<md::CONTEXT_ARM64_OLD>(f, se, |c| {
                c.context_flags = flags as u64;
                c.pc = ip;
                c.sp = sp;
            }),
            CpuKind::Ppc => build_ctx::<md::CONTEXT_PPC>(f, se, |c| {
                c.context_flags = flags;
                c.srr0 = ip as u32;
                c.gpr[1] = sp as u32;
            }),
            CpuKind::Ppc64 => build_ctx::<md::CONTEXT_PPC64>(f, se, |c| {
                c.context_flags = flags as u64;
                c.srr0 = ip;
                c.gpr[1] = sp;
            }),
            CpuKind::Sparc => build_ctx::<md::CONTEXT_SPARC>(f, se, |c| {
                c.context_flags = flags;
                c.pc = ip;
                c.g_r[14] = sp;
            }),
            CpuKind::Mips => build_ctx::<md::CONTEXT_MIPS>(f, se, |c| {
                c.context_flags = flags;
                c.epc = ip;
                c.iregs[29] = sp;
            }),
        }
    }
}

// ---------------------------------------------------------------------------------------------
// stream models

pub type GuidM = (u32, u16, u16, [u8; 8]);

#[derive(Clone, Debug, PartialEq, Eq, Hash)]
pub enum Cv {
    None,
    /// `file` is written verbatim after the age (the generator decides about the NUL)
    Pdb70 { guid: GuidM, age: u32, file: Vec<u8> },
    Pdb20 { offset: u32, signature: u32, age: u32, file: Vec<u8> },
    Elf { id: Vec<u8> },
    Unknown { signature: u32, data: Vec<u8> },
}
impl Cv {
    pub fn kind(&self) -> &'static str {
        match self {
            Cv::None => "none",
            Cv::Pdb70 { .. } => "PDB70",
            Cv::Pdb20 { .. } => "PDB20",
            Cv::Elf { .. } => "ELF",
            Cv::Unknown { .. } => "unknown",
        }
    }
    /// size of the CodeView record in the file
    pub fn len(&self) -> usize {
        match self {
            Cv::None => 0,
            Cv::Pdb70 { file, .. } => 24 + file.len(),
            Cv::Pdb20 { file, .. } => 16 + file.len(),
            Cv::Elf { id } => 4 + id.len(),
            Cv::Unknown { data, .. } => 4 + data.len(),
        }
    }
    pub fn is_empty(&self) -> bool {
        self.len() == 0
    }
}

/// The 13 words of VS_FIXEDFILEINFO in declaration order.
pub type VersionM = [u32; 13];
pub const VS_SIGNATURE: u32 = 0xfeef_04bd;
pub const VS_STRUCVERSION: u32 = 0x0001_0000;

#[derive(Clone, Debug, PartialEq, Eq, Hash)]
pub struct ModuleM {
    pub base: u64,
    pub size: u32,
    pub checksum: u32,
    pub timestamp: u32,
    pub name: String,
    pub version: VersionM,
    pub cv: Cv,
}

#[derive(Clone, Debug, PartialEq, Eq, Hash)]
pub struct UnloadedM {
    pub base: u64,
    pub size: u32,
    pub checksum: u32,
    pub timestamp: u32,
    pub name: String,
}

#[derive(Clone, Debug, PartialEq, Eq, Hash)]
pub struct ThreadM {
    pub id: u32,
    pub suspend_count: u32,
    pub priority_class: u32,
    pub priority: u32,
    pub teb: u64,
    pub stack_base: u64,
    /// stack bytes stored with the thread; empty = the descriptor is null (size 0, rva 0) and the
    /// documented fallback resolves `stack_base` through the memory list
    pub stack: Vec<u8>,
    pub context: Option<ContextM>,
}

#[derive(Clone, Debug, PartialEq, Eq, Hash)]
pub struct RegionM {
    pub base: u64,
    pub bytes: Vec<u8>,
}

#[derive(Clone, Debug, PartialEq, Eq, Hash)]
pub struct MemInfoM {
    pub base: u64,
    pub alloc_base: u64,
    pub alloc_protection: u32,
    pub size: u64,
    pub state: u32,
    pub protection: u32,
    pub ty: u32,
}

#[derive(Clone, Debug, PartialEq, Eq, Hash)]
pub struct ExceptionM {
    pub thread_id: u32,
    pub code: u32,
    pub flags: u32,
    pub record: u64,
    pub address: u64,
    pub nparams: u32,
    pub info: [u64; 15],
    pub context: Option<ContextM>,
}

#[derive(Clone, Debug, PartialEq, Eq, Hash)]
pub struct SysInfoM {
    pub arch: u16,
    pub level: u16,
    pub revision: u16,
    pub nproc: u8,
    pub product_type: u8,
    pub major: u32,
    pub minor: u32,
    pub build: u32,
    pub platform_id: u32,
    pub csd: Option<String>,
    pub suite_mask: u16,
    pub reserved2: u16,
    /// the 24 bytes of CPU_INFORMATION as six words
    pub cpu_words: [u32; 6],
}
impl SysInfoM {
    pub fn new(arch: u16, platform_id: u32) -> SysInfoM {
        SysInfoM { arch, level: 6, revision: 0x0a02, nproc: 4, product_type: 1, major: 10, minor: 0, build: 19045, platform_id, csd: None, suite_mask: 0x100, reserved2: 0, cpu_words: [0x756e_6547, 0x4965_6e69, 0x6c65_746e, 0x0009_06ea, 0xbfeb_fbff, 0] }
    }
}

#[derive(Clone, Debug, PartialEq, Eq, Hash)]
pub struct TzM {
    pub id: u32,
    pub bias: i32,
    pub std_name: [u16; 32],
    pub std_date: [u16; 8],
    pub std_bias: i32,
    pub dl_name: [u16; 32],
    pub dl_date: [u16; 8],
    pub dl_bias: i32,
}

#[derive(Clone, Debug, PartialEq, Eq, Hash)]
pub struct Misc5M {
    pub context_size: u32,
    pub enabled_features: u64,
    /// features[i] = (seed * i, seed + i)
    pub feature_seed: u32,
    pub cookie: Option<u32>,
}
impl Misc5M {
    pub fn feature(&self, i: usize) -> (u32, u32) {
        (self.feature_seed.wrapping_mul(i as u32), self.feature_seed.wrapping_add(i as u32))
    }
}

#[derive(Clone, Debug, Default, PartialEq, Eq, Hash)]
pub struct MiscM {
    pub process_id: Option<u32>,
    pub times: Option<[u32; 3]>,
    pub power: Option<[u32; 5]>,
    pub integrity: Option<u32>,
    pub execute_flags: Option<u32>,
    pub protected: Option<u32>,
    pub tz: Option<TzM>,
    /// (build_string, dbg_bld_str) as UTF-16 code units, zero padded by the writer
    pub build: Option<(Vec<u16>, Vec<u16>)>,
    pub misc5: Option<Misc5M>,
}
impl MiscM {
    /// MINIDUMP_MISC_INFO revision the writer emits (1..=5)
    pub fn version(&self) -> u32 {
        if self.misc5.is_some() {
            5
        } else if self.build.is_some() {
            4
        } else if self.integrity.is_some() || self.execute_flags.is_some() || self.protected.is_some() || self.tz.is_some() {
            3
        } else if self.power.is_some() {
            2
        } else {
            1
        }
    }
}

#[derive(Clone, Debug, PartialEq, Eq, Hash)]
pub struct MapLineM {
    pub start: u64,
    pub end: u64,
    pub perms: String,
    pub offset: u64,
    pub dev: (u32, u32),
    pub inode: u64,
    /// text after the inode column ("" = anonymous)
    pub path: String,
}
impl MapLineM {
    pub fn line(&self) -> String {
        format!("{:x}-{:x} {} {:08x} {:02x}:{:02x} {} {}\n", self.start, self.end, self.perms, self.offset, self.dev.0, self.dev.1, self.inode, self.path)
    }
}

#[derive(Clone, Debug, PartialEq, Eq, Hash)]
pub struct HandleM {
    pub handle: u64,
    pub type_name: Option<String>,
    pub object_name: Option<String>,
    pub attributes: u32,
    pub granted_access: u32,
    pub handle_count: u32,
    pub pointer_count: u32,
}

#[derive(Clone, Debug, PartialEq, Eq, Hash)]
pub enum AnnM {
    Invalid,
    Str(String),
    Custom(u16, Vec<u8>),
}

#[derive(Clone, Debug, PartialEq, Eq, Hash)]
pub struct CrashpadModuleM {
    pub index: u32,
    pub list: Vec<String>,
    pub simple: Vec<(String, String)>,
    pub objects: Vec<(String, AnnM)>,
}

#[derive(Clone, Debug, PartialEq, Eq, Hash)]
pub struct CrashpadM {
    pub report_id: GuidM,
    pub client_id: GuidM,
    pub simple: Vec<(String, String)>,
    pub modules: Vec<CrashpadModuleM>,
}

#[derive(Clone, Debug, PartialEq, Eq, Hash)]
pub enum StreamM {
    SystemInfo(SysInfoM),
    /// `pad4`: 4 bytes of padding between the count and the first entry (legal for the
    /// count-prefixed lists: threads, thread names, modules, MemoryList)
    Threads { items: Vec<ThreadM>, pad4: bool },
    ThreadNames { items: Vec<(u32, String)>, pad4: bool },
    Modules { items: Vec<ModuleM>, pad4: bool },
    /// `header`: size_of_header of the extended list header (12 = minimal)
    Unloaded { items: Vec<UnloadedM>, header: u32 },
    /// written as MemoryList (honouring pad4) or as Memory64List, as the serialiser is told
    Memory { items: Vec<RegionM>, pad4: bool },
    MemoryInfo { items: Vec<MemInfoM>, header: u32 },
    Exception(ExceptionM),
    Misc(MiscM),
    LinuxMaps(Vec<MapLineM>),
    Handles(Vec<HandleM>),
    Crashpad(CrashpadM),
}
impl StreamM {
    pub fn kind(&self) -> &'static str {
        match self {
            StreamM::SystemInfo(_) => "system_info",
            StreamM::Threads { .. } => "threads",
            StreamM::ThreadNames { .. } => "thread_names",
            StreamM::Modules { .. } => "modules",
            StreamM::Unloaded { .. } => "unloaded",
            StreamM::Memory { .. } => "memory",
            StreamM::MemoryInfo { .. } => "memory_info",
            StreamM::Exception(_) => "exception",
            StreamM::Misc(_) => "misc",
            StreamM::LinuxMaps(_) => "linux_maps",
            StreamM::Handles(_) => "handles",
            StreamM::Crashpad(_) => "crashpad",
        }
    }
    pub fn items(&self) -> usize {
        match self {
            StreamM::Threads { items, .. } => items.len(),
            StreamM::ThreadNames { items, .. } => items.len(),
            StreamM::Modules { items, .. } => items.len(),
            StreamM::Unloaded { items, .. } => items.len(),
            StreamM::Memory { items, .. } => items.len(),
            StreamM::MemoryInfo { items, .. } => items.len(),
            StreamM::LinuxMaps(v) => v.len(),
            StreamM::Handles(v) => v.len(),
            StreamM::Crashpad(c) => c.simple.len() + c.modules.len(),
            _ => 1,
        }
    }
}

pub const STREAM_KINDS: [&str; 12] =
    ["system_info", "threads", "thread_names", "modules", "unloaded", "memory", "memory_info", "exception", "misc", "linux_maps", "handles", "crashpad"];

#[derive(Clone, Debug, Default, PartialEq, Eq, Hash)]
pub struct DumpModel {
    /// streams in directory order
    pub streams: Vec<StreamM>,
}

fn utf16_len(s: &str) -> u64 {
    s.encode_utf16().count() as u64
}

fn pad16<const N: usize>(v: &[u16]) -> [u16; N] {
    let mut a = [0u16; N];
    for (i, c) in v.iter().take(N).enumerate() {
        a[i] = *c;
    }
    a
}

fn systime(v: &[u16; 8]) -> md::SYSTEMTIME {
    md::SYSTEMTIME { year: v[0], month: v[1], day_of_week: v[2], day: v[3], hour: v[4], minute: v[5], second: v[6], milliseconds: v[7] }
}

/// Count-prefixed list: through synth's `ListStream`, or hand-laid with the 4 padding bytes.
fn add_list<T>(d: SynthMinidump, ty: u32, e: Endian, items: Vec<T>, pad4: bool) -> SynthMinidump
where
    T: ListItem + Into<Section>,
{
    if !pad4 {
        let mut l = synth::ListStream::new(ty, e);
        for i in items {
            l = l.add(i);
        }
        d.add_stream(l)
    } else {
        let mut s = Section::with_endian(e).D32(items.len() as u32).D32(0u32);
        for i in items {
            let sec: Section = i.into();
            let at = sec.file_offset();
            s = s.mark(&at).append_section(sec);
        }
        d.add_stream(SimpleStream { stream_type: ty, section: s })
    }
}

impl DumpModel {
    /// The last stream of each kind (the one the property says is served).
    pub fn served(&self, kind: &str) -> Option<&StreamM> {
        self.streams.iter().rev().find(|s| s.kind() == kind)
    }
    pub fn served_system_info(&self) -> Option<&SysInfoM> {
        match self.served("system_info") {
            Some(StreamM::SystemInfo(s)) => Some(s),
            _ => None,
        }
    }
    pub fn served_regions(&self) -> Option<&Vec<RegionM>> {
        match self.served("memory") {
            Some(StreamM::Memory { items, .. }) => Some(items),
            _ => None,
        }
    }
    /// short description for evidence / replay files
    pub fn summary(&self) -> serde_json::Value {
        serde_json::Value::Array(self.streams.iter().map(|s| serde_json::json!({"stream": s.kind(), "items": s.items()})).collect())
    }

    /// Serialise in byte order `e`; memory streams become `Memory64List`s when `mem64`.
    pub fn serialize(&self, e: Endian, mem64: bool) -> Vec<u8> {
        let mut d = SynthMinidump::with_endian(e);
        // synth's Exception and SystemInfo take numeric locations, so what they point at is laid
        // out first, right behind the 32-byte header, where the offsets are known.
        let mut cursor: u64 = 32;
        let mut exc_loc: Vec<(u32, u32)> = vec![];
        let mut csd_rva: Vec<u32> = vec![];
        for s in &self.streams {
            match s {
                StreamM::Exception(x) => match &x.context {
                    Some(c) => {
                        let sec = Section::with_endian(e).append_bytes(&c.bytes(e));
                        let (len, at) = (sec.size(), sec.file_offset());
                        d = d.add(sec);
                        assert_eq!(at.value(), Some(cursor), "exception context offset");
                        exc_loc.push((len as u32, cursor as u32));
                        cursor += len;
                    }
                    None => exc_loc.push((0, 0)),
                },
                StreamM::SystemInfo(si) => match &si.csd {
                    Some(csd) => {
                        let ds = synth::DumpString::new(csd, e);
                        let at = ds.file_offset();
                        d = d.add(ds);
                        assert_eq!(at.value(), Some(cursor), "csd string offset");
                        csd_rva.push(cursor as u32);
                        cursor += 4 + 2 * utf16_len(csd);
                    }
                    None => csd_rva.push(0),
                },
                _ => {}
            }
        }
        let (mut exc_i, mut csd_i) = (0, 0);
        for s in &self.streams {
            d = match s {
                StreamM::SystemInfo(si) => {
                    let mut x = synth::SystemInfo::new(e);
                    x.processor_architecture = si.arch;
                    x.processor_level = si.level;
                    x.processor_revision = si.revision;
                    x.number_of_processors = si.nproc;
                    x.product_type = si.product_type;
                    x.major_version = si.major;
                    x.minor_version = si.minor;
                    x.build_number = si.build;
                    x.platform_id = si.platform_id;
                    x.csd_version_rva = csd_rva[csd_i];
                    csd_i += 1;
                    x.suite_mask = si.suite_mask;
                    x.reserved2 = si.reserved2;
                    let w = si.cpu_words;
                    x.cpu = synth::CpuInfo::X86CpuInfo { vendor_id: [w[0], w[1], w[2]], version_information: w[3], feature_information: w[4], amd_extended_cpu_features: w[5] };
                    d.add_stream(x)
                }
                StreamM::Threads { items, pad4 } => {
                    let mut recs = vec![];
                    for t in items {
                        let mut rec = Section::with_endian(e).D32(t.id).D32(t.suspend_count).D32(t.priority_class).D32(t.priority).D64(t.teb);
                        if t.stack.is_empty() {
                            rec = rec.D64(t.stack_base).D32(0u32).D32(0u32);
                        } else {
                            let stack = synth::Memory::with_section(Section::with_endian(e).append_bytes(&t.stack), t.stack_base);
                            rec = rec.cite_memory(&stack);
                            d = d.add(stack);
                        }
                        match &t.context {
                            Some(c) => {
                                let cs = Section::with_endian(e).append_bytes(&c.bytes(e));
                                rec = rec.cite_location(&cs);
                                d = d.add(cs);
                            }
                            None => rec = rec.D32(0u32).D32(0u32),
                        }
                        recs.push(rec);
                    }
                    add_list(d, ST_THREAD_LIST, e, recs, *pad4)
                }
                StreamM::ThreadNames { items, pad4 } => {
                    let mut recs = vec![];
                    for (id, name) in items {
                        let ds = synth::DumpString::new(name, e);
                        recs.push(synth::ThreadName::new(e, *id, Some(&ds)));
                        d = d.add(ds);
                    }
                    add_list(d, ST_THREAD_NAMES, e, recs, *pad4)
                }
                StreamM::Modules { items, pad4 } => {
                    let mut recs = vec![];
                    for m in items {
                        let name = synth::DumpString::new(&m.name, e);
                        let v = &m.version;
                        let vs = md::VS_FIXEDFILEINFO {
                            signature: v[0],
                            struct_version: v[1],
                            file_version_hi: v[2],
                            file_version_lo: v[3],
                            product_version_hi: v[4],
                            product_version_lo: v[5],
                            file_flags_mask: v[6],
                            file_flags: v[7],
                            file_os: v[8],
                            file_type: v[9],
                            file_subtype: v[10],
                            file_date_hi: v[11],
                            file_date_lo: v[12],
                        };
                        let mut sm = synth::Module::new(e, m.base, m.size, &name, m.timestamp, m.checksum, Some(&vs));
                        d = d.add(name);
                        let se = Section::with_endian(e);
                        let cv = match &m.cv {
                            Cv::None => None,
                            Cv::Pdb70 { guid, age, file } => Some(se.D32(0x5344_5352u32).D32(guid.0).D16(guid.1).D16(guid.2).append_bytes(&guid.3).D32(*age).append_bytes(file)),
                            Cv::Pdb20 { offset, signature, age, file } => Some(se.D32(0x3031_424eu32).D32(*offset).D32(*signature).D32(*age).append_bytes(file)),
                            Cv::Elf { id } => Some(se.D32(0x4270_454cu32).append_bytes(id)),
                            Cv::Unknown { signature, data } => Some(se.D32(*signature).append_bytes(data)),
                        };
                        if let Some(cv) = cv {
                            sm = sm.cv_record(&cv);
                            d = d.add(cv);
                        }
                        recs.push(sm);
                    }
                    add_list(d, ST_MODULE_LIST, e, recs, *pad4)
                }
                StreamM::Unloaded { items, header } => {
                    let mut l = synth::ExListStream::new_with_header_size(ST_UNLOADED_MODULE_LIST, *header as usize, 24, e);
                    for m in items {
                        let name = synth::DumpString::new(&m.name, e);
                        l = l.add(synth::UnloadedModule::new(e, m.base, m.size, &name, m.timestamp, m.checksum));
                        d = d.add(name);
                    }
                    d.add_stream(l)
                }
                StreamM::Memory { items, pad4 } => {
                    if mem64 {
                        let mut data = Section::with_endian(e);
                        let mut l = synth::Memory64ListStream::new(e, &data.file_offset());
                        for r in items {
                            let m = synth::Memory::with_section(Section::with_endian(e).append_bytes(&r.bytes), r.base);
                            l = l.add_memory(&m);
                            data = data.append_section(m);
                        }
                        d.add_stream(l).add(data)
                    } else {
                        let mut recs = vec![];
                        for r in items {
                            let m = synth::Memory::with_section(Section::with_endian(e).append_bytes(&r.bytes), r.base);
                            recs.push(m.cite_memory_in(Section::with_endian(e)));
                            d = d.add(m);
                        }
                        add_list(d, ST_MEMORY_LIST, e, recs, *pad4)
                    }
                }
                StreamM::MemoryInfo { items, header } => {
                    let mut l = synth::ExListStream::new_with_header_size(ST_MEMORY_INFO_LIST, *header as usize, 48, e);
                    for m in items {
                        l = l.add(synth::MemoryInfo::new(e, m.base, m.alloc_base, m.alloc_protection, m.size, m.state, m.protection, m.ty));
                    }
                    d.add_stream(l)
                }
                StreamM::Exception(x) => {
                    let mut s = synth::Exception::new(e);
                    s.thread_id = x.thread_id;
                    s.exception_record.exception_code = x.code;
                    s.exception_record.exception_flags = x.flags;
                    s.exception_record.exception_record = x.record;
                    s.exception_record.exception_address = x.address;
                    s.exception_record.number_parameters = x.nparams;
                    s.exception_record.exception_information = x.info;
                    s.thread_context = exc_loc[exc_i];
                    exc_i += 1;
                    d.add_stream(s)
                }
                StreamM::Misc(m) => {
                    let mut s = synth::MiscStream::new(e);
                    s.process_id = m.process_id;
                    s.process_times = m.times.map(|t| synth::MiscFieldsProcessTimes { process_create_time: t[0], process_user_time: t[1], process_kernel_time: t[2] });
                    s.power_info = m.power.map(|p| synth::MiscFieldsPowerInfo {
                        processor_max_mhz: p[0],
                        processor_current_mhz: p[1],
                        processor_mhz_limit: p[2],
                        processor_max_idle_state: p[3],
                        processor_current_idle_state: p[4],
                    });
                    s.process_integrity_level = m.integrity;
                    s.process_execute_flags = m.execute_flags;
                    s.protected_process = m.protected;
                    s.time_zone = m.tz.as_ref().map(|t| synth::MiscFieldsTimeZone {
                        time_zone_id: t.id,
                        time_zone: md::TIME_ZONE_INFORMATION {
                            bias: t.bias,
                            standard_name: t.std_name,
                            standard_date: systime(&t.std_date),
                            standard_bias: t.std_bias,
                            daylight_name: t.dl_name,
                            daylight_date: systime(&t.dl_date),
                            daylight_bias: t.dl_bias,
                        },
                    });
                    s.build_strings = m.build.as_ref().map(|(a, b)| synth::MiscFieldsBuildString { build_string: pad16::<260>(a), dbg_bld_str: pad16::<40>(b) });
                    s.misc_5 = m.misc5.as_ref().map(|x| {
                        let mut features = [md::XSTATE_FEATURE::default(); 64];
                        for (i, f) in features.iter_mut().enumerate() {
                            let (o, z) = x.feature(i);
                            f.offset = o;
                            f.size = z;
                        }
                        synth::MiscInfo5Fields { xstate_data: md::XSTATE_CONFIG_FEATURE_MSC_INFO { size_of_info: 528, context_size: x.context_size, enabled_features: x.enabled_features, features }, process_cookie: x.cookie }
                    });
                    d.add_stream(s)
                }
                StreamM::LinuxMaps(lines) => {
                    let text: String = lines.iter().map(|l| l.line()).collect();
                    d.add_stream(SimpleStream { stream_type: ST_LINUX_MAPS, section: Section::with_endian(e).append_bytes(text.as_bytes()) })
                }
                StreamM::Handles(items) => {
                    let mut l = synth::ExListStream::new_with_header_size(ST_HANDLE_DATA, 16, 32, e);
                    for h in items {
                        let tn = h.type_name.as_ref().map(|s| synth::DumpString::new(s, e));
                        let on = h.object_name.as_ref().map(|s| synth::DumpString::new(s, e));
                        l = l.add(synth::HandleDescriptor::new(e, h.handle, tn.as_ref(), on.as_ref(), h.attributes, h.granted_access, h.handle_count, h.pointer_count));
                        if let Some(s) = tn {
                            d = d.add(s);
                        }
                        if let Some(s) = on {
                            d = d.add(s);
                        }
                    }
                    d.add_stream(l)
                }
                StreamM::Crashpad(c) => {
                    let g = |g: &GuidM| md::GUID { data1: g.0, data2: g.1, data3: g.2, data4: g.3 };
                    let mut s = synth::CrashpadInfo::new(e).report_id(g(&c.report_id)).client_id(g(&c.client_id));
                    for (k, v) in &c.simple {
                        s = s.add_simple_annotation(k, v);
                    }
                    for m in &c.modules {
                        let mut mi = synth::ModuleCrashpadInfo::new(m.index, e);
                        for v in &m.list {
                            mi = mi.add_list_annotation(v);
                        }
                        for (k, v) in &m.simple {
                            mi = mi.add_simple_annotation(k, v);
                        }
                        for (k, v) in &m.objects {
                            let av = match v {
                                AnnM::Invalid => synth::AnnotationValue::Invalid,
                                AnnM::Str(x) => synth::AnnotationValue::String(x.clone()),
                                AnnM::Custom(t, b) => synth::AnnotationValue::Custom(*t, b.clone()),
                            };
                            mi = mi.add_annotation_object(k, av);
                        }
                        s = s.add_module(mi);
                    }
                    d.add_stream(s)
                }
            };
        }
        d.finish().expect("all labels of the synthetic dump resolve")
    }
}
