//! Reference interpreter for Breakpad `STACK WIN` records (property C07): frame-data program
//! strings and the FPO form.
//!
//! Written from the module documentation at the top of
//! `breakpad-symbols/src/sym_file/walker.rs` ("# STACK WIN", "# STACK WIN frame pointer mode",
//! "# STACK WIN expression mode") and from the statement of property C07 — not from the
//! evaluator. Two rules that the module documentation only *names* are taken from the prose
//! comments next to the code, because the property statement lists them explicitly:
//! the `@` rule (`.raSearch = $ebp + 4` when the program text contains `@`) and the FPO
//! "leftover return address" skip (context frame only: if the word at the return slot equals
//! the callee's own `eip`, the return address is one word further up). The `=tok` spelling
//! (a token that starts with `=` and is longer is `=` followed by the rest) is likewise from
//! the property statement.
//!
//! FPO and extreme size fields: the FPO formulae are documented as plain sums over a 32-bit
//! `$esp`; the property demands a clean failure for extreme size fields. A return slot
//! `$esp + frame_size` at or past 2^32 (no wrapping) therefore must fail cleanly; only the
//! return address in the last word of the address space (caller `$esp` = 2^32) and the leftover
//! skip stepping past that word are left open.
//!
//! Where documentation and property leave the outcome open, the reference says so:
//! `Open` (nothing but totality is checked) or `or_none` (the computed registers, or a clean
//! failure, are both accepted).
use std::collections::BTreeMap;

pub trait WinEnv {
    /// callee register by bare name, `None` if not valid
    fn callee_reg(&self, name: &str) -> Option<u64>;
    /// 32-bit word of stack memory
    fn mem(&self, addr: u64) -> Option<u32>;
    fn has_grand_callee(&self) -> bool;
    fn grand_callee_param_size(&self) -> u32;
}

#[derive(Clone, Copy, Debug, PartialEq, Eq, Hash)]
pub struct Sizes {
    pub params: u32,
    pub saved: u32,
    pub locals: u32,
}

pub const OUTPUT_REGS: [&str; 6] = ["eip", "esp", "ebp", "ebx", "esi", "edi"];

#[derive(Clone, Debug, PartialEq, Eq, Hash)]
pub enum WinExpect {
    /// must fail cleanly
    Fail(&'static str),
    /// not determined by the documentation: only totality is required
    Open(&'static str),
    /// exactly these caller registers are reported (value `None` = reported, value unspecified);
    /// with `or_none = Some(reason)` a clean failure is accepted as well
    Regs { regs: BTreeMap<&'static str, Option<u32>>, or_none: Option<&'static str> },
}

#[derive(Clone, Debug)]
enum V {
    Var(String),
    /// None = unspecified value (signedness of / and %)
    Int(Option<u32>),
    Undef,
}

fn literal(tok: &str) -> Option<i128> {
    let (neg, digits) = match tok.strip_prefix('-') {
        Some(d) => (true, d),
        None => (false, tok),
    };
    if digits.is_empty() || !digits.bytes().all(|b| b.is_ascii_digit()) || digits.len() > 30 {
        return None;
    }
    let mut v: i128 = 0;
    for b in digits.bytes() {
        v = v * 10 + (b - b'0') as i128;
    }
    Some(if neg { -v } else { v })
}

enum Stop {
    Fail(&'static str),
    Open(&'static str),
}

fn frame_size(sz: Sizes, gcps: u32) -> Option<u32> {
    // frame_size = local_size + saved_register_size + grand_callee_parameter_size
    let s = sz.locals as u64 + sz.saved as u64 + gcps as u64;
    u32::try_from(s).ok()
}

/// Frame-data program string.
pub fn eval_program(prog: &str, sz: Sizes, env: &dyn WinEnv) -> WinExpect {
    let mut or_none: Option<&'static str> = None;
    let (Some(esp), Some(ebp)) = (env.callee_reg("esp"), env.callee_reg("ebp")) else {
        return WinExpect::Fail("callee-esp-or-ebp-unknown");
    };
    let (esp, ebp) = (esp as u32, ebp as u32);
    let gcps = env.grand_callee_param_size();
    let uses_align = prog.contains('@');
    let search = if uses_align {
        if frame_size(sz, gcps).is_none() {
            // frame_size is not needed under the @ rule; an implementation may still reject it
            or_none = Some("frame-size-overflow-unused");
        }
        if ebp > u32::MAX - 4 {
            or_none = Some("raSearch-overflow");
        }
        ebp.wrapping_add(4)
    } else {
        let Some(fs) = frame_size(sz, gcps) else { return WinExpect::Fail("frame-size-overflow") };
        if esp.checked_add(fs).is_none() {
            or_none = Some("raSearch-overflow");
        }
        esp.wrapping_add(fs)
    };
    let mut vars: BTreeMap<String, Option<u32>> = BTreeMap::new();
    vars.insert("$esp".into(), Some(esp));
    vars.insert("$ebp".into(), Some(ebp));
    if let Some(b) = env.callee_reg("ebx") {
        vars.insert("$ebx".into(), Some(b as u32));
    }
    vars.insert(".cbParams".into(), Some(sz.params));
    vars.insert(".cbCalleeParams".into(), Some(gcps));
    vars.insert(".cbSavedRegs".into(), Some(sz.saved));
    vars.insert(".cbLocals".into(), Some(sz.locals));
    vars.insert(".raSearch".into(), Some(search));
    vars.insert(".raSearchStart".into(), Some(search));

    let mut toks: Vec<&str> = Vec::new();
    for t in prog.split_ascii_whitespace() {
        if t.len() > 1 && t.starts_with('=') {
            toks.push(&t[..1]);
            toks.push(&t[1..]);
        } else {
            toks.push(t);
        }
    }
    let mut st: Vec<V> = Vec::new();
    let r = (|| -> Result<(), Stop> {
        fn int(v: V, vars: &BTreeMap<String, Option<u32>>) -> Result<Option<u32>, Stop> {
            match v {
                V::Int(i) => Ok(i),
                V::Var(n) => vars.get(&n).copied().ok_or(Stop::Fail("undefined-variable-read")),
                V::Undef => Err(Stop::Fail("undef-used-as-integer")),
            }
        }
        for t in toks {
            match t {
                "+" | "-" | "*" | "/" | "%" | "@" => {
                    let r = int(st.pop().ok_or(Stop::Fail("stack-underflow"))?, &vars)?;
                    let l = int(st.pop().ok_or(Stop::Fail("stack-underflow"))?, &vars)?;
                    let v = match t {
                        "+" => l.zip(r).map(|(l, r)| l.wrapping_add(r)),
                        "-" => l.zip(r).map(|(l, r)| l.wrapping_sub(r)),
                        "*" => l.zip(r).map(|(l, r)| l.wrapping_mul(r)),
                        "/" | "%" => match r {
                            Some(0) => return Err(Stop::Fail("zero-divisor")),
                            None => return Err(Stop::Open("divisor-unspecified")),
                            Some(r) => match l {
                                Some(l) if l < 1 << 31 && r < 1 << 31 => Some(if t == "/" { l / r } else { l % r }),
                                _ => None,
                            },
                        },
                        _ => match r {
                            None => return Err(Stop::Open("alignment-unspecified")),
                            Some(r) => {
                                if r.count_ones() != 1 {
                                    return Err(Stop::Fail("alignment-not-power-of-two"));
                                }
                                l.map(|l| l - l % r)
                            }
                        },
                    };
                    st.push(V::Int(v));
                }
                "=" => {
                    let r = st.pop().ok_or(Stop::Fail("stack-underflow"))?;
                    let l = st.pop().ok_or(Stop::Fail("stack-underflow"))?;
                    let V::Var(name) = l else { return Err(Stop::Fail("assignment-to-non-variable")) };
                    match r {
                        V::Undef => {
                            vars.remove(&name);
                        }
                        other => {
                            let v = int(other, &vars)?;
                            vars.insert(name, v);
                        }
                    }
                }
                "^" => {
                    let p = int(st.pop().ok_or(Stop::Fail("stack-underflow"))?, &vars)?;
                    let Some(p) = p else { return Err(Stop::Open("address-unspecified")) };
                    let v = env.mem(p as u64).ok_or(Stop::Fail("unreadable-memory"))?;
                    st.push(V::Int(Some(v)));
                }
                ".undef" => st.push(V::Undef),
                _ => {
                    if t.starts_with('$') || t.starts_with('.') {
                        st.push(V::Var(t.to_string()));
                    } else if let Some(v) = literal(t) {
                        if v < i32::MIN as i128 || v > i32::MAX as i128 {
                            // documented "limited to i64 precision"; the arithmetic is 32-bit
                            return Err(Stop::Open("literal-outside-i32"));
                        }
                        st.push(V::Int(Some(v as i32 as u32)));
                    } else if !t.is_empty() && t.bytes().all(|b| b.is_ascii_alphanumeric()) {
                        // documented as a variable name, see the carve-out in DESIGN C07
                        return Err(Stop::Open("bare-variable-name"));
                    } else {
                        return Err(Stop::Fail("unknown-token"));
                    }
                }
            }
        }
        Ok(())
    })();
    match r {
        Err(Stop::Fail(w)) => return WinExpect::Fail(w),
        Err(Stop::Open(w)) => return WinExpect::Open(w),
        Ok(()) => {}
    }
    if !st.is_empty() && or_none.is_none() {
        // "(Should it be an error if the stack isn't empty at the end? ... *shrug*)"
        or_none = Some("leftover-operands");
    }
    let mut regs = BTreeMap::new();
    for r in OUTPUT_REGS {
        if let Some(v) = vars.get(&format!("${r}")) {
            regs.insert(r, *v);
        }
    }
    WinExpect::Regs { regs, or_none }
}

const FOUR_GIB: u64 = 1 << 32;

/// FPO form.
pub fn eval_fpo(allocates_base_pointer: bool, sz: Sizes, env: &dyn WinEnv) -> WinExpect {
    let gcps = env.grand_callee_param_size();
    let Some(fs) = frame_size(sz, gcps) else { return WinExpect::Fail("frame-size-overflow") };
    let Some(esp) = env.callee_reg("esp") else { return WinExpect::Fail("callee-esp-unknown") };
    // $eip := *($esp + frame_size)
    //
    // The documentation gives the FPO formulae as plain sums (wrapping arithmetic is stated for
    // the operators of program strings only), $esp is the address of a 32-bit machine and the
    // property demands that extreme size fields fail cleanly. So when the size fields push
    // `$esp + frame_size` — computed WITHOUT wrapping — to or past 2^32 there is no such
    // address, nothing can be read from it and the record cannot be applied: a clean failure.
    // Reading the word at `($esp + frame_size) mod 2^32` instead (typically BELOW the callee's
    // own $esp) is not a reading of the documented formula.
    let mut eip_addr = esp + fs as u64;
    if eip_addr >= FOUR_GIB {
        return WinExpect::Fail("return-slot-past-4GiB");
    }
    // (a slot that starts below 2^32 but does not end there is a matter of the memory model)
    let Some(mut eip) = env.mem(eip_addr) else { return WinExpect::Fail("return-slot-unreadable") };
    if !env.has_grand_callee() {
        let Some(callee_eip) = env.callee_reg("eip") else { return WinExpect::Open("callee-eip-unknown") };
        if eip as u64 == callee_eip {
            eip_addr += 4;
            if eip_addr >= FOUR_GIB {
                // "one word further": only named in a prose comment, not a sum of size fields;
                // nothing says what the word after the last word of the address space is
                return WinExpect::Open("leftover-skip-past-4GiB");
            }
            let Some(e) = env.mem(eip_addr) else { return WinExpect::Fail("return-slot-unreadable") };
            eip = e;
        }
    }
    if eip_addr + 4 >= FOUR_GIB {
        // the return address is the LAST word of the address space (readable), the caller's
        // $esp = 2^32 does not fit the register: failing or wrapping to 0 is not documented
        return WinExpect::Open("caller-esp-equals-4GiB");
    }
    let mut regs: BTreeMap<&'static str, Option<u32>> = BTreeMap::new();
    let mut or_none = None;
    if allocates_base_pointer {
        // $ebp := *($esp + grand_callee_parameter_size + saved_register_size - 8)
        let a = esp as i128 + gcps as i128 + sz.saved as i128 - 8;
        if a < 0 {
            return WinExpect::Fail("ebp-slot-below-zero");
        }
        if a as u64 >= FOUR_GIB {
            // same reading as for the return slot (cannot be reached: this address lies at
            // least 8 below `$esp + frame_size`, which is below 2^32 here)
            return WinExpect::Fail("ebp-slot-past-4GiB");
        }
        let Some(b) = env.mem(a as u64) else { return WinExpect::Fail("ebp-slot-unreadable") };
        regs.insert("ebp", Some(b));
    } else {
        // "Assume both ebp and ebx are preserved (if they were previously valid)"
        match env.callee_reg("ebp") {
            Some(b) => {
                regs.insert("ebp", Some(b as u32));
            }
            None => or_none = Some("callee-ebp-unknown"),
        }
        if let Some(b) = env.callee_reg("ebx") {
            regs.insert("ebx", Some(b as u32));
        }
    }
    regs.insert("eip", Some(eip));
    // $esp := $esp + frame_size + 4 (one word more after the leftover skip)
    regs.insert("esp", Some((eip_addr + 4) as u32));
    WinExpect::Regs { regs, or_none }
}

// ---------------------------------------------------------------------------------------------
// record selection (documentation: comments in parser.rs `insert_win_stack_info` and
// mod.rs `walk_frame`)

#[derive(Clone, Debug, PartialEq, Eq)]
pub enum WinKind {
    FrameData(String),
    Fpo(bool),
}
#[derive(Clone, Debug)]
pub struct WinRecord {
    pub address: u64,
    pub size: u32,
    pub sizes: Sizes,
    pub kind: WinKind,
}

#[derive(Clone, Debug)]
pub enum Selected {
    None,
    /// the record that unwinds the address; the flag says that a frame-data record was chosen
    /// while an FPO record covers the address too (no documented fallback if the former fails)
    Record(WinRecord, bool),
    /// exact duplicates with different contents / framedata that fails while an FPO record
    /// also covers the address: not determined
    Open,
}

/// Apply the documented overlap repair to the records of ONE kind, in file order.
fn repair(recs: &[WinRecord]) -> Vec<WinRecord> {
    let mut out: Vec<WinRecord> = Vec::new();
    for r in recs {
        if r.size == 0 || r.address.checked_add(r.size as u64).is_none() {
            continue; // invalid range: dropped
        }
        let (rs, re) = (r.address, r.address + r.size as u64 - 1);
        if let Some(last) = out.last_mut() {
            let (ls, le) = (last.address, last.address + last.size as u64 - 1);
            if ls <= re && rs <= le {
                if rs > ls {
                    // the next record defines the length of the previous one
                    last.size = (rs - ls) as u32;
                } else if (ls, le) != (rs, re) {
                    continue; // bad intersection: dropped
                }
            }
        }
        out.push(r.clone());
    }
    out
}

/// Which record unwinds `rel`? `records` in file order; only well-typed, consistent records.
pub fn select(records: &[WinRecord], rel: u64) -> Selected {
    let fd: Vec<WinRecord> = records.iter().filter(|r| matches!(r.kind, WinKind::FrameData(_))).cloned().collect();
    let fpo: Vec<WinRecord> = records.iter().filter(|r| matches!(r.kind, WinKind::Fpo(_))).cloned().collect();
    let find = |v: &[WinRecord]| -> Result<Option<WinRecord>, ()> {
        let hits: Vec<&WinRecord> = v.iter().filter(|r| rel >= r.address && rel - r.address < r.size as u64).collect();
        match hits.len() {
            0 => Ok(None),
            1 => Ok(Some(hits[0].clone())),
            _ => {
                if hits.iter().all(|h| h.sizes == hits[0].sizes && h.kind == hits[0].kind) {
                    Ok(Some(hits[0].clone()))
                } else {
                    Err(())
                }
            }
        }
    };
    // "Preferentially use framedata over fpo"
    let f = find(&repair(&fpo));
    match find(&repair(&fd)) {
        Err(()) => Selected::Open,
        Ok(Some(r)) => Selected::Record(r, !matches!(f, Ok(None))),
        Ok(None) => match f {
            Err(()) => Selected::Open,
            Ok(Some(r)) => Selected::Record(r, false),
            Ok(None) => Selected::None,
        },
    }
}

pub fn eval_record(r: &WinRecord, env: &dyn WinEnv) -> WinExpect {
    match &r.kind {
        WinKind::FrameData(p) => eval_program(p, r.sizes, env),
        WinKind::Fpo(b) => eval_fpo(*b, r.sizes, env),
    }
}

pub use crate::refcfi::block_on;
