//! vh — verification harness for rust-minidump (see /verif/DESIGN.md).
pub mod alloc;
pub mod core;

#[global_allocator]
static GLOBAL: alloc::Tracking = alloc::Tracking;

pub use crate::core::*;
pub use serde_json::{json, Map, Value};
