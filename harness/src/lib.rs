//! vh — verification harness for rust-minidump (see /verif/DESIGN.md and README.md here).
pub mod alloc;
pub mod core;

/// dump models + serialisation through minidump-synth (C02, C14, C15, C19, C03)
pub mod dumpgen;
/// processed-dump generators with an independent index model (C14, C15, C19)
pub mod procgen;
/// seed dumps containing every stream type (C01, C03, C20)
pub mod seeds;
/// the "do everything a consumer can do" driver for a parsed minidump (C01)
pub mod exercise;
/// generated stacks with ground-truth call chains (C04, C05)
pub mod stackgen;
/// symbol-file text generators (C09, C11, C03)
pub mod symgen;
/// reference interpreter for STACK CFI (C06)
pub mod refcfi;
/// reference interpreter for STACK WIN (C07)
pub mod refwin;
/// controlled poll scheduler for real futures (C12, C13)
pub mod sched;
/// explicit-state model of the streaming parse buffer machine (C10, C09)
pub mod bufmodel;
/// C10 real-code runners, input families and per-input check shared by c10 / c10real
pub mod c10common;

#[global_allocator]
static GLOBAL: alloc::Tracking = alloc::Tracking;

pub use crate::core::*;
pub use serde_json::{json, Map, Value};
