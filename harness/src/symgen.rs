//! Breakpad symbol-file *models* and their text rendering.
//!
//! A `SymModel` is the record list a generator decided on; `to_text()` renders it in the
//! grammar of docs/symbol_files.md (the dialect `breakpad-symbols` parses).  The checks keep
//! the model next to the text, so a reference lookup can be a plain linear scan over the
//! model's records and never has to look at what the parser under test built.
//!
//! Nothing here touches the code under test.

/// `<address> <size> <line> <file>` record following a FUNC.
#[derive(Clone, Debug, PartialEq, Eq, Hash)]
pub struct LineRec {
    pub addr: u64,
    pub size: u32,
    pub line: u32,
    pub file: u32,
}

/// `INLINE <depth> <call_line> <call_file> <origin> [<addr> <size>]+` record following a FUNC.
#[derive(Clone, Debug, PartialEq, Eq, Hash)]
pub struct InlineRec {
    pub depth: u32,
    pub call_line: u32,
    pub call_file: u32,
    pub origin: u32,
    pub ranges: Vec<(u64, u32)>,
}

/// `FUNC <addr> <size> <param> <name>` with its sub-records, in file order:
/// first the INLINE_ORIGIN records placed *inside* the block, then INLINEs, then lines.
#[derive(Clone, Debug, PartialEq, Eq, Hash)]
pub struct FuncRec {
    pub addr: u64,
    pub size: u32,
    pub param: u32,
    pub name: String,
    pub origins_inside: Vec<(u32, String)>,
    pub inlines: Vec<InlineRec>,
    pub lines: Vec<LineRec>,
}

impl FuncRec {
    pub fn new(addr: u64, size: u32, param: u32, name: &str) -> FuncRec {
        FuncRec { addr, size, param, name: name.into(), origins_inside: vec![], inlines: vec![], lines: vec![] }
    }
}

#[derive(Clone, Debug, PartialEq, Eq, Hash)]
pub struct PublicRec {
    pub addr: u64,
    pub param: u32,
    pub name: String,
}

/// `STACK WIN <ty> <addr> <size> 0 0 <param> 0 0 0 <has_program> <program | allocates_bp>`
/// (`ty` 4 = frame data with a program string, 0 = FPO).
#[derive(Clone, Debug, PartialEq, Eq, Hash)]
pub struct WinRec {
    pub ty: u8,
    pub addr: u64,
    pub size: u32,
    pub param: u32,
    /// program string for ty 4; "0"/"1" (allocates base pointer) for ty 0
    pub tail: String,
}

/// `STACK CFI INIT <addr> <size> <rules>` followed by `STACK CFI <addr> <rules>` lines.
#[derive(Clone, Debug, PartialEq, Eq, Hash)]
pub struct CfiRec {
    pub addr: u64,
    pub size: u32,
    pub init: String,
    pub add: Vec<(u64, String)>,
}

#[derive(Clone, Debug, Default, PartialEq, Eq, Hash)]
pub struct SymModel {
    /// FILE records
    pub files: Vec<(u32, String)>,
    /// INLINE_ORIGIN records at top level (before any FUNC)
    pub origins: Vec<(u32, String)>,
    pub funcs: Vec<FuncRec>,
    pub publics: Vec<PublicRec>,
    pub wins: Vec<WinRec>,
    pub cfis: Vec<CfiRec>,
}

pub const MODULE_LINE: &str = "MODULE Linux x86 000000000000000000000000000000000 m\n";

impl SymModel {
    /// Render in file order: MODULE, FILE*, INLINE_ORIGIN*, (FUNC block)*, PUBLIC*, STACK WIN*, STACK CFI*.
    pub fn to_text(&self) -> String {
        use std::fmt::Write;
        let mut t = String::with_capacity(256);
        t.push_str(MODULE_LINE);
        for (id, n) in &self.files {
            let _ = writeln!(t, "FILE {id} {n}");
        }
        for (id, n) in &self.origins {
            let _ = writeln!(t, "INLINE_ORIGIN {id} {n}");
        }
        for f in &self.funcs {
            let _ = writeln!(t, "FUNC {:x} {:x} {:x} {}", f.addr, f.size, f.param, f.name);
            for (id, n) in &f.origins_inside {
                let _ = writeln!(t, "INLINE_ORIGIN {id} {n}");
            }
            for i in &f.inlines {
                let _ = write!(t, "INLINE {} {} {} {}", i.depth, i.call_line, i.call_file, i.origin);
                for (a, s) in &i.ranges {
                    let _ = write!(t, " {a:x} {s:x}");
                }
                t.push('\n');
            }
            for l in &f.lines {
                let _ = writeln!(t, "{:x} {:x} {} {}", l.addr, l.size, l.line, l.file);
            }
        }
        for p in &self.publics {
            let _ = writeln!(t, "PUBLIC {:x} {:x} {}", p.addr, p.param, p.name);
        }
        for w in &self.wins {
            let has_program = if w.ty == 4 { 1 } else { 0 };
            let _ = writeln!(t, "STACK WIN {} {:x} {:x} 0 0 {:x} 0 0 0 {} {}", w.ty, w.addr, w.size, w.param, has_program, w.tail);
        }
        for c in &self.cfis {
            let _ = writeln!(t, "STACK CFI INIT {:x} {:x} {}", c.addr, c.size, c.init);
            for (a, r) in &c.add {
                let _ = writeln!(t, "STACK CFI {a:x} {r}");
            }
        }
        t
    }
}

/// Inclusive address range `[addr, addr+size-1]` by the rule the FUNC / STACK records document
/// (`size != 0` and `addr + size` representable), or `None`.
pub fn range_excl_end_checked(addr: u64, size: u64) -> Option<(u64, u64)> {
    if size == 0 {
        return None;
    }
    Some((addr, addr.checked_add(size)? - 1))
}

/// Inclusive address range `[addr, addr+size-1]` by the rule used for line records
/// (`size != 0` and the *last byte* representable), or `None`.
pub fn range_last_byte_checked(addr: u64, size: u64) -> Option<(u64, u64)> {
    if size == 0 {
        return None;
    }
    Some((addr, addr.checked_add(size - 1)?))
}

pub fn ranges_intersect(a: (u64, u64), b: (u64, u64)) -> bool {
    !(a.1 < b.0 || b.1 < a.0)
}
