//! E3 — explicit-state model of the streaming parse loop of `SymbolFile::parse` /
//! `parse_async` (breakpad-symbols/src/sym_file/mod.rs) together with the arithmetic of
//! `circular::Buffer` (consume / fill / shift / grow), transcribed from their sources.
//!
//! The line parser is abstracted to what `SymbolParser::parse_more` does with inputs made of
//! complete lines: "consume through the last newline in the window", failing if the consumed
//! span contains the start of a line the generator marked corrupt. Whether a line is corrupt
//! never depends on chunking (sub-line context is carried across calls by the real parser),
//! so the abstraction is exact for the generated inputs; this is what the conformance step
//! (replaying model schedules on the real parser, read by read) demonstrates.
//!
//! A schedule is the sequence of answers of the reader: for the synchronous `Read` loop one
//! number per read call (how many bytes it returns, 1..=min(space, remaining)); for the async
//! loop the sizes of the body chunks.

#[derive(Clone, Copy, Debug, PartialEq, Eq, Hash)]
pub struct Consts {
    pub init: usize,
    pub max: usize,
}
pub const SMALL: Consts = Consts { init: 16, max: 256 };
pub const REAL: Consts = Consts { init: 10 * 1024, max: 160 * 1024 };

#[derive(Clone, Debug, PartialEq, Eq, Hash, PartialOrd, Ord)]
pub enum Out {
    /// parse succeeded; `cb` = total bytes handed to the callback, `dropped` = over-long lines discarded
    Ok { cb: usize, dropped: usize },
    ErrEmpty,
    ErrEof { cb: usize },
    ErrParse { cb: usize },
}
impl Out {
    pub fn class(&self) -> &'static str {
        match self {
            Out::Ok { .. } => "Ok",
            Out::ErrEmpty => "Err(empty)",
            Out::ErrEof { .. } => "Err(unexpected EOF)",
            Out::ErrParse { .. } => "Err(parse)",
        }
    }
}

/// The input as the model sees it: the bytes (only newline positions matter) and the offset
/// of the first byte of the first corrupt line, if any.
#[derive(Clone, Debug)]
pub struct Input<'a> {
    pub data: &'a [u8],
    pub corrupt_at: Option<usize>,
}

#[derive(Clone, Hash, PartialEq, Eq, Debug)]
pub struct St {
    pub cap: usize,
    pub pos: usize,
    pub end: usize,
    pub fully: bool,
    pub tried: bool,
    pub rec: bool,
    pub justfin: bool,
    /// total_consumed (its value matters only as zero / non-zero and as the input offset of the window)
    pub total: usize,
    /// input cursor: bytes already copied into the buffer
    pub src: usize,
    pub cb: usize,
    pub dropped: usize,
    // async loop only: bytes left in the current chunk (sync: unused, 0)
    pub chunk_left: usize,
}

impl St {
    pub fn new(c: Consts) -> St {
        St { cap: c.init, pos: 0, end: 0, fully: false, tried: false, rec: false, justfin: false, total: 0, src: 0, cb: 0, dropped: 0, chunk_left: 0 }
    }
    // circular::Buffer::shift
    fn shift(&mut self) {
        if self.pos > 0 {
            let l = self.end - self.pos;
            self.pos = 0;
            self.end = l;
        }
    }
    // circular::Buffer::consume
    fn consume(&mut self, c: usize) {
        let c = c.min(self.end - self.pos);
        self.pos += c;
        if self.pos > self.cap / 2 {
            self.shift();
        }
    }
    // circular::Buffer::fill
    fn fill(&mut self, c: usize) {
        let c = c.min(self.cap - self.end);
        self.end += c;
        if self.cap - self.end < (self.end - self.pos) + c {
            self.shift();
        }
    }
    /// the bytes currently in the window are input[total .. total + (end-pos)]
    fn window<'a>(&self, inp: &Input<'a>) -> &'a [u8] {
        &inp.data[self.total..self.total + (self.end - self.pos)]
    }
    /// Phase A — top of the loop up to the read: the recovery step. Returns the space offered to the reader.
    pub fn pre(&mut self, inp: &Input, cbl: &mut Vec<usize>) -> usize {
        if self.rec {
            let d = self.window(inp);
            if let Some(i) = d.iter().position(|&b| b == b'\n') {
                let a = i + 1;
                self.cb += a;
                cbl.push(a);
                self.consume(a);
                self.total += a;
                self.rec = false;
                self.fully = self.end == self.pos;
                self.justfin = true;
                self.dropped += 1;
            } else {
                let a = d.len();
                self.cb += a;
                cbl.push(a);
                self.consume(a);
                self.total += a;
                self.fully = true;
            }
        }
        self.cap - self.end
    }
    /// Phase B — the reader returned `size` bytes. `Some(outcome)` when the loop returns.
    pub fn post(&mut self, c: Consts, inp: &Input, space: usize, size: usize, cbl: &mut Vec<usize>) -> Option<Out> {
        self.src += size;
        self.fill(size);
        if size == 0 {
            if self.justfin && self.end > self.pos {
                // fall through to normal parsing
            } else if self.fully {
                return Some(Out::Ok { cb: self.cb, dropped: self.dropped });
            } else if space == 0 && !self.tried {
                let nc = self.cap.saturating_mul(2);
                if nc > c.max {
                    self.rec = true;
                    return None;
                }
                self.cap = nc;
                self.tried = true;
                return None;
            } else if self.total == 0 {
                return Some(Out::ErrEmpty);
            } else {
                return Some(Out::ErrEof { cb: self.cb });
            }
        } else {
            self.tried = false;
        }
        if self.rec {
            return None;
        }
        self.justfin = false;
        let d = self.window(inp);
        let consumed = d.iter().rposition(|&b| b == b'\n').map(|i| i + 1).unwrap_or(0);
        if let Some(bad) = inp.corrupt_at {
            if bad >= self.total && bad < self.total + consumed {
                return Some(Out::ErrParse { cb: self.cb });
            }
        }
        self.total += consumed;
        self.cb += consumed;
        cbl.push(consumed);
        self.fully = d.len() == consumed;
        self.consume(consumed);
        None
    }
}

/// One read of the sync loop as the model logs it: (space offered, bytes returned).
pub type ReadLog = Vec<(usize, usize)>;

/// Run the sync model under a schedule: `plan[i]` caps the i-th read that was offered space
/// (`usize::MAX` = as much as fits); reads beyond the plan take as much as fits.
pub fn run_sync(c: Consts, inp: &Input, plan: &[usize]) -> (Out, ReadLog, Vec<usize>) {
    let mut s = St::new(c);
    let mut i = 0;
    let mut log = vec![];
    let mut cbl = vec![];
    loop {
        let space = s.pre(inp, &mut cbl);
        let lim = if space > 0 && i < plan.len() {
            let v = plan[i];
            i += 1;
            v
        } else {
            usize::MAX
        };
        let n = space.min(lim).min(inp.data.len() - s.src);
        log.push((space, n));
        if let Some(o) = s.post(c, inp, space, n, &mut cbl) {
            return (o, log, cbl);
        }
        assert!(log.len() < 10_000_000, "bufmodel: run_sync does not terminate");
    }
}

/// Run the async model: the body arrives in `chunks` (sizes; they must sum to the input length
/// and be non-zero). Each loop iteration refills from the next chunk when the current one is
/// exhausted (an exhausted body yields an empty chunk), then reads min(space, chunk_left).
pub fn run_async(c: Consts, inp: &Input, chunks: &[usize]) -> (Out, ReadLog, Vec<usize>) {
    let mut s = St::new(c);
    let mut next = 0;
    let mut log = vec![];
    let mut cbl = vec![];
    loop {
        let space = s.pre(inp, &mut cbl);
        if s.chunk_left == 0 && next < chunks.len() {
            s.chunk_left = chunks[next];
            next += 1;
        }
        let n = space.min(s.chunk_left);
        s.chunk_left -= n;
        log.push((space, n));
        if let Some(o) = s.post(c, inp, space, n, &mut cbl) {
            return (o, log, cbl);
        }
        assert!(log.len() < 10_000_000, "bufmodel: run_async does not terminate");
    }
}

#[derive(Default, Debug, Clone)]
pub struct SearchStats {
    pub states: u64,
    pub transitions: u64,
}

/// Memoised search over ALL schedules of the sync loop for one input. Returns, per distinct
/// terminal outcome, one witness schedule (sequence of read sizes) reaching it.
pub fn all_outcomes_sync(c: Consts, inp: &Input, stats: &mut SearchStats) -> Vec<(Out, Vec<usize>)> {
    use std::collections::{HashMap, HashSet};
    let mut seen: HashSet<St> = HashSet::new();
    let mut outs: HashMap<Out, Vec<usize>> = HashMap::new();
    // DFS with the path of read sizes leading to each state
    let mut stack: Vec<(St, Vec<usize>)> = vec![(St::new(c), vec![])];
    let mut cbl = vec![];
    while let Some((s0, path)) = stack.pop() {
        let mut s = s0;
        cbl.clear();
        let space = s.pre(inp, &mut cbl);
        if !seen.insert(s.clone()) {
            continue;
        }
        stats.states += 1;
        let maxn = space.min(inp.data.len() - s.src);
        let lo = if maxn == 0 { 0 } else { 1 };
        for n in lo..=maxn {
            let mut t = s.clone();
            stats.transitions += 1;
            let mut p = path.clone();
            if space > 0 {
                p.push(n);
            }
            match t.post(c, inp, space, n, &mut cbl) {
                Some(o) => {
                    outs.entry(o).or_insert(p);
                }
                None => stack.push((t, p)),
            }
        }
    }
    let mut v: Vec<(Out, Vec<usize>)> = outs.into_iter().collect();
    v.sort();
    v
}

/// Memoised search over ALL chunkings of the async loop (every composition of the input length).
pub fn all_outcomes_async(c: Consts, inp: &Input, stats: &mut SearchStats) -> Vec<(Out, Vec<usize>)> {
    use std::collections::{HashMap, HashSet};
    let mut seen: HashSet<St> = HashSet::new();
    let mut outs: HashMap<Out, Vec<usize>> = HashMap::new();
    let mut stack: Vec<(St, Vec<usize>)> = vec![(St::new(c), vec![])];
    let total_len = inp.data.len();
    let mut cbl = vec![];
    while let Some((s0, path)) = stack.pop() {
        let mut s = s0;
        cbl.clear();
        let space = s.pre(inp, &mut cbl);
        if !seen.insert(s.clone()) {
            continue;
        }
        stats.states += 1;
        // bytes of the input not yet assigned to a chunk
        let assigned: usize = path.iter().sum();
        let choices: Vec<usize> = if s.chunk_left == 0 && assigned < total_len { (1..=total_len - assigned).collect() } else { vec![0] };
        for ch in choices {
            let mut t = s.clone();
            let mut p = path.clone();
            if ch > 0 {
                t.chunk_left = ch;
                p.push(ch);
            }
            let n = space.min(t.chunk_left);
            t.chunk_left -= n;
            stats.transitions += 1;
            match t.post(c, inp, space, n, &mut cbl) {
                Some(o) => {
                    outs.entry(o).or_insert(p);
                }
                None => stack.push((t, p)),
            }
        }
    }
    let mut v: Vec<(Out, Vec<usize>)> = outs.into_iter().collect();
    v.sort();
    v
}
