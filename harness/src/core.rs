//! Common machinery: case spaces, in-process parallel runner, sandboxed worker pool,
//! panic/hang/alloc monitors, violation signatures, known findings, evidence, replay.
//!
//! Exit codes of every check binary: 0 = property held on everything explored (or only
//! known findings), 1 = VIOLATION line printed, 2 = machinery error (never a verdict).
use serde_json::{json, Map, Value};
use std::cell::RefCell;
use std::collections::{BTreeMap, HashSet, VecDeque};
use std::hash::{Hash, Hasher};
use std::io::{BufRead, BufReader, Write};
use std::panic::{catch_unwind, AssertUnwindSafe};
use std::sync::atomic::{AtomicBool, AtomicU64, Ordering::SeqCst};
use std::sync::{Arc, Mutex};
use std::time::{Duration, Instant};

pub const VERIF_ROOT: &str = "/verif";
pub const REPO_ROOT: &str = "/repo";

#[derive(Clone, Copy, PartialEq, Eq, Debug)]
pub enum Tier {
    Quick,
    Thorough,
}
impl Tier {
    pub fn name(self) -> &'static str {
        match self {
            Tier::Quick => "quick",
            Tier::Thorough => "thorough",
        }
    }
    pub fn pick<T>(self, q: T, t: T) -> T {
        match self {
            Tier::Quick => q,
            Tier::Thorough => t,
        }
    }
}

pub struct Ctx {
    pub tier: Tier,
    pub seed: u64,
}

// ---------------------------------------------------------------------------------------------
// panic capture

#[derive(Clone, Debug)]
pub struct PanicInfo {
    pub file: String,
    pub line: u32,
    pub msg: String,
}
thread_local! {
    static LAST_PANIC: RefCell<Option<PanicInfo>> = const { RefCell::new(None) };
}
pub fn install_panic_hook() {
    std::panic::set_hook(Box::new(|i| {
        let (file, line) = i.location().map(|l| (l.file().to_string(), l.line())).unwrap_or_default();
        let msg = i
            .payload()
            .downcast_ref::<String>()
            .cloned()
            .or_else(|| i.payload().downcast_ref::<&str>().map(|s| s.to_string()))
            .unwrap_or_else(|| "<non-string payload>".into());
        if std::env::var_os("VERIF_DEBUG").is_some() {
            eprintln!("[panic] {file}:{line}: {msg}");
        }
        LAST_PANIC.with(|p| *p.borrow_mut() = Some(PanicInfo { file, line, msg }));
    }));
}
/// Run `f`, converting a panic into `Err(PanicInfo)`.
pub fn guard<T>(f: impl FnOnce() -> T) -> Result<T, PanicInfo> {
    LAST_PANIC.with(|p| *p.borrow_mut() = None);
    match catch_unwind(AssertUnwindSafe(f)) {
        Ok(v) => Ok(v),
        Err(_) => Err(LAST_PANIC
            .with(|p| p.borrow_mut().take())
            .unwrap_or(PanicInfo { file: "?".into(), line: 0, msg: "?".into() })),
    }
}
fn rel_source(file: &str) -> String {
    if let Some(r) = file.strip_prefix("/repo/") {
        return r.to_string();
    }
    if let Ok(root) = std::env::var("VERIF_REPO_ROOT") {
        if let Some(r) = file.strip_prefix(&format!("{root}/")) {
            return r.to_string();
        }
    }
    if let Some(p) = file.find("/registry/src/") {
        // registry crate: keep "<crate-version>/src/..."
        let rest = &file[p + "/registry/src/".len()..];
        if let Some(s) = rest.find('/') {
            return format!("registry:{}", &rest[s + 1..]);
        }
    }
    file.to_string()
}
fn source_line_text(file: &str, line: u32) -> String {
    let root = std::env::var("VERIF_REPO_ROOT").unwrap_or_else(|_| REPO_ROOT.to_string());
    let cands = [file.to_string(), format!("{root}/{file}")];
    for c in cands {
        if let Ok(s) = std::fs::read_to_string(&c) {
            let lines: Vec<&str> = s.lines().collect();
            let i = line.saturating_sub(1) as usize;
            if let Some(l) = lines.get(i) {
                let norm = |x: &str| x.split_whitespace().collect::<Vec<_>>().join(" ");
                let mut t = norm(l);
                // a short line (`.unwrap(),`, `unimplemented!();`) does not identify a site: add context
                let mut j = i;
                while t.len() < 40 && j > 0 {
                    j -= 1;
                    let p = norm(lines[j]);
                    if !p.is_empty() {
                        t = format!("{p} {t}");
                    }
                }
                return t;
            }
        }
    }
    format!("line {line}")
}
/// Signature of a panic: where it is, by source text (robust to line drift), not the input.
pub fn panic_signature(p: &PanicInfo) -> String {
    format!("panic@{}:`{}`", rel_source(&p.file), source_line_text(&p.file, p.line))
}

// ---------------------------------------------------------------------------------------------
// per-worker accumulator

#[derive(Clone, Debug)]
pub struct Violation {
    pub sig: String,
    pub what: String,
    pub space: String,
    pub idx: u64,
    pub detail: Value,
    pub count: u64,
}

#[derive(Default)]
pub struct Local {
    pub evals: u64,
    pub distinct: HashSet<u64>,
    pub outcomes: BTreeMap<String, u64>,
    pub counters: BTreeMap<String, u64>,
    pub violations: Vec<Violation>,
    pub space: String,
    pub idx: u64,
}
pub fn hash_of<T: Hash>(t: &T) -> u64 {
    // fixed-key hasher: deterministic across runs and processes
    #[allow(deprecated)]
    let mut h = std::hash::SipHasher::new_with_keys(0x7665_7269, 0x6630_3031);
    t.hash(&mut h);
    h.finish()
}
impl Local {
    pub fn eval(&mut self) {
        self.evals += 1;
    }
    pub fn evals(&mut self, n: u64) {
        self.evals += n;
    }
    /// Record a distinct non-trivial case key (by the check's stated rule).
    pub fn distinct<T: Hash>(&mut self, key: &T) {
        self.distinct.insert(hash_of(key));
    }
    /// Count an observed outcome class (small label set; printed and put in the evidence).
    pub fn outcome(&mut self, label: &str) {
        *self.outcomes.entry(label.to_string()).or_insert(0) += 1;
    }
    pub fn count(&mut self, name: &str, n: u64) {
        *self.counters.entry(name.to_string()).or_insert(0) += n;
    }
    pub fn violation(&mut self, sig: impl Into<String>, what: impl Into<String>, detail: Value) {
        let sig = sig.into();
        if let Some(v) = self.violations.iter_mut().find(|v| v.sig == sig) {
            v.count += 1;
            return;
        }
        self.violations.push(Violation {
            sig,
            what: what.into(),
            space: self.space.clone(),
            idx: self.idx,
            detail,
            count: 1,
        });
    }
    pub fn panic_violation(&mut self, p: &PanicInfo, detail: Value) {
        let sig = panic_signature(p);
        let what = format!("panic at {}:{}: {}", rel_source(&p.file), p.line, p.msg.chars().take(160).collect::<String>());
        self.violation(sig, what, detail);
    }
    fn merge(&mut self, o: Local) {
        self.evals += o.evals;
        self.distinct.extend(o.distinct);
        for (k, v) in o.outcomes {
            *self.outcomes.entry(k).or_insert(0) += v;
        }
        for (k, v) in o.counters {
            *self.counters.entry(k).or_insert(0) += v;
        }
        for v in o.violations {
            self.merge_violation(v);
        }
    }
    fn merge_violation(&mut self, v: Violation) {
        if let Some(e) = self.violations.iter_mut().find(|e| e.sig == v.sig) {
            e.count += v.count;
            // keep the earliest case as witness (deterministic across worker counts)
            if (v.space.as_str(), v.idx) < (e.space.as_str(), e.idx) && v.space == e.space {
                e.idx = v.idx;
                e.what = v.what;
                e.detail = v.detail;
            }
        } else {
            self.violations.push(v);
        }
    }
    fn to_json(&self) -> Value {
        json!({
            "evals": self.evals,
            "distinct": self.distinct.iter().collect::<Vec<_>>(),
            "outcomes": self.outcomes,
            "counters": self.counters,
            "violations": self.violations.iter().map(|v| json!({"sig": v.sig, "what": v.what, "space": v.space, "idx": v.idx, "detail": v.detail, "count": v.count})).collect::<Vec<_>>(),
        })
    }
    fn from_json(v: &Value) -> Local {
        let mut l = Local::default();
        l.evals = v["evals"].as_u64().unwrap_or(0);
        for d in v["distinct"].as_array().into_iter().flatten() {
            l.distinct.insert(d.as_u64().unwrap_or(0));
        }
        for (k, n) in v["outcomes"].as_object().into_iter().flatten() {
            l.outcomes.insert(k.clone(), n.as_u64().unwrap_or(0));
        }
        for (k, n) in v["counters"].as_object().into_iter().flatten() {
            l.counters.insert(k.clone(), n.as_u64().unwrap_or(0));
        }
        for x in v["violations"].as_array().into_iter().flatten() {
            l.violations.push(Violation {
                sig: x["sig"].as_str().unwrap_or("").into(),
                what: x["what"].as_str().unwrap_or("").into(),
                space: x["space"].as_str().unwrap_or("").into(),
                idx: x["idx"].as_u64().unwrap_or(0),
                detail: x["detail"].clone(),
                count: x["count"].as_u64().unwrap_or(1),
            });
        }
        l
    }
}

// ---------------------------------------------------------------------------------------------
// spaces and checks

#[derive(Clone, Copy)]
pub struct Sandbox {
    /// wall budget per case, milliseconds (hang => violation)
    pub wall_ms: u64,
    /// hard cap on live heap bytes inside the worker (exceeding it => violation "alloc")
    pub hard_cap: usize,
    /// cases per work unit handed to a worker
    pub chunk: u64,
}

pub type RunFn = Arc<dyn Fn(u64, &mut Local) + Send + Sync>;
pub type DescFn = Arc<dyn Fn(u64) -> Value + Send + Sync>;

pub struct Space {
    pub name: String,
    pub len: u64,
    pub run: RunFn,
    pub describe: DescFn,
    /// None: in-process threads; Some: monitored child processes
    pub sandbox: Option<Sandbox>,
    /// in-process wall budget per case (ms); a case over budget is reported as a hang
    pub wall_ms: u64,
    /// in-process chunk size
    pub chunk: u64,
}
impl Space {
    pub fn new(
        name: &str,
        len: u64,
        run: impl Fn(u64, &mut Local) + Send + Sync + 'static,
        describe: impl Fn(u64) -> Value + Send + Sync + 'static,
    ) -> Space {
        Space { name: name.into(), len, run: Arc::new(run), describe: Arc::new(describe), sandbox: None, wall_ms: 20_000, chunk: 0 }
    }
    pub fn sandboxed(mut self, sb: Sandbox) -> Space {
        self.sandbox = Some(sb);
        self
    }
    pub fn wall(mut self, ms: u64) -> Space {
        self.wall_ms = ms;
        self
    }
    pub fn chunked(mut self, c: u64) -> Space {
        self.chunk = c;
        self
    }
}

pub struct CheckDef {
    pub id: &'static str,
    /// exploration | fault_enumeration | model_checking
    pub level: &'static str,
    pub rule: String,
    pub assumptions: Vec<String>,
    pub spaces: Vec<Space>,
    /// true when the run enumerates its finite spaces completely (no cap hit)
    pub exhaustive: bool,
    /// extra keys merged into coverage (e.g. bounds)
    pub extra: Map<String, Value>,
    /// called after all spaces ran, with the merged accumulator; may add coverage keys
    /// (states, transitions, ...) or violations that need a global view.
    pub finish: Option<Box<dyn FnOnce(&mut Local, &mut Map<String, Value>)>>,
}
impl CheckDef {
    pub fn new(id: &'static str, level: &'static str, rule: &str) -> CheckDef {
        CheckDef { id, level, rule: rule.into(), assumptions: vec![], spaces: vec![], exhaustive: true, extra: Map::new(), finish: None }
    }
}

fn ncpu() -> usize {
    if let Ok(v) = std::env::var("VERIF_JOBS") {
        if let Ok(n) = v.parse::<usize>() {
            return n.max(1);
        }
    }
    std::thread::available_parallelism().map(|n| n.get()).unwrap_or(4)
}
fn now_ms() -> u64 {
    static T0: std::sync::OnceLock<Instant> = std::sync::OnceLock::new();
    T0.get_or_init(Instant::now).elapsed().as_millis() as u64 + 1
}

fn run_one(space: &Space, idx: u64, l: &mut Local) {
    l.space = space.name.clone();
    l.idx = idx;
    let run = space.run.clone();
    if let Err(p) = guard(|| run(idx, l)) {
        // a panic that escaped the check's own guards: still a verdict about the code under
        // test only if it comes from /repo; harness panics are machinery errors.
        if p.file.starts_with("src/") && !std::path::Path::new(&format!("{REPO_ROOT}/{}", p.file)).exists() || p.file.contains("/verif/") {
            eprintln!("MACHINERY: harness panic at {}:{}: {} (space {} idx {})", p.file, p.line, p.msg, space.name, idx);
            std::process::exit(2);
        }
        l.panic_violation(&p, json!({"escaped": true}));
    }
}

// -------------------------------- in-process runner

/// CPU time consumed so far by the calling thread, in milliseconds.
fn thread_cpu_ms() -> u64 {
    let mut ts = libc::timespec { tv_sec: 0, tv_nsec: 0 };
    unsafe { libc::clock_gettime(libc::CLOCK_THREAD_CPUTIME_ID, &mut ts) };
    ts.tv_sec as u64 * 1000 + ts.tv_nsec as u64 / 1_000_000
}
/// CPU time of another thread through its CPU-time clock id.
fn clock_cpu_ms(clock: libc::clockid_t) -> Option<u64> {
    let mut ts = libc::timespec { tv_sec: 0, tv_nsec: 0 };
    if unsafe { libc::clock_gettime(clock, &mut ts) } != 0 {
        return None;
    }
    Some(ts.tv_sec as u64 * 1000 + ts.tv_nsec as u64 / 1_000_000)
}
fn process_cpu_ms() -> u64 {
    let mut ts = libc::timespec { tv_sec: 0, tv_nsec: 0 };
    unsafe { libc::clock_gettime(libc::CLOCK_PROCESS_CPUTIME_ID, &mut ts) };
    ts.tv_sec as u64 * 1000 + ts.tv_nsec as u64 / 1_000_000
}
/// A case is a hang when it has burnt its budget in CPU time (immune to machine load) or, as a
/// backstop for a blocked thread, when 15x the budget has passed on the wall clock.
const WALL_BACKSTOP: u64 = 15;

struct Slot {
    start_ms: AtomicU64,
    start_cpu_ms: AtomicU64,
    cpu_clock: AtomicU64,
    idx: AtomicU64,
}

fn run_inprocess(space: &Space, hang: &Mutex<Option<(String, u64)>>, on_hang: &dyn Fn(u64, Local)) -> Local {
    let n = ncpu().min(space.len.max(1) as usize);
    let chunk = if space.chunk > 0 { space.chunk } else { (space.len / (n as u64 * 16)).clamp(1, 4096) };
    let next = AtomicU64::new(0);
    let slots: Vec<Slot> = (0..n).map(|_| Slot { start_ms: AtomicU64::new(0), start_cpu_ms: AtomicU64::new(0), cpu_clock: AtomicU64::new(u64::MAX), idx: AtomicU64::new(0) }).collect();
    let done = AtomicBool::new(false);
    let mut total = Local::default();
    std::thread::scope(|s| {
        // watchdog
        s.spawn(|| {
            while !done.load(SeqCst) {
                std::thread::sleep(Duration::from_millis(100));
                let now = now_ms();
                for sl in &slots {
                    let st = sl.start_ms.load(SeqCst);
                    if st == 0 {
                        continue;
                    }
                    let clk = sl.cpu_clock.load(SeqCst);
                    let cpu_used = if clk != u64::MAX { clock_cpu_ms(clk as libc::clockid_t).map(|c| c.saturating_sub(sl.start_cpu_ms.load(SeqCst))) } else { None };
                    // re-read: the case may have ended (and another begun) while we looked at the clock
                    if sl.start_ms.load(SeqCst) != st {
                        continue;
                    }
                    let over_cpu = cpu_used.is_some_and(|c| c > space.wall_ms);
                    let over_wall = now.saturating_sub(st) > space.wall_ms.saturating_mul(if cpu_used.is_some() { WALL_BACKSTOP } else { 1 });
                    if over_cpu || over_wall {
                        *hang.lock().unwrap() = Some((space.name.clone(), sl.idx.load(SeqCst)));
                        done.store(true, SeqCst);
                        return;
                    }
                }
            }
        });
        let handles: Vec<_> = (0..n)
            .map(|t| {
                let next = &next;
                let slots = &slots;
                let done = &done;
                std::thread::Builder::new()
                    .stack_size(64 << 20)
                    .spawn_scoped(s, move || {
                        let mut l = Local::default();
                        {
                            let mut clk: libc::clockid_t = 0;
                            if unsafe { libc::pthread_getcpuclockid(libc::pthread_self(), &mut clk) } == 0 {
                                slots[t].cpu_clock.store(clk as u64, SeqCst);
                            }
                        }
                        loop {
                            let lo = next.fetch_add(chunk, SeqCst);
                            if lo >= space.len || done.load(SeqCst) {
                                break;
                            }
                            let hi = (lo + chunk).min(space.len);
                            for i in lo..hi {
                                slots[t].idx.store(i, SeqCst);
                                slots[t].start_cpu_ms.store(thread_cpu_ms(), SeqCst);
                                slots[t].start_ms.store(now_ms(), SeqCst);
                                run_one(space, i, &mut l);
                                slots[t].start_ms.store(0, SeqCst);
                            }
                        }
                        l
                    })
                    .unwrap()
            })
            .collect();
        // poll for completion or hang
        let mut hs: Vec<Option<std::thread::ScopedJoinHandle<Local>>> = handles.into_iter().map(Some).collect();
        loop {
            let mut all = true;
            for h in hs.iter_mut() {
                if let Some(j) = h {
                    if j.is_finished() {
                        match h.take().unwrap().join() {
                            Ok(l) => total.merge(l),
                            Err(_) => {
                                eprintln!("MACHINERY: worker thread died");
                                std::process::exit(2);
                            }
                        }
                    } else {
                        all = false;
                    }
                }
            }
            if all {
                break;
            }
            let hung = hang.lock().unwrap().clone();
            if let Some((_, idx)) = hung {
                // a stuck thread cannot be joined (and the scope cannot be left): the caller's
                // handler writes the report and exits the process from here
                on_hang(idx, std::mem::take(&mut total));
                unreachable!("on_hang returns only by exiting");
            }
            std::thread::sleep(Duration::from_millis(5));
        }
        done.store(true, SeqCst);
    });
    total
}

// -------------------------------- sandbox: worker side

fn worker_main(def: &CheckDef, space_name: &str) -> ! {
    let space = def.spaces.iter().find(|s| s.name == space_name).unwrap_or_else(|| {
        eprintln!("MACHINERY: worker: no space {space_name}");
        std::process::exit(2)
    });
    let sb = space.sandbox.expect("sandbox cfg");
    crate::alloc::enable();
    static CASE_START: AtomicU64 = AtomicU64::new(0);
    static CASE_START_CPU: AtomicU64 = AtomicU64::new(0);
    // the confirming re-run of a suspected hang gets a multiple of the budget (VERIF_WALL_SCALE)
    let scale: u64 = std::env::var("VERIF_WALL_SCALE").ok().and_then(|v| v.parse().ok()).unwrap_or(1);
    let wall = sb.wall_ms * scale.max(1);
    std::thread::spawn(move || loop {
        std::thread::sleep(Duration::from_millis(20));
        let st = CASE_START.load(SeqCst);
        if st == 0 {
            continue;
        }
        // CPU time of the whole worker since the case began (the watchdog itself sleeps): load-proof;
        // the wall clock is only a backstop for a blocked case
        let cpu = process_cpu_ms().saturating_sub(CASE_START_CPU.load(SeqCst));
        if CASE_START.load(SeqCst) != st {
            continue;
        }
        if cpu > wall || now_ms().saturating_sub(st) > wall.saturating_mul(WALL_BACKSTOP) {
            crate::alloc::die_status("HANG", crate::alloc::CUR_IDX.load(SeqCst), 0, 0, 3);
        }
    });
    let stdin = std::io::stdin();
    let mut out = std::io::stdout();
    for line in stdin.lock().lines() {
        let line = line.unwrap_or_default();
        let mut it = line.split_whitespace();
        let lo: u64 = it.next().and_then(|x| x.parse().ok()).unwrap_or(0);
        let hi: u64 = it.next().and_then(|x| x.parse().ok()).unwrap_or(0);
        let trace = it.next() == Some("trace");
        let mut l = Local::default();
        crate::alloc::set_hard_cap(crate::alloc::live().saturating_add(sb.hard_cap));
        for i in lo..hi {
            if trace {
                let _ = writeln!(out, "S {i}");
                let _ = out.flush();
            }
            crate::alloc::CUR_IDX.store(i, SeqCst);
            CASE_START_CPU.store(process_cpu_ms(), SeqCst);
            CASE_START.store(now_ms(), SeqCst);
            run_one(space, i, &mut l);
            CASE_START.store(0, SeqCst);
        }
        crate::alloc::set_hard_cap(usize::MAX);
        let _ = writeln!(out, "R {}", l.to_json());
        let _ = out.flush();
    }
    std::process::exit(0);
}

// -------------------------------- sandbox: parent side

enum ChildEnd {
    Done(Local),
    Died { idx: u64, kind: String, detail: Value },
    Unknown(String),
}

struct Child {
    proc: std::process::Child,
    stdin: std::process::ChildStdin,
    stdout: BufReader<std::process::ChildStdout>,
}
fn spawn_child(id_args: &[String], space: &str) -> Child {
    spawn_child_scaled(id_args, space, 1)
}
fn spawn_child_scaled(id_args: &[String], space: &str, wall_scale: u64) -> Child {
    let exe = std::env::current_exe().expect("current_exe");
    let mut p = std::process::Command::new(exe)
        .env("VERIF_WALL_SCALE", wall_scale.to_string())
        .arg("--worker")
        .arg(space)
        .args(id_args)
        .stdin(std::process::Stdio::piped())
        .stdout(std::process::Stdio::piped())
        .stderr(std::process::Stdio::inherit())
        .spawn()
        .expect("spawn worker");
    let stdin = p.stdin.take().unwrap();
    let stdout = BufReader::new(p.stdout.take().unwrap());
    Child { proc: p, stdin, stdout }
}
fn run_range(c: &mut Child, lo: u64, hi: u64, trace: bool) -> ChildEnd {
    if writeln!(c.stdin, "{lo} {hi}{}", if trace { " trace" } else { "" }).is_err() || c.stdin.flush().is_err() {
        return ChildEnd::Unknown("write to worker failed".into());
    }
    let mut last_s: Option<u64> = None;
    let mut line = String::new();
    loop {
        line.clear();
        match c.stdout.read_line(&mut line) {
            Ok(0) | Err(_) => {
                let st = c.proc.wait().ok();
                let desc = format!("{st:?}");
                if let (true, Some(i)) = (trace, last_s) {
                    return ChildEnd::Died { idx: i, kind: "crash".into(), detail: json!({"exit": desc}) };
                }
                return ChildEnd::Unknown(desc);
            }
            Ok(_) => {}
        }
        let t = line.trim_end();
        if let Some(j) = t.strip_prefix("R ") {
            return match serde_json::from_str::<Value>(j) {
                Ok(v) => ChildEnd::Done(Local::from_json(&v)),
                Err(e) => ChildEnd::Unknown(format!("bad result line: {e}")),
            };
        } else if let Some(r) = t.strip_prefix("S ") {
            last_s = r.trim().parse().ok();
        } else if let Some(r) = t.strip_prefix("HANG ") {
            let idx = r.split_whitespace().next().and_then(|x| x.parse().ok()).unwrap_or(lo);
            let _ = c.proc.wait();
            return ChildEnd::Died { idx, kind: "hang".into(), detail: json!({}) };
        } else if let Some(r) = t.strip_prefix("ALLOC ") {
            let v: Vec<u64> = r.split_whitespace().filter_map(|x| x.parse().ok()).collect();
            let _ = c.proc.wait();
            return ChildEnd::Died {
                idx: v.first().copied().unwrap_or(lo),
                kind: "alloc".into(),
                detail: json!({"request_bytes": v.get(1), "live_bytes": v.get(2)}),
            };
        }
        // anything else: stray output of the code under test; ignore
    }
}

fn run_sandboxed(def: &CheckDef, space: &Space, pass_args: &[String]) -> Local {
    let sb = space.sandbox.unwrap();
    let n = ncpu().min(((space.len + sb.chunk - 1) / sb.chunk.max(1)).max(1) as usize);
    let queue: Mutex<VecDeque<(u64, u64)>> = Mutex::new(VecDeque::new());
    {
        let mut q = queue.lock().unwrap();
        let mut lo = 0;
        while lo < space.len {
            let hi = (lo + sb.chunk.max(1)).min(space.len);
            q.push_back((lo, hi));
            lo = hi;
        }
    }
    let total = Mutex::new(Local::default());
    let _ = def;
    // every confirmed hang costs the wall budget several times over: after a few process deaths the verdict
    // is established and the rest of this space is abandoned (recorded in the counters)
    let deaths = AtomicU64::new(0);
    const MAX_DEATHS: u64 = 12;
    std::thread::scope(|s| {
        for _ in 0..n {
            s.spawn(|| {
                let mut child = spawn_child(pass_args, &space.name);
                loop {
                    if deaths.load(SeqCst) >= MAX_DEATHS {
                        let mut q = queue.lock().unwrap();
                        let left: u64 = q.iter().map(|(a, b)| b - a).sum();
                        q.clear();
                        drop(q);
                        if left > 0 {
                            let mut st = Local::default();
                            st.count("cases_abandoned_after_repeated_process_deaths", left);
                            total.lock().unwrap().merge(st);
                        }
                        break;
                    }
                    let Some((lo, hi)) = queue.lock().unwrap().pop_front() else { break };
                    match run_range(&mut child, lo, hi, false) {
                        ChildEnd::Done(l) => total.lock().unwrap().merge(l),
                        ChildEnd::Died { idx, kind, detail } => {
                            let mut l = Local::default();
                            // a wall-clock hang verdict is confirmed by running the case once more, alone, in a
                            // fresh worker: on a loaded machine a global stall can exceed the budget of a fast case
                            if kind == "hang" {
                                let mut c2 = spawn_child_scaled(pass_args, &space.name, 4);
                                if let ChildEnd::Done(l2) = run_range(&mut c2, idx, idx + 1, false) {
                                    total.lock().unwrap().merge(l2);
                                    let mut st = Local::default();
                                    st.count("stalls_not_reproduced", 1);
                                    total.lock().unwrap().merge(st);
                                    let mut q = queue.lock().unwrap();
                                    if idx + 1 < hi {
                                        q.push_front((idx + 1, hi));
                                    }
                                    if idx > lo {
                                        q.push_front((lo, idx));
                                    }
                                    drop(q);
                                    drop(c2.stdin);
                                    let _ = c2.proc.wait();
                                    child = spawn_child(pass_args, &space.name);
                                    continue;
                                }
                                let _ = c2.proc.kill();
                                let _ = c2.proc.wait();
                            }
                            deaths.fetch_add(1, SeqCst);
                            // what the dead worker had accumulated for [lo, idx) is lost: re-run that part
                            // (it completes: those cases already passed once and cases are deterministic)
                            l.evals = 1;
                            if idx > lo {
                                queue.lock().unwrap().push_front((lo, idx));
                            }
                            l.space = space.name.clone();
                            l.idx = idx;
                            let what = format!("{kind} in sandboxed worker on case {idx} of space {}", space.name);
                            // signature for hang/alloc is refined by the check's own describe()
                            // (case class); the generic part is the kind.
                            let d = (space.describe)(idx);
                            let class = d.get("class").and_then(|c| c.as_str()).unwrap_or("").to_string();
                            l.violation(format!("{kind}@{class}"), what, json!({"monitor": detail, "case": d}));
                            total.lock().unwrap().merge(l);
                            if idx + 1 < hi {
                                queue.lock().unwrap().push_front((idx + 1, hi));
                            }
                            child = spawn_child(pass_args, &space.name);
                        }
                        ChildEnd::Unknown(desc) => {
                            // died without a status record (signal / abort): find the case by tracing
                            let mut tchild = spawn_child(pass_args, &space.name);
                            match run_range(&mut tchild, lo, hi, true) {
                                ChildEnd::Done(l) => {
                                    // not reproducible: machinery problem, not a verdict
                                    eprintln!("MACHINERY: worker died ({desc}) on [{lo},{hi}) of {} but the traced re-run completed", space.name);
                                    total.lock().unwrap().merge(l);
                                    let _ = tchild.proc.kill();
                                    std::process::exit(2);
                                }
                                ChildEnd::Died { idx, kind, detail } => {
                                    deaths.fetch_add(1, SeqCst);
                                    let mut l = Local::default();
                                    l.evals = 1;
                                    if idx > lo {
                                        queue.lock().unwrap().push_front((lo, idx));
                                    }
                                    l.space = space.name.clone();
                                    l.idx = idx;
                                    let d = (space.describe)(idx);
                                    let class = d.get("class").and_then(|c| c.as_str()).unwrap_or("").to_string();
                                    l.violation(format!("{kind}@{class}"), format!("{kind} (process death {desc}) on case {idx} of space {}", space.name), json!({"monitor": detail, "case": d}));
                                    total.lock().unwrap().merge(l);
                                    if idx + 1 < hi {
                                        queue.lock().unwrap().push_front((idx + 1, hi));
                                    }
                                }
                                ChildEnd::Unknown(d2) => {
                                    eprintln!("MACHINERY: worker died twice without status ({desc}; {d2}) on [{lo},{hi}) of {}", space.name);
                                    std::process::exit(2);
                                }
                            }
                            child = spawn_child(pass_args, &space.name);
                        }
                    }
                }
                drop(child.stdin);
                let _ = child.proc.wait();
            });
        }
    });
    total.into_inner().unwrap()
}

// ---------------------------------------------------------------------------------------------
// known findings

#[derive(Clone, Debug)]
pub struct Known {
    pub property: String,
    pub signature: String,
    pub status: String,
    pub what: String,
}
pub fn load_known(prop: &str) -> Vec<Known> {
    let p = format!("{VERIF_ROOT}/known_findings.json");
    let Ok(s) = std::fs::read_to_string(&p) else { return vec![] };
    let v: Value = match serde_json::from_str(&s) {
        Ok(v) => v,
        Err(e) => {
            eprintln!("MACHINERY: {p} does not parse: {e}");
            std::process::exit(2);
        }
    };
    v["findings"]
        .as_array()
        .into_iter()
        .flatten()
        .filter(|f| f["property"].as_str() == Some(prop))
        .map(|f| Known {
            property: prop.into(),
            signature: f["signature"].as_str().unwrap_or("").into(),
            status: f["status"].as_str().unwrap_or("").into(),
            what: f["what"].as_str().unwrap_or("").into(),
        })
        .collect()
}

// ---------------------------------------------------------------------------------------------
// main entry

pub fn usage(id: &str) -> ! {
    eprintln!("usage: {id} quick|thorough | replay <file>");
    std::process::exit(2)
}

/// Entry point of every check binary. `build` constructs the (deterministic) case spaces
/// for the tier; it is called identically in the parent and in sandbox workers.
pub fn run_check(id: &'static str, build: impl FnOnce(&Ctx) -> CheckDef) -> ! {
    install_panic_hook();
    let args: Vec<String> = std::env::args().skip(1).collect();
    let seed: u64 = std::env::var("VERIF_SEED").ok().and_then(|s| s.parse::<i64>().ok()).map(|v| v as u64).unwrap_or(0);
    let (mode, rest): (String, Vec<String>) = if args.first().map(|s| s.as_str()) == Some("--worker") {
        ("worker".into(), args[1..].to_vec())
    } else {
        (args.first().cloned().or_else(|| std::env::var("VERIF_TIER").ok()).unwrap_or_else(|| "quick".into()), args.get(1..).map(|x| x.to_vec()).unwrap_or_default())
    };
    match mode.as_str() {
        "worker" => {
            let space = rest.first().cloned().unwrap_or_default();
            let tier = if rest.get(1).map(|s| s.as_str()) == Some("thorough") { Tier::Thorough } else { Tier::Quick };
            let ctx = Ctx { tier, seed };
            let def = build(&ctx);
            worker_main(&def, &space)
        }
        "quick" | "thorough" => {
            let tier = if mode == "thorough" { Tier::Thorough } else { Tier::Quick };
            let ctx = Ctx { tier, seed };
            let t0 = Instant::now();
            let def = match guard(|| build(&ctx)) {
                Ok(d) => d,
                Err(p) => {
                    eprintln!("MACHINERY: building the case spaces of {id} panicked at {}:{}: {}", p.file, p.line, p.msg);
                    std::process::exit(2);
                }
            };
            run_all(id, def, &ctx, t0)
        }
        "replay" => {
            let path = rest.first().cloned().unwrap_or_else(|| usage(id));
            replay(id, build, &path, seed)
        }
        _ => usage(id),
    }
}

fn sample_indices(len: u64) -> Vec<u64> {
    let mut v = vec![0, len / 4, len / 2, (len / 4) * 3, len.saturating_sub(1)];
    v.retain(|&i| i < len);
    v.sort();
    v.dedup();
    v
}

fn run_all(id: &'static str, mut def: CheckDef, ctx: &Ctx, t0: Instant) -> ! {
    let mut total = Local::default();
    let hang: Mutex<Option<(String, u64)>> = Mutex::new(None);
    let mut per_space = vec![];
    let pass_args = vec![ctx.tier.name().to_string()];
    let mut samples: Vec<Value> = vec![];
    let prev_total: Mutex<Option<Local>> = Mutex::new(None);
    for sp in &def.spaces {
        let ts = Instant::now();
        *prev_total.lock().unwrap() = Some(std::mem::take(&mut total));
        let on_hang = |idx: u64, partial: Local| {
            // report the hang with what has been gathered so far and leave (threads are stuck)
            let mut t = Local::default();
            t.merge(partial);
            if let Some(prev) = prev_total.lock().unwrap().take() {
                t.merge(prev);
            }
            let d = (sp.describe)(idx);
            t.space = sp.name.clone();
            t.idx = idx;
            let class = d.get("class").and_then(|c| c.as_str()).unwrap_or("").to_string();
            t.violation(format!("hang@{class}"), format!("case {idx} of space {} exceeded its wall budget of {} ms", sp.name, sp.wall_ms), json!({"case": d}));
            let samples = vec![json!({"space": sp.name, "index": idx, "case": (sp.describe)(idx)})];
            let hdef = CheckDef { id: def.id, level: def.level, rule: def.rule.clone(), assumptions: def.assumptions.clone(), spaces: vec![], exhaustive: false, extra: Map::new(), finish: None };
            finish_with_spaces(id, &hdef, &def.spaces, ctx, t0, t, vec![json!({"space": sp.name, "cases": sp.len, "note": "stopped: a case hung"})], samples, Map::new(), true)
        };
        let l = if sp.sandbox.is_some() { run_sandboxed(&def, sp, &pass_args) } else { run_inprocess(sp, &hang, &on_hang) };
        total = prev_total.lock().unwrap().take().unwrap_or_default();
        per_space.push(json!({"space": sp.name, "cases": sp.len, "evaluations": l.evals, "wall_s": (ts.elapsed().as_secs_f64() * 100.0).round() / 100.0,
            "monitor": if sp.sandbox.is_some() { "sandboxed workers (panic, hang, allocation cap)" } else { "in-process threads (panic, hang)" }}));
        total.merge(l);
        let per = if def.spaces.len() > 4 { 2 } else { 5 };
        for i in sample_indices(sp.len).into_iter().take(per) {
            if samples.len() < 16 {
                samples.push(json!({"space": sp.name, "index": i, "case": (sp.describe)(i)}));
            }
        }
    }
    let mut extra = std::mem::take(&mut def.extra);
    if let Some(f) = def.finish.take() {
        f(&mut total, &mut extra);
    }
    let hung = hang.lock().unwrap().is_some();
    finish(id, &def, ctx, t0, total, per_space, samples, extra, hung)
}

#[allow(clippy::too_many_arguments)]
fn finish(id: &str, def: &CheckDef, ctx: &Ctx, t0: Instant, total: Local, per_space: Vec<Value>, samples: Vec<Value>, extra: Map<String, Value>, hung: bool) -> ! {
    finish_with_spaces(id, def, &def.spaces, ctx, t0, total, per_space, samples, extra, hung)
}
#[allow(clippy::too_many_arguments)]
fn finish_with_spaces(id: &str, def: &CheckDef, spaces: &[Space], ctx: &Ctx, t0: Instant, total: Local, per_space: Vec<Value>, samples: Vec<Value>, extra: Map<String, Value>, hung: bool) -> ! {
    let known = load_known(id);
    let mut new_violations = vec![];
    let mut known_hits = vec![];
    for v in &total.violations {
        match known.iter().find(|k| k.status == "open" && k.signature == v.sig) {
            Some(k) => known_hits.push((k.clone(), v.clone())),
            None => new_violations.push(v.clone()),
        }
    }
    // evidence
    let mut cov = Map::new();
    cov.insert("evaluations".into(), json!(if hung { total.evals.max(1) } else { total.evals }));
    cov.insert("distinct_nontrivial".into(), json!(total.distinct.len()));
    cov.insert("rule".into(), json!(def.rule));
    cov.insert("samples".into(), json!(samples));
    cov.insert("exhaustive".into(), json!(def.exhaustive && !hung));
    cov.insert("spaces".into(), json!(per_space));
    cov.insert("observed_outcomes".into(), json!(total.outcomes));
    cov.insert("distinct_outcome_classes".into(), json!(total.outcomes.len()));
    for (k, v) in &total.counters {
        cov.insert(k.clone(), json!(v));
    }
    for (k, v) in extra {
        cov.insert(k, v);
    }
    cov.insert(
        "known_findings_hit".into(),
        json!(known_hits.iter().map(|(k, v)| json!({"signature": k.signature, "cases": v.count})).collect::<Vec<_>>()),
    );
    cov.insert(
        "new_violation_signatures".into(),
        json!(new_violations.iter().map(|v| json!({"signature": v.sig, "cases": v.count, "what": v.what})).collect::<Vec<_>>()),
    );
    let ev = json!({
        "property_id": id,
        "tier": ctx.tier.name(),
        "seed": ctx.seed as i64,
        "level": def.level,
        "coverage": cov,
        "assumptions": def.assumptions,
        "wall_s": (t0.elapsed().as_secs_f64() * 100.0).round() / 100.0,
        "violations": new_violations.len(),
    });
    // VERIF_OUT_DIR redirects evidence/ and replays/ (used when running against a scratch mutant copy)
    let out_root = std::env::var("VERIF_OUT_DIR").unwrap_or_else(|_| VERIF_ROOT.to_string());
    let evdir = format!("{out_root}/evidence");
    let _ = std::fs::create_dir_all(&evdir);
    let evpath = format!("{evdir}/{id}.json");
    if let Err(e) = std::fs::write(&evpath, serde_json::to_string_pretty(&ev).unwrap() + "\n") {
        eprintln!("MACHINERY: cannot write {evpath}: {e}");
        std::process::exit(2);
    }
    println!(
        "[{id}] tier={} evaluations={} distinct_nontrivial={} outcome_classes={} wall={:.1}s",
        ctx.tier.name(),
        total.evals,
        total.distinct.len(),
        total.outcomes.len(),
        t0.elapsed().as_secs_f64()
    );
    for (k, n) in total.outcomes.iter().take(40) {
        println!("[{id}]   outcome {k}: {n}");
    }
    for (k, n) in &total.counters {
        println!("[{id}]   {k}: {n}");
    }
    for (k, v) in &known_hits {
        println!("KNOWN-FINDING: property={id} {} [{} case(s), signature {}]", k.what, v.count, k.signature);
    }
    // replays of earlier runs are stale by definition
    let _ = std::fs::remove_dir_all(format!("{out_root}/replays/{id}"));
    if new_violations.is_empty() {
        let _ = std::io::stdout().flush();
        // leave without running destructors of possibly stuck threads
        unsafe { libc::_exit(0) }
    }
    let dir = format!("{out_root}/replays/{id}");
    let _ = std::fs::create_dir_all(&dir);
    for (n, v) in new_violations.iter().enumerate() {
        let path = format!("{dir}/{n}.json");
        let sp = spaces.iter().find(|s| s.name == v.space);
        let rep = json!({
            "property": id, "tier": ctx.tier.name(), "seed": ctx.seed as i64, "space": v.space, "index": v.idx,
            "signature": v.sig, "what": v.what, "cases_with_this_signature": v.count,
            "case": sp.map(|s| (s.describe)(v.idx)).unwrap_or(Value::Null), "detail": v.detail,
        });
        let _ = std::fs::write(&path, serde_json::to_string_pretty(&rep).unwrap() + "\n");
        println!("[{id}] violation: {} ({} case(s)) signature={}", v.what, v.count, v.sig);
        println!("VIOLATION property={id} replay={path}");
    }
    let _ = std::io::stdout().flush();
    unsafe { libc::_exit(1) }
}

fn replay(id: &'static str, build: impl FnOnce(&Ctx) -> CheckDef, path: &str, seed: u64) -> ! {
    let s = std::fs::read_to_string(path).unwrap_or_else(|e| {
        eprintln!("MACHINERY: cannot read {path}: {e}");
        std::process::exit(2)
    });
    let v: Value = serde_json::from_str(&s).unwrap_or_else(|e| {
        eprintln!("MACHINERY: {path}: {e}");
        std::process::exit(2)
    });
    let tier = if v["tier"].as_str() == Some("thorough") { Tier::Thorough } else { Tier::Quick };
    let seed = v["seed"].as_i64().map(|x| x as u64).unwrap_or(seed);
    let ctx = Ctx { tier, seed };
    let def = build(&ctx);
    let space = v["space"].as_str().unwrap_or("");
    let idx = v["index"].as_u64().unwrap_or(0);
    let Some(sp) = def.spaces.iter().find(|s| s.name == space) else {
        eprintln!("MACHINERY: replay: unknown space {space}");
        std::process::exit(2)
    };
    println!("[{id}] replaying space={space} index={idx} case={}", (sp.describe)(idx));
    // plain call, no pool; a hang watchdog only
    let wall = sp.sandbox.map(|s| s.wall_ms).unwrap_or(sp.wall_ms) * 2;
    let done = Arc::new(AtomicBool::new(false));
    let d2 = done.clone();
    let pid = id.to_string();
    let ppath = path.to_string();
    std::thread::spawn(move || {
        let t = Instant::now();
        while !d2.load(SeqCst) {
            std::thread::sleep(Duration::from_millis(50));
            if t.elapsed().as_millis() as u64 > wall {
                println!("[{pid}] replay: case hangs (over {wall} ms)");
                println!("VIOLATION property={pid} replay={ppath}");
                unsafe { libc::_exit(1) }
            }
        }
    });
    if let Some(sb) = sp.sandbox {
        // same allocation monitor as in the sandbox workers, reported as the replay verdict
        crate::alloc::set_replay_message(format!("\n[{id}] replay: case exceeds the allocation cap of {} bytes\nVIOLATION property={id} replay={path}\n", sb.hard_cap));
        crate::alloc::enable();
        crate::alloc::set_hard_cap(crate::alloc::live().saturating_add(sb.hard_cap));
    }
    let mut sigs = vec![];
    for _ in 0..2 {
        let mut l = Local::default();
        run_one(sp, idx, &mut l);
        let mut s: Vec<String> = l.violations.iter().map(|v| v.sig.clone()).collect();
        s.sort();
        for v in &l.violations {
            println!("[{id}] replay observed: {} signature={}", v.what, v.sig);
        }
        sigs.push(s);
    }
    done.store(true, SeqCst);
    if sigs[0] != sigs[1] {
        eprintln!("MACHINERY: replay is not deterministic: {:?} vs {:?}", sigs[0], sigs[1]);
        std::process::exit(2);
    }
    if sigs[0].is_empty() {
        println!("[{id}] replay: no violation on this tree");
        std::process::exit(0);
    }
    println!("VIOLATION property={id} replay={path}");
    std::process::exit(1)
}

// ---------------------------------------------------------------------------------------------
// small enumeration helpers

/// Mixed-radix decode: `idx` -> digits for the given radices (least significant first).
pub fn unrank(mut idx: u64, radices: &[u64]) -> Vec<u64> {
    let mut out = Vec::with_capacity(radices.len());
    for &r in radices {
        out.push(idx % r);
        idx /= r;
    }
    out
}
pub fn product(radices: &[u64]) -> u64 {
    radices.iter().product()
}
/// All sequences over an alphabet of `k` symbols with length 0..=max_len, indexed densely.
/// Returns (len, digits) for idx in 0..seq_count(k, max_len).
pub fn seq_count(k: u64, max_len: u32) -> u64 {
    (0..=max_len).map(|l| k.pow(l)).sum()
}
pub fn seq_unrank(mut idx: u64, k: u64, max_len: u32) -> Vec<u64> {
    for l in 0..=max_len {
        let n = k.pow(l);
        if idx < n {
            let mut v = Vec::with_capacity(l as usize);
            for _ in 0..l {
                v.push(idx % k);
                idx /= k;
            }
            return v;
        }
        idx -= n;
    }
    panic!("seq_unrank out of range");
}
