//! Generators of small synthetic dumps for processing (C14, C15, C19), the independent index
//! model (who is the requesting thread, which context wins, crash reason / address case
//! analysis), the bit-flip reference and an independent JSON parser + mechanised schema of
//! `minidump-processor/json-schema.md`.
//!
//! Everything here is a pure function of a case index; nothing is random.
use crate::core::{guard, PanicInfo, Tier};
use minidump::Minidump;
use minidump_common::format as md;
use minidump_processor::{ProcessState, ProcessorOptions};
use minidump_synth as synth;
use minidump_synth::SectionExtra;
use scroll::{Pread, Pwrite, LE};
use serde_json::{json, Value};
use std::collections::{BTreeMap, HashMap};
use std::sync::{Arc, OnceLock};
use test_assembler::{Endian, Section};

// =============================================================================================
// error-name tables, read as DATA from the source text of minidump_common::errors
// (`NAME = value,` lines inside `pub enum X { .. }`); the case analysis on top of them is
// re-implemented independently below.

pub struct ErrTables {
    enums: BTreeMap<String, Vec<(String, i128)>>,
}
impl ErrTables {
    pub fn name(&self, en: &str, v: i128) -> Option<&str> {
        let e = self.enums.get(en).unwrap_or_else(|| panic!("procgen: no error table {en}"));
        e.iter().find(|x| x.1 == v).map(|x| x.0.as_str())
    }
    pub fn value(&self, en: &str, name: &str) -> i128 {
        let e = self.enums.get(en).unwrap_or_else(|| panic!("procgen: no error table {en}"));
        e.iter().find(|x| x.0 == name).map(|x| x.1).unwrap_or_else(|| panic!("procgen: no {name} in {en}"))
    }
    pub fn entries(&self, en: &str) -> &[(String, i128)] {
        self.enums.get(en).map(|v| v.as_slice()).unwrap_or_else(|| panic!("procgen: no error table {en}"))
    }
}
fn parse_lit(s: &str) -> Option<i128> {
    let mut s = s.trim().trim_end_matches(',').trim().to_string();
    for suf in ["u32", "u64", "i32", "i64"] {
        if let Some(x) = s.strip_suffix(suf) {
            s = x.to_string();
        }
    }
    let s = s.replace('_', "");
    let (neg, s) = match s.strip_prefix('-') {
        Some(r) => (true, r.to_string()),
        None => (false, s),
    };
    let v = if let Some(h) = s.strip_prefix("0x") { i128::from_str_radix(h, 16).ok()? } else { s.parse::<i128>().ok()? };
    Some(if neg { -v } else { v })
}
fn parse_tables(src: &str, out: &mut BTreeMap<String, Vec<(String, i128)>>) {
    let mut cur: Option<String> = None;
    for line in src.lines() {
        let t = line.trim();
        if let Some(r) = t.strip_prefix("pub enum ") {
            let name: String = r.chars().take_while(|c| c.is_alphanumeric() || *c == '_').collect();
            out.insert(name.clone(), vec![]);
            cur = Some(name);
            continue;
        }
        if line.starts_with('}') {
            cur = None;
            continue;
        }
        let Some(en) = &cur else { continue };
        if t.starts_with("//") || t.starts_with('#') || t.is_empty() {
            continue;
        }
        if let Some((id, rhs)) = t.split_once(" = ") {
            if id.chars().all(|c| c.is_alphanumeric() || c == '_') {
                let rhs = rhs.split("//").next().unwrap();
                let v = parse_lit(rhs).unwrap_or_else(|| panic!("procgen: cannot read enum entry `{t}` of {en}"));
                out.get_mut(en).unwrap().push((id.to_string(), v));
            }
        }
    }
}
pub fn err_tables() -> &'static ErrTables {
    static T: OnceLock<ErrTables> = OnceLock::new();
    T.get_or_init(|| {
        let mut m = BTreeMap::new();
        parse_tables(include_str!("/repo/minidump-common/src/errors/windows.rs"), &mut m);
        parse_tables(include_str!("/repo/minidump-common/src/errors/linux.rs"), &mut m);
        parse_tables(include_str!("/repo/minidump-common/src/errors/macos.rs"), &mut m);
        let t = ErrTables { enums: m };
        // the text tables must agree with the compiled enums (spot checks; a mismatch is a harness error)
        use minidump_common::errors as e;
        assert_eq!(t.value("ExceptionCodeWindows", "EXCEPTION_ACCESS_VIOLATION"), e::ExceptionCodeWindows::EXCEPTION_ACCESS_VIOLATION as u32 as i128);
        assert_eq!(t.value("ExceptionCodeWindows", "EXCEPTION_IN_PAGE_ERROR"), e::ExceptionCodeWindows::EXCEPTION_IN_PAGE_ERROR as u32 as i128);
        assert_eq!(t.value("NtStatusWindows", "STATUS_STACK_BUFFER_OVERRUN"), e::NtStatusWindows::STATUS_STACK_BUFFER_OVERRUN as u32 as i128);
        assert_eq!(t.value("ExceptionCodeLinux", "SIGSEGV"), e::ExceptionCodeLinux::SIGSEGV as u32 as i128);
        assert_eq!(t.value("ExceptionCodeLinuxSicode", "SI_TKILL"), e::ExceptionCodeLinuxSicode::SI_TKILL as i32 as i128);
        assert_eq!(t.value("ExceptionCodeMac", "EXC_GUARD"), e::ExceptionCodeMac::EXC_GUARD as u32 as i128);
        assert_eq!(t.value("ExceptionCodeWindowsAccessType", "EXEC"), e::ExceptionCodeWindowsAccessType::EXEC as u64 as i128);
        let n: usize = t.enums.values().map(|v| v.len()).sum();
        assert!(n > 6000, "procgen: error tables incomplete ({n} entries)");
        t
    })
}

// =============================================================================================
// CPU kinds (every context kind the reader knows, one it does not, and an unknown architecture)

#[derive(Clone, Copy, Debug, PartialEq, Eq, Hash, PartialOrd, Ord)]
pub enum CpuK {
    X86,
    X86Wow,
    Amd64,
    Arm,
    Arm64,
    Arm64Old,
    Ppc,
    Ppc64,
    Sparc,
    Mips,
    Mips64,
    Unknown,
}
pub const ALL_CPUS: [CpuK; 12] =
    [CpuK::X86, CpuK::Amd64, CpuK::Arm64, CpuK::Arm, CpuK::Ppc64, CpuK::Mips64, CpuK::X86Wow, CpuK::Arm64Old, CpuK::Ppc, CpuK::Sparc, CpuK::Mips, CpuK::Unknown];

fn zeroed_ctx<C>(f: impl FnOnce(&mut C)) -> Vec<u8>
where
    C: for<'a> scroll::ctx::TryFromCtx<'a, scroll::Endian, [u8], Error = scroll::Error> + scroll::ctx::TryIntoCtx<scroll::Endian, [u8], Error = scroll::Error> + scroll::ctx::SizeWith<scroll::Endian>,
{
    let n = C::size_with(&LE);
    let mut b = vec![0u8; n];
    let mut c: C = b.pread_with(0, LE).expect("procgen: zeroed context reads");
    f(&mut c);
    let w = b.pwrite_with(c, 0, LE).expect("procgen: context writes");
    assert_eq!(w, n);
    b
}

fn with_flag_bits(mut ctx: Vec<u8>, flags_at: usize, ip: u64) -> Vec<u8> {
    if (ip >> 6) & 1 == 1 || (ip >> 12) & 1 == 0 {
        let f = u32::from_le_bytes(ctx[flags_at..flags_at + 4].try_into().unwrap()) | 0x40;
        ctx[flags_at..flags_at + 4].copy_from_slice(&f.to_le_bytes());
    }
    ctx
}

impl CpuK {
    pub fn arch(self) -> u16 {
        use md::ProcessorArchitecture::*;
        (match self {
            CpuK::X86 => PROCESSOR_ARCHITECTURE_INTEL,
            CpuK::X86Wow => PROCESSOR_ARCHITECTURE_IA32_ON_WIN64,
            CpuK::Amd64 => PROCESSOR_ARCHITECTURE_AMD64,
            CpuK::Arm => PROCESSOR_ARCHITECTURE_ARM,
            CpuK::Arm64 => PROCESSOR_ARCHITECTURE_ARM64,
            CpuK::Arm64Old => PROCESSOR_ARCHITECTURE_ARM64_OLD,
            CpuK::Ppc => PROCESSOR_ARCHITECTURE_PPC,
            CpuK::Ppc64 => PROCESSOR_ARCHITECTURE_PPC64,
            CpuK::Sparc => PROCESSOR_ARCHITECTURE_SPARC,
            CpuK::Mips => PROCESSOR_ARCHITECTURE_MIPS,
            CpuK::Mips64 => PROCESSOR_ARCHITECTURE_MIPS64,
            CpuK::Unknown => return 0x7777,
        }) as u16
    }
    /// documented pointer width (system_info.rs `pointer_width`): None = unknown
    pub fn bits(self) -> Option<u32> {
        match self {
            CpuK::X86 | CpuK::X86Wow | CpuK::Arm | CpuK::Ppc | CpuK::Sparc | CpuK::Mips => Some(32),
            CpuK::Amd64 | CpuK::Arm64 | CpuK::Arm64Old | CpuK::Ppc64 | CpuK::Mips64 => Some(64),
            CpuK::Unknown => None,
        }
    }
    /// the `cpu_arch` string of the JSON schema
    pub fn json_name(self) -> &'static str {
        match self {
            CpuK::X86 | CpuK::X86Wow => "x86",
            CpuK::Amd64 => "amd64",
            CpuK::Arm => "arm",
            CpuK::Arm64 | CpuK::Arm64Old => "arm64",
            CpuK::Ppc => "ppc",
            CpuK::Ppc64 => "ppc64",
            CpuK::Sparc => "sparc",
            CpuK::Mips => "mips",
            CpuK::Mips64 => "mips64",
            CpuK::Unknown => "unknown",
        }
    }
    /// family used by the Mac exception refinements (documented on the `*ArmType`, `*PpcType`,
    /// `*X86Type` tables)
    pub fn mac_family(self) -> Option<&'static str> {
        match self {
            CpuK::Arm64 | CpuK::Arm64Old => Some("Arm"),
            CpuK::Ppc => Some("Ppc"),
            CpuK::X86 | CpuK::X86Wow | CpuK::Amd64 => Some("X86"),
            _ => None,
        }
    }
    pub fn has_context(self) -> bool {
        !matches!(self, CpuK::Mips64 | CpuK::Unknown)
    }
    pub fn mask(self, v: u64) -> u64 {
        if self.bits() == Some(32) {
            v & 0xffff_ffff
        } else {
            v
        }
    }
    /// bytes of a readable CPU context with the given instruction and stack pointer
    pub fn context(self, ip: u64, sp: u64) -> Option<Vec<u8>> {
        let e = Endian::Little;
        Some(match self {
            // (x86 / amd64 contexts may carry flag bits outside the CPU-type byte, CONTEXT_HAS_XSTATE = 0x40 among them:
            // every other instruction-pointer value gets it)
            CpuK::X86 | CpuK::X86Wow => with_flag_bits(synth::x86_context(e, ip as u32, sp as u32).get_contents().unwrap(), 0, ip),
            CpuK::Amd64 => with_flag_bits(synth::amd64_context(e, ip, sp).get_contents().unwrap(), 0x30, ip),
            CpuK::Arm64 => synth::arm64_context(e, ip, sp).get_contents().unwrap(),
            CpuK::Arm => zeroed_ctx::<md::CONTEXT_ARM>(|c| {
                c.context_flags = 0x4000_0002;
                c.iregs[13] = sp as u32;
                c.iregs[15] = ip as u32;
            }),
            CpuK::Arm64Old => zeroed_ctx::<md::CONTEXT_ARM64_OLD>(|c| {
                c.context_flags = 0x8000_0002;
                c.sp = sp;
                c.pc = ip;
            }),
            CpuK::Ppc => zeroed_ctx::<md::CONTEXT_PPC>(|c| {
                c.context_flags = 0x2000_0001;
                c.srr0 = ip as u32;
                c.gpr[1] = sp as u32;
            }),
            CpuK::Ppc64 => zeroed_ctx::<md::CONTEXT_PPC64>(|c| {
                c.context_flags = 0x0100_0001;
                c.srr0 = ip;
                c.gpr[1] = sp;
            }),
            CpuK::Sparc => zeroed_ctx::<md::CONTEXT_SPARC>(|c| {
                c.context_flags = 0x1000_0001;
                c.pc = ip;
                c.g_r[14] = sp;
            }),
            CpuK::Mips => zeroed_ctx::<md::CONTEXT_MIPS>(|c| {
                c.context_flags = 0x0004_0001;
                c.epc = ip;
                c.iregs[29] = sp;
            }),
            CpuK::Mips64 | CpuK::Unknown => return None,
        })
    }
}

// =============================================================================================
// operating systems

#[derive(Clone, Copy, Debug, PartialEq, Eq, Hash)]
pub enum OsK {
    Windows,
    Mac,
    Ios,
    Linux,
    Android,
    Solaris,
    Ps3,
    NaCl,
    Unknown,
}
/// (platform id, documented meaning). Two ids mean Windows; three ids are not known systems.
pub fn all_platforms() -> Vec<(u32, OsK)> {
    use md::PlatformId as P;
    vec![
        (P::VER_PLATFORM_WIN32_NT as u32, OsK::Windows),
        (P::Linux as u32, OsK::Linux),
        (P::MacOs as u32, OsK::Mac),
        (0x9999, OsK::Unknown),
        (P::VER_PLATFORM_WIN32_WINDOWS as u32, OsK::Windows),
        (P::Android as u32, OsK::Android),
        (P::Ios as u32, OsK::Ios),
        (P::Solaris as u32, OsK::Solaris),
        (P::Ps3 as u32, OsK::Ps3),
        (P::NaCl as u32, OsK::NaCl),
        (0, OsK::Unknown),
        (P::Unix as u32, OsK::Unknown),
    ]
}
pub fn os_of(platform_id: u32) -> OsK {
    all_platforms().into_iter().find(|p| p.0 == platform_id).map(|p| p.1).unwrap_or(OsK::Unknown)
}
impl OsK {
    /// the `system_info.os` names listed by json-schema.md
    pub fn json_name(self) -> Option<&'static str> {
        Some(match self {
            OsK::Windows => "Windows NT",
            OsK::Mac => "Mac OS X",
            OsK::Ios => "iOS",
            OsK::Linux => "Linux",
            OsK::Android => "Android",
            OsK::Solaris => "Solaris",
            OsK::Ps3 => "PS3",
            OsK::NaCl => "NaCl",
            OsK::Unknown => return None,
        })
    }
}

// =============================================================================================
// dump model and its serialisation through minidump-synth

#[derive(Clone, Debug)]
pub struct ThreadM {
    pub tid: u32,
    pub ctx_ok: bool,
    pub ip: u64,
    pub sp: u64,
}
#[derive(Clone, Debug)]
pub struct ExcM {
    pub tid: u32,
    pub code: u32,
    pub flags: u32,
    pub address: u64,
    pub nparams: u32,
    pub info: [u64; 15],
    /// 0 = no context location, 1 = readable context, 2 = 40 bytes of garbage
    pub ctx: u8,
    pub ctx_ip: u64,
    pub ctx_sp: u64,
}
#[derive(Clone, Debug)]
pub struct BpM {
    pub validity: u32,
    pub dump_tid: u32,
    pub req_tid: u32,
}
#[derive(Clone, Debug)]
pub struct ModM {
    pub base: u64,
    pub size: u32,
    pub name: String,
}
#[derive(Clone, Debug)]
pub enum MapsM {
    None,
    /// (base, size, protection) as a MemoryInfoList
    Info(Vec<(u64, u64, u32)>),
    /// (first, last (inclusive, as minidump.rs documents its reading), perms "rwx" subset) as LinuxMaps
    Linux(Vec<(u64, u64, &'static str)>),
}
#[derive(Clone, Debug)]
pub struct MiscM {
    pub pid: Option<u32>,
    pub create_time: Option<u32>,
}
#[derive(Clone, Debug)]
pub struct Model {
    pub cpu: CpuK,
    pub platform_id: u32,
    pub threads: Vec<ThreadM>,
    /// one name entry per distinct thread id
    pub thread_names: Vec<(u32, String)>,
    pub exc: Option<ExcM>,
    pub bp: Option<BpM>,
    pub modules: Vec<ModM>,
    pub unloaded: Vec<ModM>,
    pub maps: MapsM,
    pub misc: Option<MiscM>,
    pub status: Option<Vec<u8>>,
    /// `/etc/lsb-release` stream (bytes: may be invalid UTF-8, the processor decodes lossily)
    pub lsb: Option<Vec<u8>>,
    /// extra memory region (instruction bytes)
    pub code: Option<(u64, Vec<u8>)>,
    /// symbol files by module name (bytes: may be invalid UTF-8)
    pub syms: Vec<(String, Vec<u8>)>,
    /// amd64 only: every general-purpose register of the exception context other than rsp / rip holds
    /// this value (a register file crowded around one address)
    pub gpr_fill: Option<u64>,
    /// thread 0 (x86 / amd64 / arm64, single-thread models only): its stack holds a frame-pointer chain of this
    /// many frame records `[caller's frame pointer][return address]`, return addresses in the application module
    pub deep: Option<usize>,
    /// amd64 only, with `gpr_fill`: rbx holds this value instead
    pub rbx: Option<u64>,
    /// by construction the crashing instruction's memory operand has a NULL base register (and a non-null index)
    pub null_base: bool,
    /// effective address of the crashing instruction's memory operand when it is not simply [rsp]
    pub effective_address: Option<u64>,
    /// with `deep`: (first return address, stride) instead of addresses in the application module
    pub deep_ra: Option<(u64, u64)>,
    /// a MozMacosCrashInfoStream with two records of each listed format version (1, 4, 5)
    pub mac_crash_info: Vec<u64>,
    /// with `deep` on a CPU walked by scanning: the word below each return address (unused by the scan) holds this
    pub deep_stale: Option<u64>,
    /// bytes of the code region that lie BEFORE the address in `code` (the instruction is then not at the region's start)
    pub code_lead: usize,
}
pub const HEADER_TIME: u64 = 1262805309; // fixed by minidump-synth
pub const STACK_BASE: u64 = 0x7000_0000;

impl Model {
    pub fn new(cpu: CpuK, platform_id: u32) -> Model {
        Model { cpu, platform_id, threads: vec![], thread_names: vec![], exc: None, bp: None, modules: vec![], unloaded: vec![], maps: MapsM::None, misc: None, status: None, lsb: None, code: None, syms: vec![], gpr_fill: None, deep: None, rbx: None, null_base: false, effective_address: None, deep_ra: None, mac_crash_info: vec![], deep_stale: None, code_lead: 0 }
    }
    pub fn os(&self) -> OsK {
        os_of(self.platform_id)
    }
    pub fn thread(&mut self, tid: u32, ctx_ok: bool) {
        let i = self.threads.len() as u64;
        self.threads.push(ThreadM { tid, ctx_ok, ip: 0x4000_1000 + 0x10 * i, sp: STACK_BASE + 0x1000 * i });
    }
    pub fn dump_tid(&self) -> Option<u32> {
        self.bp.as_ref().and_then(|b| if b.validity & 1 != 0 { Some(b.dump_tid) } else { None })
    }
    pub fn req_tid(&self) -> Option<u32> {
        self.bp.as_ref().and_then(|b| if b.validity & 2 != 0 { Some(b.req_tid) } else { None })
    }
    /// the thread id that names the requesting thread: exception record first, else Breakpad info
    pub fn target_tid(&self) -> Option<u32> {
        self.exc.as_ref().map(|x| x.tid).or(self.req_tid())
    }
    pub fn requesting_candidates(&self) -> Vec<usize> {
        let t = self.target_tid();
        (0..self.threads.len()).filter(|&i| Some(self.threads[i].tid) == t && self.dump_tid() != Some(self.threads[i].tid)).collect()
    }
    pub fn thread_ctx_readable(&self, i: usize) -> bool {
        self.threads[i].ctx_ok && self.cpu.has_context()
    }
    pub fn exc_ctx_readable(&self) -> bool {
        self.exc.as_ref().is_some_and(|x| x.ctx == 1) && self.cpu.has_context()
    }
    pub fn name_of(&self, tid: u32) -> Option<&str> {
        self.thread_names.iter().find(|n| n.0 == tid).map(|n| n.1.as_str())
    }
    pub fn summary(&self) -> Value {
        let mut s = format!("{self:?}");
        if s.len() > 1800 {
            let mut cut = 1800;
            while !s.is_char_boundary(cut) {
                cut -= 1;
            }
            s.truncate(cut);
            s.push_str("...");
        }
        json!(s)
    }
}

fn bytes_section(b: &[u8]) -> Section {
    Section::with_endian(Endian::Little).append_bytes(b)
}

pub fn build(m: &Model) -> Vec<u8> {
    let e = Endian::Little;
    let mut d = synth::SynthMinidump::with_endian(e);
    // the exception context goes first, so its RVA is the header size (the synth Exception
    // takes a constant location)
    let (ctx_size, ctx_rva) = match &m.exc {
        Some(x) if x.ctx == 1 => {
            let b = match (m.cpu, m.gpr_fill) {
                (CpuK::Amd64, Some(v)) => zeroed_ctx::<md::CONTEXT_AMD64>(|c| {
                    c.context_flags = 0x10001f;
                    (c.rax, c.rcx, c.rdx, c.rbx, c.rbp, c.rsi, c.rdi) = (v, v, v, v, v, v, v);
                    (c.r8, c.r9, c.r10, c.r11, c.r12, c.r13, c.r14, c.r15) = (v, v, v, v, v, v, v, v);
                    if let Some(b) = m.rbx {
                        c.rbx = b;
                    }
                    c.rsp = x.ctx_sp;
                    c.rip = x.ctx_ip;
                }),
                _ => m.cpu.context(x.ctx_ip, x.ctx_sp).unwrap_or_else(|| vec![0xAB; 64]),
            };
            let n = b.len() as u32;
            d = d.add(bytes_section(&b));
            (n, 32u32)
        }
        Some(x) if x.ctx == 2 => {
            d = d.add(bytes_section(&[0xAB; 40]));
            (40, 32)
        }
        _ => (0, 0),
    };
    d = d.add_system_info(synth::SystemInfo::new(e).set_processor_architecture(m.cpu.arch()).set_platform_id(m.platform_id));
    for (i, t) in m.threads.iter().enumerate() {
        let base = STACK_BASE + 0x1000 * i as u64;
        let (stack, cb) = match (i, m.deep) {
            (0, Some(n)) => {
                assert!(m.threads.len() == 1, "procgen: deep stacks are for single-thread models");
                let w: u64 = if m.cpu.bits() == Some(32) { 4 } else { 8 };
                let mut sec = Section::with_endian(e);
                for k in 0..n as u64 {
                    let next = match (m.deep_stale, m.cpu) {
                        (Some(st), CpuK::Arm) => st,
                        _ => if k + 1 < n as u64 { base + 2 * w * (k + 1) } else { 0 },
                    };
                    let ra = match m.deep_ra {
                        Some((first, stride)) => first + stride * k,
                        None => APP_BASE + 0x100 + (k % 0x800) * 8,
                    };
                    sec = if w == 4 { sec.D32(next as u32).D32(ra as u32) } else { sec.D64(next).D64(ra) };
                }
                sec = sec.append_repeated(0, 4 * w as usize);
                // CPUs without a frame-pointer context here (32-bit ARM, ...): the same words are found by scanning
                let ctx = match m.cpu {
                    CpuK::X86 | CpuK::Amd64 | CpuK::Arm64 => context_with_fp(m.cpu, t.ip, base, base),
                    _ => m.cpu.context(t.ip, base).expect("procgen: deep stacks need a CPU with a context"),
                };
                (synth::Memory::with_section(sec, base), ctx)
            }
            _ => (synth::Memory::with_section(Section::with_endian(e).append_repeated(0, 64), base), if t.ctx_ok { m.cpu.context(t.ip, t.sp) } else { None }.unwrap_or_else(|| vec![0xCD; 24])),
        };
        let ctx = bytes_section(&cb);
        let th = synth::Thread::new(e, t.tid, &stack, &ctx);
        d = d.add_thread(th).add_memory(stack).add(ctx);
    }
    if m.threads.is_empty() {
        // minidump-synth leaves an empty list out; a present-but-empty thread list is the case wanted
        d = d.add_stream(synth::SimpleStream { stream_type: md::MINIDUMP_STREAM_TYPE::ThreadListStream as u32, section: Section::with_endian(e).D32(0) });
    }
    if !m.thread_names.is_empty() {
        // the first entry of the stream names no thread of the list and cannot be read (its string RVA is 0): it
        // must not cost the entries behind it their names
        d = d.add_thread_name(synth::ThreadName::new(e, 0xdead_0001, None));
    }
    for (tid, n) in &m.thread_names {
        let s = synth::DumpString::new(n, e);
        d = d.add_thread_name(synth::ThreadName::new(e, *tid, Some(&s))).add(s);
    }
    for md_ in &m.modules {
        let name = synth::DumpString::new(&md_.name, e);
        d = d.add_module(synth::Module::new(e, md_.base, md_.size, &name, 0x1234, 0, None)).add(name);
    }
    for md_ in &m.unloaded {
        let name = synth::DumpString::new(&md_.name, e);
        d = d.add_unloaded_module(synth::UnloadedModule::new(e, md_.base, md_.size, &name, 0x1234, 0)).add(name);
    }
    if !m.mac_crash_info.is_empty() {
        let ty = md::MINIDUMP_STREAM_TYPE::MozMacosCrashInfoStream as u32;
        let mut recs = vec![];
        for (i, &v) in m.mac_crash_info.iter().enumerate() {
            let mut s = Section::with_endian(e).D64(ty as u64).D64(v);
            if v >= 4 {
                s = s.D64(7 + i as u64).D64(1);
            }
            if v >= 5 {
                s = s.D64(3);
            }
            if v >= 4 {
                s = s.append_bytes(b"/m\0").append_bytes(b"msg\0").append_bytes(b"sig\0").append_bytes(b"bt\0").append_bytes(b"\0");
            }
            recs.push(s);
        }
        let fixed: u32 = match m.mac_crash_info.iter().max().copied().unwrap_or(1) {
            0..=3 => 16,
            4 => 32,
            _ => 40,
        };
        let mut h = Section::with_endian(e).D32(ty).D32(recs.len() as u32).D32(fixed);
        for i in 0..20 {
            h = match recs.get(i) {
                Some(r) => h.cite_location(r),
                None => h.D32(0).D32(0),
            };
        }
        d = d.add_stream(synth::SimpleStream { stream_type: ty, section: h });
        for r in recs {
            d = d.add(r);
        }
    }
    if let Some((addr, bytes)) = &m.code {
        let mut region = vec![0x90u8; m.code_lead];
        region.extend_from_slice(bytes);
        d = d.add_memory(synth::Memory::with_section(bytes_section(&region), *addr - m.code_lead as u64));
    }
    if let Some(x) = &m.exc {
        let mut ex = synth::Exception::new(e);
        ex.thread_id = x.tid;
        ex.exception_record.exception_code = x.code;
        ex.exception_record.exception_flags = x.flags;
        ex.exception_record.exception_address = x.address;
        ex.exception_record.number_parameters = x.nparams;
        ex.exception_record.exception_information = x.info;
        ex.thread_context = (ctx_size, ctx_rva);
        d = d.add_exception(ex);
    }
    if let Some(b) = &m.bp {
        d = d.add_stream(synth::SimpleStream { stream_type: md::MINIDUMP_STREAM_TYPE::BreakpadInfoStream as u32, section: Section::with_endian(e).D32(b.validity).D32(b.dump_tid).D32(b.req_tid) });
    }
    match &m.maps {
        MapsM::None => {}
        MapsM::Info(rs) => {
            for &(b, s, prot) in rs {
                // the protection the region was ALLOCATED with differs from the one it has now (what counts):
                // PAGE_READWRITE, or PAGE_READONLY for a region that is PAGE_READWRITE now
                let alloc_prot = if prot == 0x04 { 0x02 } else { 0x04 };
                d = d.add_memory_info(synth::MemoryInfo::new(e, b, b, alloc_prot, s, 0x1000, prot, 0x20000));
            }
        }
        MapsM::Linux(rs) => {
            let mut t = String::new();
            for (i, &(a, z, p)) in rs.iter().enumerate() {
                let perm: String = ['r', 'w', 'x'].iter().map(|c| if p.contains(*c) { *c } else { '-' }).collect();
                t.push_str(&format!("{a:x}-{z:x} {perm}p 00000000 00:00 0 /map{i}\n"));
            }
            d = d.set_linux_maps(t.as_bytes());
        }
    }
    if let Some(mi) = &m.misc {
        let mut s = synth::MiscStream::new(e);
        s.process_id = mi.pid;
        s.process_times = mi.create_time.map(|t| synth::MiscFieldsProcessTimes { process_create_time: t, process_user_time: 3, process_kernel_time: 4 });
        d = d.add_stream(s);
    }
    if let Some(st) = &m.status {
        d = d.set_linux_proc_status(st);
    }
    if let Some(b) = &m.lsb {
        d = d.set_linux_lsb_release(b);
    }
    d.finish().expect("procgen: synth dump finishes")
}

// ---------------------------------------------------------------------------------------------
// processing through the public end-to-end path

/// Symbol supplier over in-memory bytes (like `string_symbol_supplier`, but the file may be
/// invalid UTF-8 so that lossy-decoded names reach the JSON writer).
pub struct BytesSupplier {
    pub files: HashMap<String, Vec<u8>>,
}
#[async_trait::async_trait]
impl breakpad_symbols::SymbolSupplier for BytesSupplier {
    async fn locate_symbols(&self, module: &(dyn breakpad_symbols::Module + Sync)) -> Result<breakpad_symbols::LocateSymbolsResult, breakpad_symbols::SymbolError> {
        match self.files.get(&*module.code_file()) {
            Some(b) => Ok(breakpad_symbols::LocateSymbolsResult { symbols: breakpad_symbols::SymbolFile::from_bytes(b)?, extra_debug_info: None }),
            None => Err(breakpad_symbols::SymbolError::NotFound),
        }
    }
    async fn locate_file(&self, _m: &(dyn breakpad_symbols::Module + Sync), _k: breakpad_symbols::FileKind) -> Result<std::path::PathBuf, breakpad_symbols::FileError> {
        Err(breakpad_symbols::FileError::NotFound)
    }
}

pub enum Proc {
    Ok(Box<ProcessState>),
    /// `Minidump::read` refused the generated bytes (generator error unless the model says so)
    ReadErr(String),
    ProcessErr(String),
    Panic(PanicInfo),
}

thread_local! {
    static RT: tokio::runtime::Runtime = tokio::runtime::Builder::new_current_thread().build().expect("procgen: tokio runtime");
}

pub fn process_model(m: &Model) -> Proc {
    let bytes = build(m);
    process_bytes(&bytes, &m.syms)
}
pub fn process_bytes(bytes: &[u8], syms: &[(String, Vec<u8>)]) -> Proc {
    let dump = match Minidump::read(bytes) {
        Ok(d) => d,
        Err(e) => return Proc::ReadErr(format!("{e}")),
    };
    let r = guard(|| {
        RT.with(|rt| {
            if syms.is_empty() {
                let p = minidump_unwind::Symbolizer::new(minidump_unwind::string_symbol_supplier(HashMap::new()));
                rt.block_on(minidump_processor::process_minidump_with_options(&dump, &p, ProcessorOptions::default()))
            } else {
                let p = minidump_unwind::Symbolizer::new(BytesSupplier { files: syms.iter().cloned().collect() });
                rt.block_on(minidump_processor::process_minidump_with_options(&dump, &p, ProcessorOptions::default()))
            }
        })
    });
    match r {
        Ok(Ok(s)) => Proc::Ok(Box::new(s)),
        Ok(Err(e)) => Proc::ProcessErr(format!("{e}")),
        Err(p) => Proc::Panic(p),
    }
}

// =============================================================================================
// reference: crash address and crash reason (independent re-statement of the documented case
// analysis; only the name tables are shared, as data)

/// Documented on `MinidumpException::get_crash_address`: the exception address, except that
/// Windows access violations and in-page errors carry the data address in parameter 1 (which
/// exists when there are at least two parameters); 32-bit CPUs zero-extend.
pub fn expected_crash_address(os: OsK, cpu: CpuK, x: &ExcM) -> u64 {
    let t = err_tables();
    let av = t.value("ExceptionCodeWindows", "EXCEPTION_ACCESS_VIOLATION") as u32;
    let ipe = t.value("ExceptionCodeWindows", "EXCEPTION_IN_PAGE_ERROR") as u32;
    let a = if os == OsK::Windows && (x.code == av || x.code == ipe) && x.nparams >= 2 { x.info[1] } else { x.address };
    cpu.mask(a)
}

#[derive(Clone, Debug, PartialEq)]
pub enum ReasonExp {
    /// the reason renders as exactly one of these
    OneOf(Vec<String>),
    /// family and type are decided, the trailing detail text is not re-derived
    Prefix(String),
}
impl ReasonExp {
    pub fn accepts(&self, s: &str) -> bool {
        match self {
            ReasonExp::OneOf(v) => v.iter().any(|x| x == s),
            ReasonExp::Prefix(p) => s.starts_with(p.as_str()),
        }
    }
}
fn one(s: String) -> ReasonExp {
    ReasonExp::OneOf(vec![s])
}

pub fn expected_reason(os: OsK, cpu: CpuK, x: &ExcM) -> ReasonExp {
    let t = err_tables();
    let unknown = || one(format!("unknown {:#010x} / {:#010x}", x.code, x.flags));
    match os {
        OsK::Windows => {
            let code = x.code as i128;
            if let Some(n) = t.name("ExceptionCodeWindows", code) {
                return one(match n {
                    "EXCEPTION_ACCESS_VIOLATION" => match t.name("ExceptionCodeWindowsAccessType", x.info[0] as i128) {
                        Some(ty) if x.nparams >= 1 => format!("EXCEPTION_ACCESS_VIOLATION_{ty}"),
                        _ => n.to_string(),
                    },
                    "EXCEPTION_IN_PAGE_ERROR" => match t.name("ExceptionCodeWindowsInPageErrorType", x.info[0] as i128) {
                        Some(ty) if x.nparams >= 3 => {
                            let st = x.info[2] & 0xffff_ffff;
                            let sn = t.name("NtStatusWindows", st as i128).map(|s| s.to_string()).unwrap_or(format!("{st:#010x}"));
                            format!("EXCEPTION_IN_PAGE_ERROR_{ty} / {sn}")
                        }
                        _ => n.to_string(),
                    },
                    "OUT_OF_MEMORY" => "Out of Memory".into(),
                    "UNHANDLED_CPP_EXCEPTION" => "Unhandled C++ Exception".into(),
                    "SIMULATED" => "Simulated Exception".into(),
                    _ => n.to_string(),
                });
            }
            if let Some(n) = t.name("WinErrorWindows", code) {
                return one(n.to_string());
            }
            if let Some(n) = t.name("NtStatusWindows", code) {
                if n == "STATUS_STACK_BUFFER_OVERRUN" && x.nparams >= 1 {
                    let ff = x.info[0] & 0xffff_ffff;
                    let fname = t.name("FastFailCode", ff as i128).map(|s| s.to_string()).unwrap_or(format!("{ff:#010x}"));
                    return one(format!("EXCEPTION_STACK_BUFFER_OVERRUN / {fname}"));
                }
                return one(n.to_string());
            }
            if x.code & 0xf000_0000 != 0 {
                if let (Some(f), Some(w)) = (t.name("WinErrorFacilityWindows", ((x.code & 0x0fff_0000) >> 16) as i128), t.name("WinErrorWindows", (x.code & 0xffff) as i128)) {
                    return one(format!("{f} / {w}"));
                }
            }
            one(format!("unknown {:#010x}", x.code))
        }
        OsK::Mac | OsK::Ios => {
            let Some(n) = t.name("ExceptionCodeMac", x.code as i128) else { return unknown() };
            let general = if n == "SIMULATED" { "Simulated Exception".to_string() } else { format!("{n} / {:#010x}", x.flags) };
            let fl = x.flags as i128;
            let by_cpu = |stem: &str, label: &str| -> ReasonExp {
                // refinement tables exist per CPU family; which CPUs of a family use them is not
                // documented beyond the table names, so for CPUs outside {arm64, ppc, x86, amd64}
                // either rendering is accepted when a sibling table knows the flag value
                match cpu.mac_family() {
                    Some(f) => match t.name(&format!("ExceptionCodeMac{stem}{f}Type"), fl) {
                        Some(k) => one(format!("{label} / {k}")),
                        None => one(general.clone()),
                    },
                    None => {
                        let mut v = vec![general.clone()];
                        let fam = match cpu {
                            CpuK::Arm => Some("Arm"),
                            CpuK::Ppc64 => Some("Ppc"),
                            _ => None,
                        };
                        if let Some(f) = fam {
                            if let Some(k) = t.name(&format!("ExceptionCodeMac{stem}{f}Type"), fl) {
                                v.push(format!("{label} / {k}"));
                            }
                        }
                        ReasonExp::OneOf(v)
                    }
                }
            };
            match n {
                "EXC_BAD_ACCESS" => match t.name("ExceptionCodeMacBadAccessKernType", fl) {
                    Some(k) => one(format!("EXC_BAD_ACCESS / {k}")),
                    None => by_cpu("BadAccess", "EXC_BAD_ACCESS"),
                },
                "EXC_BAD_INSTRUCTION" => by_cpu("BadInstruction", "EXC_BAD_INSTRUCTION"),
                "EXC_ARITHMETIC" => by_cpu("Arithmetic", "EXC_ARITHMETIC"),
                "EXC_BREAKPOINT" => by_cpu("Breakpoint", "EXC_BREAKPOINT"),
                "EXC_SOFTWARE" => match t.name("ExceptionCodeMacSoftwareType", fl) {
                    Some(k) => one(format!("EXC_SOFTWARE / {k}")),
                    None => one(general),
                },
                "EXC_RESOURCE" => match t.name("ExceptionCodeMacResourceType", ((x.flags >> 29) & 7) as i128) {
                    Some(k) => ReasonExp::Prefix(format!("EXC_RESOURCE / {k} / ")),
                    None => one(general),
                },
                "EXC_GUARD" => match t.name("ExceptionCodeMacGuardType", ((x.flags >> 29) & 7) as i128) {
                    Some(k) => ReasonExp::Prefix(format!("EXC_GUARD / {k}")),
                    None => one(general),
                },
                _ => one(general),
            }
        }
        OsK::Linux | OsK::Android => {
            let Some(sig) = t.name("ExceptionCodeLinux", x.code as i128) else { return unknown() };
            let kind = match sig {
                "SIGILL" => Some("ExceptionCodeLinuxSigillKind"),
                "SIGTRAP" => Some("ExceptionCodeLinuxSigtrapKind"),
                "SIGFPE" => Some("ExceptionCodeLinuxSigfpeKind"),
                "SIGSEGV" => Some("ExceptionCodeLinuxSigsegvKind"),
                "SIGBUS" => Some("ExceptionCodeLinuxSigbusKind"),
                "SIGSYS" => Some("ExceptionCodeLinuxSigsysKind"),
                _ => None,
            };
            if let Some(k) = kind.and_then(|k| t.name(k, x.flags as i128)) {
                return one(format!("{sig} / {k}"));
            }
            match t.name("ExceptionCodeLinuxSicode", x.flags as i32 as i128) {
                Some("SI_USER") => one(sig.to_string()),
                Some(si) => one(format!("{sig} / {si}")),
                None => one(format!("{sig} / {:#010x}", x.flags)),
            }
        }
        _ => unknown(),
    }
}

/// which access the crash reason names (processor.rs `MemoryOperation::from_crash_reason`)
#[derive(Clone, Copy, Debug, PartialEq, Eq)]
pub enum MemOp {
    Any,
    Read,
    Write,
    Exec,
}
pub fn mem_op_of_reason(reason: &str) -> MemOp {
    match reason {
        "EXCEPTION_ACCESS_VIOLATION_READ" => MemOp::Read,
        "EXCEPTION_ACCESS_VIOLATION_WRITE" => MemOp::Write,
        "EXCEPTION_ACCESS_VIOLATION_EXEC" => MemOp::Exec,
        _ => MemOp::Any,
    }
}
impl MapsM {
    /// (first, last inclusive, readable, writable, executable) of every mapped region, by the
    /// documented reading of each stream
    pub fn regions(&self) -> Vec<(u64, u64, bool, bool, bool)> {
        match self {
            MapsM::None => vec![],
            MapsM::Info(v) => v
                .iter()
                .filter_map(|&(b, s, p)| {
                    if s == 0 {
                        return None;
                    }
                    let end = b.checked_add(s)? - 1;
                    // PAGE_* bits as documented on MinidumpMemoryInfo::is_{readable,writable,executable}
                    Some((b, end, p & (0x02 | 0x04 | 0x20 | 0x40) != 0, p & (0x04 | 0x08 | 0x40 | 0x80) != 0, p & (0x10 | 0x20 | 0x40 | 0x80) != 0))
                })
                .collect(),
            MapsM::Linux(v) => v.iter().filter(|r| r.0 <= r.1).map(|&(a, z, p)| (a, z, p.contains('r'), p.contains('w'), p.contains('x'))).collect(),
        }
    }
    pub fn permits(&self, addr: u64, op: MemOp) -> bool {
        self.regions().iter().any(|&(a, z, r, w, x)| {
            a <= addr
                && addr <= z
                && match op {
                    MemOp::Any => true,
                    MemOp::Read => r,
                    MemOp::Write => w,
                    MemOp::Exec => x,
                }
        })
    }
}

// =============================================================================================
// case spaces (index -> Model), shared by C14 / C15 / C19

#[derive(Clone)]
pub struct Gen {
    pub name: &'static str,
    pub len: u64,
    pub model: Arc<dyn Fn(u64) -> Model + Send + Sync>,
}
impl Gen {
    pub fn describe(&self) -> impl Fn(u64) -> Value + Send + Sync + 'static {
        let g = self.clone();
        move |idx| json!({"class": g.name, "model": (g.model)(idx).summary()})
    }
}

pub const APP_BASE: u64 = 0x4000_0000;
pub fn app_module() -> ModM {
    ModM { base: APP_BASE, size: 0x10000, name: "c:\\dir\\app.exe".into() }
}

/// One exception record of the menu: (code, flags, number_parameters, information[0..3])
pub type Rec = (u32, u32, u32, [u64; 3]);

/// The exception-record menu per operating system: every refined family, the codes just outside
/// each enumeration, parameter counts 0,1,2,3,15,16 and access types {0,1,8,2,unknown}.
pub fn exc_menu(os: OsK) -> Vec<Rec> {
    let t = err_tables();
    let mut v: Vec<Rec> = vec![];
    match os {
        OsK::Windows => {
            // a facility-coded HRESULT that no table lists by itself
            let facility = t.entries("WinErrorFacilityWindows").first().expect("procgen: a facility").1 as u32;
            let fac = t.entries("WinErrorWindows").iter().filter(|e| e.1 > 0x70 && e.1 < 0x10000).map(|e| 0xC000_0000u32 | (facility << 16) | (e.1 as u32)).find(|c| e_unlisted(t, *c)).expect("procgen: a facility-coded value");
            let codes: [u32; 15] = [fac, 0xC000_0005, 0xC000_0006, 0xC000_0409, 5, 0xC000_0017, 0x8007_0005, 0xE000_0008, 0xE06D_7363, 0x0517_A7ED, 0xC000_0094, 0x1234_5678, 0xC000_0004, 0xC000_0007, 0xFFFF_FFFF];
            let infos: [[u64; 3]; 6] = [[0, 0x20800, 0xC000_009A], [1, 0x20800, 0xFFFF_FFFF_C000_009A], [8, 0x20800, 0x7], [2, 0x20800, 0x5], [0xFFFF_FFFF, 0xFFFF_FFFF_0002_0800, 0xC000_0005], [0xFFFF_FFFF_0000_0007, 0x20800, 0xFFFF_FFFF_0000_0005]];
            for c in codes {
                for np in [0u32, 1, 2, 3, 15, 16] {
                    for i in infos {
                        v.push((c, 0, np, i));
                    }
                }
            }
            // the 12-bit facility field: every single-bit neighbour of two known facilities (first and last of
            // the table), under three severity nibbles — a facility is known or unknown as a whole
            let facs = t.entries("WinErrorFacilityWindows");
            for f in [facs.first().expect("procgen: facility").1 as u32, facs.last().expect("procgen: facility").1 as u32] {
                for bit in 0..12 {
                    for sev in [0x8000_0000u32, 0xC000_0000, 0xE000_0000] {
                        v.push((sev | (((f ^ (1 << bit)) & 0xfff) << 16) | (fac & 0xffff), 0, 0, infos[0]));
                    }
                }
            }
        }
        OsK::Mac | OsK::Ios => {
            let mut codes: Vec<u32> = (0..=14).collect();
            codes.push(t.value("ExceptionCodeMac", "SIMULATED") as u32);
            codes.push(0x1234_5678);
            let flags: [u32; 14] = [0, 1, 2, 13, 0x101, 0x102, 0x10003, 3, (1 << 29) | 5, 2 << 29, 5 << 29, 6 << 29, 7 << 29, 0xFFFF_FFFF];
            for c in codes {
                for f in flags {
                    v.push((c, f, 3, [0x11, (1u64 << 58) | (5 << 7) | 3, 0x2_0000_0007]));
                    // EXC_RESOURCE / EXC_GUARD / EXC_CORPSE_NOTIFY refine on the parameters: fewer (or more) than they read
                    if (11..=13).contains(&c) {
                        for np in [0u32, 1, 2, 16] {
                            v.push((c, f, np, [0x11, (1u64 << 58) | (5 << 7) | 3, 0x2_0000_0007]));
                        }
                    }
                }
            }
        }
        OsK::Linux | OsK::Android => {
            let mut codes: Vec<u32> = (0..=32).collect();
            codes.push(0xFFFF_FFFF);
            codes.push(0x1234_5678);
            let flags: [u32; 10] = [0, 1, 2, 8, 9, 0x80, 0xFFFF_FFFA, 0xFFFF_FFC4, 0x1234, 0xFFFF_FFFF];
            for c in codes {
                for f in flags {
                    v.push((c, f, 0, [0, 0, 0]));
                }
            }
        }
        _ => {
            for c in [0xC000_0005u32, 11, 1, 0] {
                for f in [0u32, 1, 0x80] {
                    v.push((c, f, 2, [1, 0x20800, 0]));
                }
            }
        }
    }
    v
}
fn e_unlisted(t: &ErrTables, c: u32) -> bool {
    ["ExceptionCodeWindows", "WinErrorWindows", "NtStatusWindows"].iter().all(|en| t.name(en, c as i128).is_none())
}
fn exc_of(rec: Rec, tid: u32, address: u64, ctx: u8) -> ExcM {
    let mut info = [0u64; 15];
    info[..3].copy_from_slice(&rec.3);
    info[14] = 0xE;
    ExcM { tid, code: rec.0, flags: rec.1, address, nparams: rec.2, info, ctx, ctx_ip: APP_BASE + 0x2222, ctx_sp: STACK_BASE + 0x2020 }
}

/// An amd64 Linux crash whose instruction `mov al,[rax+rcx]` uses two registers that both hold a value one bit
/// (bit 40) away from mapped memory: the bit-flip analysis reports candidates from the crash address and from
/// each of the two registers.
pub fn two_register_bitflip_model() -> Model {
    let v: u64 = 0x0000_0100_0001_0010;
    let mut m = Model::new(CpuK::Amd64, md::PlatformId::Linux as u32);
    add_threads(&mut m, &[1], 0);
    m.threads[0].ip = 0x4000_2000;
    m.modules.push(app_module());
    m.maps = MapsM::Linux(vec![(0x10000, 0x10fff, "rw")]);
    let mut x = exc_of((11, 1, 0, [0, 0, 0]), 1, v, 1);
    x.ctx_ip = 0x4000_2000;
    x.ctx_sp = STACK_BASE;
    let mut code = vec![0x8a, 0x04, 0x08];
    code.resize(16, 0x90);
    m.code = Some((0x4000_2000, code));
    m.gpr_fill = Some(v);
    m.exc = Some(x);
    m
}

/// Instruction menu of `gen_access_kinds` (amd64 machine code at the crash site): what the instruction analysis
/// sees is a read, a write, a read-modify-write, two accesses, an implicit stack access, or no memory access.
/// the numeric value of an address-like field, whatever type the state uses for it
fn addr_u64<T: Into<u64>>(a: T) -> u64 {
    a.into()
}

pub const ACCESS_INSTRS: [(&str, &[u8]); 12] = [
    ("mov al,[rbx+0x10]", &[0x8a, 0x43, 0x10]),
    ("mov [rbx+0x7fffffff],al", &[0x88, 0x83, 0xff, 0xff, 0xff, 0x7f]),
    ("mov al,[rsp]", &[0x8a, 0x04, 0x24]),
    ("mov [rsp],al", &[0x88, 0x04, 0x24]),
    ("add dword [rsp],1", &[0x83, 0x04, 0x24, 0x01]),
    ("inc dword [rsp]", &[0xff, 0x04, 0x24]),
    ("xchg [rsp],eax", &[0x87, 0x04, 0x24]),
    ("movsb", &[0xa4]),
    ("push rax", &[0x50]),
    ("pop rax", &[0x58]),
    ("cmp byte [rax+rcx],0", &[0x80, 0x3c, 0x08, 0x00]),
    ("nop", &[0x90]),
];
/// Every instruction of `ACCESS_INSTRS` x rsp from `RSP_MENU` x exception rendering {Windows AV read, Windows AV
/// write, Linux SIGSEGV, Mac EXC_BAD_ACCESS} x general-purpose registers {0, a mapped address} x memory map
/// {none, one rw page as MemoryInfoList, as LinuxMaps}, on amd64.
pub fn gen_access_kinds(_tier: Tier) -> Gen {
    use md::PlatformId as P;
    let radices = vec![ACCESS_INSTRS.len() as u64, RSP_MENU.len() as u64, 4, 2, 3];
    let len = crate::core::product(&radices);
    let model = move |idx: u64| {
        let d = crate::core::unrank(idx, &radices);
        let (pid, rec): (u32, Rec) = match d[2] {
            0 => (P::VER_PLATFORM_WIN32_NT as u32, (0xC000_0005, 0, 2, [0, 0x10010, 0])),
            1 => (P::VER_PLATFORM_WIN32_NT as u32, (0xC000_0005, 0, 2, [1, 0x10010, 0])),
            2 => (P::Linux as u32, (11, 1, 0, [0, 0, 0])),
            _ => (P::MacOs as u32, (1, 1, 0, [0, 0, 0])),
        };
        let mut m = Model::new(CpuK::Amd64, pid);
        add_threads(&mut m, &[1], 0);
        m.threads[0].ip = 0x4000_2000;
        m.modules.push(app_module());
        m.maps = match d[4] {
            0 => MapsM::None,
            1 => MapsM::Info(vec![(0x10000, 0x1000, INFO_PERMS[4])]),
            _ => MapsM::Linux(vec![(0x10000, 0x10fff, "rw")]),
        };
        let mut x = exc_of(rec, 1, 0x10010, 1);
        x.ctx_ip = 0x4000_2000;
        x.ctx_sp = RSP_MENU[d[1] as usize];
        let mut code = ACCESS_INSTRS[d[0] as usize].1.to_vec();
        // for every other stack pointer the instruction sits in the last 8 bytes of its memory region, 8 bytes in
        if d[1] % 2 == 1 {
            code.resize(8, 0x90);
            m.code_lead = 8;
        } else {
            code.resize(16, 0x90);
        }
        m.code = Some((0x4000_2000, code));
        m.gpr_fill = Some(if d[3] == 0 { 0 } else { 0x10010 });
        m.exc = Some(x);
        m
    };
    Gen { name: "access-kinds", len, model: Arc::new(model) }
}

/// Deep recursion: one thread whose stack is a frame-pointer chain of N records, N around and far past 1024, on
/// x86 / amd64 / arm64, Linux and Windows.
pub fn gen_deep_stacks(_tier: Tier) -> Gen {
    use md::PlatformId as P;
    const NS: [usize; 6] = [2, 1023, 1024, 1025, 1100, 3000];
    let radices = vec![NS.len() as u64, 3, 2];
    let len = crate::core::product(&radices);
    let model = move |idx: u64| {
        let d = crate::core::unrank(idx, &radices);
        let cpu = [CpuK::X86, CpuK::Amd64, CpuK::Arm64][d[1] as usize];
        let mut m = Model::new(cpu, [P::Linux as u32, P::VER_PLATFORM_WIN32_NT as u32][d[2] as usize]);
        add_threads(&mut m, &[1], 0);
        m.threads[0].ip = APP_BASE + 0x40;
        m.modules.push(app_module());
        m.deep = Some(NS[d[0] as usize]);
        // the shortest chain returns to the very first byte of a second module that starts where the first ends:
        // such a frame's instruction (the return address minus one) is the LAST byte of the first module
        if d[0] == 0 {
            let first = app_module();
            m.modules.push(ModM { base: first.base + first.size as u64, size: 0x10000, name: "c:\\dir\\next.dll".into() });
            m.deep_ra = Some((first.base + first.size as u64, 0));
        }
        m
    };
    Gen { name: "deep-stacks", len, model: Arc::new(model) }
}

/// `mov rax,[rbx+rcx*8]` with rcx = 0x0000_2000_0000_2002: the effective address is rbx + 0x0001_0000_0001_0010, a
/// non-canonical value one bit (48) away from the mapped page of 0x10010 when rbx = 0 (a null base: a null pointer
/// plus offset, whatever the sum looks like) and for the control rbx = 0x20 (a real base). x 8 exception renderings
/// (three of them the general-protection-fault signatures) x map {rw page as memory info, as Linux maps, none}.
pub fn gen_null_base(_tier: Tier) -> Gen {
    let radices = vec![2u64, 8, 3];
    let len = crate::core::product(&radices);
    let model = move |idx: u64| {
        let d = crate::core::unrank(idx, &radices);
        let rbx = [0u64, 0x20][d[0] as usize];
        let ea = rbx + 0x0001_0000_0001_0010;
        let (pid, rec, exc_addr) = bitflip_exc(d[1], if matches!(d[1], 0..=2) { u64::MAX } else { 0 });
        let mut m = Model::new(CpuK::Amd64, pid);
        add_threads(&mut m, &[1], 0);
        m.threads[0].ip = 0x4000_2000;
        m.modules.push(app_module());
        m.maps = match d[2] {
            0 => MapsM::Info(vec![(0x10000, 0x1000, INFO_PERMS[4])]),
            1 => MapsM::Linux(vec![(0x10000, 0x10fff, "rw")]),
            _ => MapsM::None,
        };
        let mut x = exc_of(rec, 1, exc_addr, 1);
        x.ctx_ip = 0x4000_2000;
        x.ctx_sp = STACK_BASE;
        let mut code = vec![0x48, 0x8b, 0x04, 0xcb];
        code.resize(16, 0x90);
        m.code = Some((0x4000_2000, code));
        m.gpr_fill = Some(0x0000_2000_0000_2002);
        m.rbx = Some(rbx);
        m.null_base = rbx == 0;
        m.effective_address = Some(ea);
        m.exc = Some(x);
        m
    };
    Gen { name: "null-base", len, model: Arc::new(model) }
}

/// One thread whose frame-pointer chain returns through addresses that lie in no LOADED module but in several
/// overlapping unloaded ones: every frame has its own set of unloaded modules and offsets.
pub fn gen_unloaded_frames(_tier: Tier) -> Gen {
    use md::PlatformId as P;
    let radices = vec![3u64, 3, 4];
    let len = crate::core::product(&radices);
    let model = move |idx: u64| {
        let d = crate::core::unrank(idx, &radices);
        let cpu = [CpuK::X86, CpuK::Amd64, CpuK::Arm64][d[0] as usize];
        let mut m = Model::new(cpu, [P::VER_PLATFORM_WIN32_NT as u32, P::Linux as u32, P::MacOs as u32][d[1] as usize]);
        add_threads(&mut m, &[1], 0);
        m.threads[0].ip = 0x5000_0010;
        m.modules.push(app_module());
        let um = |b: u64, s: u32, n: &str| ModM { base: b, size: s, name: n.into() };
        m.unloaded = vec![um(0x5000_0000, 0x10000, "old.dll"), um(0x5000_0800, 0x1000, "old.dll"), um(0x5000_1000, 0x10, "other.dll"), um(0x5000_1001, 0x800, "miss.dll"), um(0x5000_0000, 0x1000, "below.dll"), um(0x5000_2000, 0x3000, "late.dll")];
        m.deep = Some(5);
        m.deep_ra = Some((0x5000_0100, [0x7ff, 0x1003, 0x2a1, 0x3001][d[2] as usize]));
        m
    };
    Gen { name: "unloaded-frames", len, model: Arc::new(model) }
}

/// macOS dumps with a crash-info stream holding records of format versions 1 / 4 / 5 in several mixes.
pub fn gen_mac_crash_info(_tier: Tier) -> Gen {
    const MIXES: [&[u64]; 7] = [&[1], &[4], &[5], &[1, 1], &[1, 4], &[4, 1, 5], &[5, 5, 1, 4]];
    let radices = vec![MIXES.len() as u64, 2];
    let len = crate::core::product(&radices);
    let model = move |idx: u64| {
        let d = crate::core::unrank(idx, &radices);
        let mut m = Model::new([CpuK::Amd64, CpuK::Arm64][d[1] as usize], md::PlatformId::MacOs as u32);
        add_threads(&mut m, &[1], 0);
        m.threads[0].ip = APP_BASE + 0x40;
        m.modules.push(app_module());
        m.mac_crash_info = MIXES[d[0] as usize].to_vec();
        m
    };
    Gen { name: "mac-crash-info", len, model: Arc::new(model) }
}

pub const TID_PATTERNS: [&[u32]; 7] = [&[], &[1], &[1, 2], &[2, 2], &[1, 2, 7], &[5, 1, 5], &[1, 2, 2, 7]];
pub const EXC_TIDS: [Option<u32>; 6] = [None, Some(1), Some(2), Some(5), Some(7), Some(99)];
/// Breakpad info menu: absent, both, dump thread only, requesting thread only, flags off, dump == requesting
// two entries carry validity bits beyond the two defined ones (a writer's future flags): only bits 0 and 1 say
// which ids are valid
pub const BP_MENU: [Option<(u32, u32, u32)>; 6] = [None, Some((3, 2, 1)), Some((0x11, 1, 7)), Some((2, 0, 2)), Some((0, 1, 2)), Some((0x8000_0003, 1, 1))];

fn name_for_tid(t: u32) -> Option<String> {
    if t == 2 {
        None
    } else {
        Some(format!("thr-{t}"))
    }
}
fn add_threads(m: &mut Model, tids: &[u32], tctx: u64) {
    for (i, &t) in tids.iter().enumerate() {
        let ok = !((tctx == 1 && i == 0) || (tctx == 2 && i == 1));
        m.thread(t, ok);
        if !m.thread_names.iter().any(|n| n.0 == t) {
            if let Some(n) = name_for_tid(t) {
                m.thread_names.push((t, n));
            }
        }
    }
}

/// C14 structural space: thread-id pattern x exception thread x Breakpad info x exception
/// context readability x thread context readability x CPU x OS id (full product); the exception
/// record rotates through the OS's menu (thorough: 16 records per case).
pub fn gen_index(tier: Tier) -> Gen {
    gen_index_opts(true, tier.pick(1, 16))
}
/// `full_os`: the OS id is a factor of the product (else it rotates with the other digits);
/// `nrec`: exception records per case.
pub fn gen_index_opts(full_os: bool, nrec: u64) -> Gen {
    let plats = all_platforms();
    let menus: Vec<Vec<Rec>> = plats.iter().map(|p| exc_menu(p.1)).collect();
    let mut radices = vec![12u64, 3, 3, 6, 6, 7];
    radices.push(if full_os { 12 } else { 1 });
    radices.push(nrec);
    let len = crate::core::product(&radices);
    let model = move |idx: u64| {
        let d = crate::core::unrank(idx, &radices);
        let (cpu, tctx, ectx, bp, etid, pat) = (ALL_CPUS[d[0] as usize], d[1], d[2], d[3], d[4], d[5]);
        let pi = if full_os { d[6] as usize } else { (d[0] * 7 + d[1] + 3 * d[2] + d[3] + d[4] + 5 * d[5]) as usize % plats.len() };
        let rk = d[7];
        let mut m = Model::new(cpu, plats[pi].0);
        add_threads(&mut m, TID_PATTERNS[pat as usize], tctx);
        m.modules.push(app_module());
        m.bp = BP_MENU[bp as usize].map(|(v, dt, rt)| BpM { validity: v, dump_tid: dt, req_tid: rt });
        if let Some(t) = EXC_TIDS[etid as usize] {
            let menu = &menus[pi];
            let rec = menu[((idx / 7 + rk * 37) % menu.len() as u64) as usize];
            let addr = if idx % 2 == 0 { 0x45 } else { 0xFFFF_FFFF_0000_0045 };
            m.exc = Some(exc_of(rec, t, addr, ectx as u8));
        }
        m
    };
    Gen { name: "index", len, model: Arc::new(model) }
}

/// C14 crash reason / address space: every OS id x every CPU x the whole exception-record menu
/// of that OS x {plain address, address with high bits set}.
pub fn gen_reason(_tier: Tier) -> Gen {
    let mut recs: Vec<(u32, Rec, u64)> = vec![];
    for (pid, os) in all_platforms() {
        for r in exc_menu(os) {
            for a in [0x45u64, 0xFFFF_FFFF_0000_0045] {
                recs.push((pid, r, a));
            }
        }
    }
    let len = recs.len() as u64 * 12;
    let model = move |idx: u64| {
        let cpu = ALL_CPUS[(idx % 12) as usize];
        let (pid, rec, a) = recs[(idx / 12) as usize];
        let mut m = Model::new(cpu, pid);
        add_threads(&mut m, &[1], 0);
        m.modules.push(app_module());
        m.exc = Some(exc_of(rec, 1, a, 1));
        m
    };
    Gen { name: "reason", len, model: Arc::new(model) }
}

/// C14 process-level space: misc-info flag subsets x Linux status stream x unloaded-module
/// layouts x module lists x {x86, amd64, arm64} x thread lists (1, 4, 32 threads).
pub fn gen_proc(_tier: Tier) -> Gen {
    let radices = vec![5u64, 6, 4, 3, 3, 3];
    let len = crate::core::product(&radices);
    let model = move |idx: u64| {
        use md::PlatformId as P;
        let d = crate::core::unrank(idx, &radices);
        let cpu = [CpuK::X86, CpuK::Amd64, CpuK::Arm64][d[4] as usize];
        let pid = [P::Linux as u32, P::VER_PLATFORM_WIN32_NT as u32, P::MacOs as u32][((d[0] + d[1]) % 3) as usize];
        let mut m = Model::new(cpu, pid);
        let tids: Vec<u32> = match d[5] {
            0 => vec![1],
            1 => vec![1, 2, 2, 7],
            _ => (0..32).map(|i| (i % 7) + 1).collect(),
        };
        add_threads(&mut m, &tids, 0);
        m.threads[0].ip = 0x5000_1000; // outside every loaded module
        m.misc = match d[0] {
            0 => None,
            1 => Some(MiscM { pid: Some(4242), create_time: None }),
            2 => Some(MiscM { pid: None, create_time: Some(1262800000) }),
            3 => Some(MiscM { pid: Some(7), create_time: Some(HEADER_TIME as u32 + 5) }),
            _ => Some(MiscM { pid: None, create_time: None }),
        };
        m.status = match d[1] {
            0 => None,
            1 => Some(b"Name:\tx\nPid:\t1234\nPPid:\t1\n".to_vec()),
            2 => Some(b"Name:\tx\nPid:\tabc\n".to_vec()),
            3 => Some(b"Name:\tx\n".to_vec()),
            // the largest ids a 32-bit unsigned field holds
            4 => Some(b"Name:\tx\nPid:\t2147483648\n".to_vec()),
            _ => Some(b"Name:\tx\nPid:\t4294967295\n".to_vec()),
        };
        let um = |b: u64, s: u32, n: &str| ModM { base: b, size: s, name: n.into() };
        m.unloaded = match d[2] {
            0 => vec![],
            1 => vec![um(0x5000_0000, 0x10000, "old.dll")],
            2 => vec![um(0x5000_0000, 0x10000, "old.dll"), um(0x5000_0800, 0x1000, "old.dll"), um(0x5000_1000, 0x10, "other.dll"), um(0x5000_1001, 0x10, "miss.dll"), um(0x5000_0000, 0x1000, "below.dll"), um(0x5000_0000, 0x10000, "old.dll")],
            _ => vec![um(APP_BASE, 0x10000, "shadow.dll"), um(0x5000_0000, 0x2000, "old.dll")],
        };
        m.modules = match d[3] {
            0 => vec![],
            1 => vec![app_module()],
            _ => vec![um(0x6000_0000, 0x1000, "z.dll"), app_module(), um(0x1000, 0x100, "/lib/a.so")],
        };
        let rec: Rec = (11, 1, 0, [0, 0, 0]);
        m.exc = Some(exc_of(rec, 2, 0x1234, 1));
        m
    };
    Gen { name: "proc", len, model: Arc::new(model) }
}

/// first byte of the address window the overlapping unloaded modules of `gen_unloaded_overlap` live in
pub const UNL_BASE: u64 = 0x5000_0000;

/// C14 overlapping / nested unloaded modules: every ordered list of 3 unloaded modules and every
/// ordered list of 4 unloaded modules whose (base, size) come from a grid (so that ranges nest,
/// overlap partially, coincide, touch and lie apart in every stream order), under name patterns
/// with one name at two or more ranges, without and with a loaded module inside the window. Every
/// dump has one thread per probe address: for every unloaded (and the loaded) module the bytes
/// just below its base, its base, its middle, its last byte and the byte just past its end.
pub fn gen_unloaded_overlap(tier: Tier) -> Gen {
    let grid = |bases: &[u64], sizes: &[u32]| -> Vec<(u64, u32)> { bases.iter().flat_map(|&b| sizes.iter().map(move |&s| (b, s))).collect() };
    let opts3 = if tier == Tier::Thorough { grid(&[0, 0x1000, 0x2000, 0x3000], &[0x800, 0x1000, 0x2000, 0x4000]) } else { grid(&[0, 0x1000, 0x2000], &[0x800, 0x1000, 0x4000]) };
    let opts4 = if tier == Tier::Thorough { grid(&[0, 0x1000, 0x2000], &[0x800, 0x1000, 0x4000]) } else { grid(&[0, 0x1000, 0x2000], &[0x800, 0x4000]) };
    const NAMES3: [[usize; 3]; 3] = [[0, 1, 2], [0, 1, 0], [0, 0, 0]];
    const NAMES4: [[usize; 4]; 3] = [[0, 1, 2, 3], [0, 1, 0, 1], [0, 0, 1, 0]];
    let (n3, n4) = (opts3.len() as u64, opts4.len() as u64);
    let rad3 = vec![n3, n3, n3, 3, 2];
    let rad4 = vec![n4, n4, n4, n4, 3];
    let len3 = crate::core::product(&rad3);
    let len = len3 + crate::core::product(&rad4);
    let model = move |idx: u64| {
        use md::PlatformId as P;
        let (mods, live): (Vec<((u64, u32), usize)>, bool) = if idx < len3 {
            let d = crate::core::unrank(idx, &rad3);
            ((0..3).map(|j| (opts3[d[j] as usize], NAMES3[d[3] as usize][j])).collect(), d[4] == 1)
        } else {
            let d = crate::core::unrank(idx - len3, &rad4);
            ((0..4).map(|j| (opts4[d[j] as usize], NAMES4[d[4] as usize][j])).collect(), (d[0] + d[1] + d[2] + d[3]) % 2 == 1)
        };
        let cpu = [CpuK::Amd64, CpuK::X86, CpuK::Arm64][(idx % 3) as usize];
        let pid = [P::VER_PLATFORM_WIN32_NT as u32, P::Linux as u32][((idx / 3) % 2) as usize];
        let mut m = Model::new(cpu, pid);
        m.unloaded = mods.iter().map(|&((b, s), n)| ModM { base: UNL_BASE + b, size: s, name: format!("gone{n}.dll") }).collect();
        m.modules.push(app_module());
        if live {
            // frames inside a loaded module carry no unloaded-module attribution
            m.modules.push(ModM { base: UNL_BASE + 0x2000, size: 0x800, name: "live.dll".into() });
        }
        let mut probes: Vec<u64> = vec![];
        for r in m.unloaded.iter().chain(m.modules.iter().skip(1)) {
            let end = r.base + r.size as u64;
            probes.extend([r.base - 1, r.base, r.base + r.size as u64 / 2, end - 1, end]);
        }
        probes.sort_unstable();
        probes.dedup();
        let tids: Vec<u32> = (1..=probes.len() as u32).collect();
        add_threads(&mut m, &tids, 0);
        for (t, p) in m.threads.iter_mut().zip(&probes) {
            t.ip = *p;
        }
        m
    };
    Gen { name: "unloaded-overlap", len, model: Arc::new(model) }
}

// ---------------------------------------------------------------------------------------------
// C14 stack-region space: the memory a walk continues in is the memory its starting context
// points into (own generator and serialiser; `Model` / `build` are left as they are)

/// How a region encodes its callers.
#[derive(Clone, Copy, Debug, PartialEq, Eq, Hash)]
pub enum StackLayout {
    /// standard frame records `[saved frame pointer][return address]` chained through the frame
    /// pointer of the starting context; the outermost record is `[0][0]`
    FramePointer,
    /// no frame pointer (0); return addresses into a loaded module lie between zero words
    Scan,
}
/// Where the stack pointer of a starting context lies.
#[derive(Clone, Copy, Debug, PartialEq, Eq, Hash)]
pub enum SpLoc {
    /// the region the thread's own stack descriptor names
    Own,
    /// a region of the memory list no thread descriptor names (alternate signal stack)
    Extra,
    /// the region the other thread's stack descriptor names (switched stack / wrong descriptor)
    Sibling,
    /// a region that begins exactly where the thread's own stack region ends, the stack pointer being its
    /// first byte (one past the end of the stack descriptor)
    Adjacent,
}
#[derive(Clone)]
pub struct StackRegionM {
    pub base: u64,
    pub bytes: Vec<u8>,
    /// stack / frame pointer of a context that starts in this region
    pub sp: u64,
    pub fp: u64,
    /// what the region encodes, innermost caller first: return address and the caller's stack pointer
    pub returns: Vec<u64>,
    pub caller_sps: Vec<u64>,
}
impl std::fmt::Debug for StackRegionM {
    fn fmt(&self, f: &mut std::fmt::Formatter<'_>) -> std::fmt::Result {
        write!(f, "Region {{ base: {:#x}, len: {:#x}, sp: {:#x}, fp: {:#x}, returns: {:x?}, caller_sps: {:x?} }}", self.base, self.bytes.len(), self.sp, self.fp, self.returns, self.caller_sps)
    }
}
#[derive(Clone, Debug)]
pub struct StackM {
    /// the index part (CPU, OS, threads with the ip / sp of their contexts, exception, modules)
    pub model: Model,
    pub layout: StackLayout,
    /// the regions; `stream_order` is the order they have in the memory list
    pub regions: Vec<StackRegionM>,
    pub stream_order: Vec<usize>,
    /// per thread: the region its stack descriptor names / the region its thread context starts in
    pub own: Vec<usize>,
    pub thread_start: Vec<(SpLoc, usize)>,
    /// the region the exception context starts in
    pub exc_start: Option<(SpLoc, usize)>,
}
impl StackM {
    /// (which context, where its sp lies, region) the walk of thread `i` starts from
    pub fn start_of(&self, i: usize) -> (&'static str, SpLoc, usize) {
        match (&self.model.exc, self.exc_start) {
            (Some(x), Some((loc, r))) if x.tid == self.model.threads[i].tid => ("exception-context", loc, r),
            _ => ("thread-context", self.thread_start[i].0, self.thread_start[i].1),
        }
    }
    pub fn summary(&self) -> Value {
        json!(format!("{self:?}"))
    }
}

/// bytes of a readable context with instruction, stack and frame pointer (x86: ebp, amd64: rbp, arm64: x29)
pub fn context_with_fp(cpu: CpuK, ip: u64, sp: u64, fp: u64) -> Vec<u8> {
    match cpu {
        CpuK::X86 => zeroed_ctx::<md::CONTEXT_X86>(|c| {
            c.context_flags = 0x1003f;
            (c.eip, c.esp, c.ebp) = (ip as u32, sp as u32, fp as u32);
        }),
        CpuK::Amd64 => zeroed_ctx::<md::CONTEXT_AMD64>(|c| {
            c.context_flags = 0x10001f;
            (c.rip, c.rsp, c.rbp) = (ip, sp, fp);
        }),
        CpuK::Arm64 => zeroed_ctx::<md::CONTEXT_ARM64>(|c| {
            c.context_flags = 0x40001f;
            c.iregs[29] = fp;
            (c.pc, c.sp) = (ip, sp);
        }),
        _ => panic!("procgen: no frame-pointer context for {cpu:?}"),
    }
}

pub const STACK_REGIONS_BASE: u64 = STACK_BASE + 0x10_0000;
/// Region `j` (0x400 bytes at `STACK_REGIONS_BASE + 0x10000 * j`) encoding `depth` callers whose
/// return addresses lie in the application module. A context starting here has sp = base + 0x40.
/// Regions 4 and 5 begin where regions 0 and 1 end; a context starting there has sp = base.
pub fn stack_region(cpu: CpuK, layout: StackLayout, j: usize, depth: usize) -> StackRegionM {
    let w: u64 = if cpu.bits() == Some(32) { 4 } else { 8 };
    let base = if j >= 4 { STACK_REGIONS_BASE + 0x1_0000 * (j as u64 - 4) + 0x400 } else { STACK_REGIONS_BASE + 0x1_0000 * j as u64 };
    let mut bytes = vec![0u8; 0x400];
    let mut put = |addr: u64, v: u64| {
        let o = (addr - base) as usize;
        bytes[o..o + w as usize].copy_from_slice(&v.to_le_bytes()[..w as usize]);
    };
    let returns: Vec<u64> = (0..depth as u64).map(|k| APP_BASE + 0x1000 * (j as u64 + 1) + 0x10 * (k + 1)).collect();
    let sp = if j >= 4 { base } else { base + 0x40 };
    let mut caller_sps = vec![];
    let fp = match layout {
        StackLayout::FramePointer => {
            // frame pointers 0x40, 0x50, 0x60 bytes apart; the record at the last one stays [0][0]
            let mut fps = vec![base + 0x60];
            for k in 0..depth as u64 {
                fps.push(fps[k as usize] + 0x40 + 0x10 * k);
            }
            for k in 0..depth {
                put(fps[k], fps[k + 1]);
                put(fps[k] + w, returns[k]);
                caller_sps.push(fps[k] + 2 * w);
            }
            fps[0]
        }
        StackLayout::Scan => {
            for (k, ra) in returns.iter().enumerate() {
                let a = sp + w * (3 + 5 * k as u64);
                put(a, *ra);
                caller_sps.push(a + w);
            }
            0
        }
    };
    StackRegionM { base, bytes, sp, fp, returns, caller_sps }
}

pub fn build_stacks(s: &StackM) -> Vec<u8> {
    let e = Endian::Little;
    let m = &s.model;
    let mut d = synth::SynthMinidump::with_endian(e);
    // exception context first: its RVA is the header size (see `build`)
    let mut exc_loc = (0u32, 0u32);
    if let (Some(x), Some((_, r))) = (&m.exc, s.exc_start) {
        let b = context_with_fp(m.cpu, x.ctx_ip, x.ctx_sp, s.regions[r].fp);
        exc_loc = (b.len() as u32, 32);
        d = d.add(bytes_section(&b));
    }
    d = d.add_system_info(synth::SystemInfo::new(e).set_processor_architecture(m.cpu.arch()).set_platform_id(m.platform_id));
    let mems: Vec<synth::Memory> = s.regions.iter().map(|r| synth::Memory::with_section(bytes_section(&r.bytes), r.base)).collect();
    for (i, t) in m.threads.iter().enumerate() {
        let ctx = bytes_section(&context_with_fp(m.cpu, t.ip, t.sp, s.regions[s.thread_start[i].1].fp));
        d = d.add_thread(synth::Thread::new(e, t.tid, &mems[s.own[i]], &ctx)).add(ctx);
    }
    let mut slots: Vec<Option<synth::Memory>> = mems.into_iter().map(Some).collect();
    for &j in &s.stream_order {
        d = d.add_memory(slots[j].take().expect("procgen: stream_order is a permutation"));
    }
    for (tid, n) in &m.thread_names {
        let st = synth::DumpString::new(n, e);
        d = d.add_thread_name(synth::ThreadName::new(e, *tid, Some(&st))).add(st);
    }
    for md_ in &m.modules {
        let name = synth::DumpString::new(&md_.name, e);
        d = d.add_module(synth::Module::new(e, md_.base, md_.size, &name, 0x1234, 0, None)).add(name);
    }
    if let Some(x) = &m.exc {
        let mut ex = synth::Exception::new(e);
        ex.thread_id = x.tid;
        ex.exception_record.exception_code = x.code;
        ex.exception_record.exception_flags = x.flags;
        ex.exception_record.exception_address = x.address;
        ex.exception_record.number_parameters = x.nparams;
        ex.exception_record.exception_information = x.info;
        ex.thread_context = exc_loc;
        d = d.add_exception(ex);
    }
    d.finish().expect("procgen: synth dump finishes")
}

#[derive(Clone)]
pub struct StackGen {
    pub name: &'static str,
    pub len: u64,
    pub model: Arc<dyn Fn(u64) -> StackM + Send + Sync>,
}
pub const SP_LOCS: [SpLoc; 4] = [SpLoc::Own, SpLoc::Extra, SpLoc::Sibling, SpLoc::Adjacent];
pub const STACK_CPU_LAYOUTS: [(CpuK, StackLayout); 5] =
    [(CpuK::Amd64, StackLayout::FramePointer), (CpuK::X86, StackLayout::FramePointer), (CpuK::Arm64, StackLayout::FramePointer), (CpuK::Amd64, StackLayout::Scan), (CpuK::X86, StackLayout::Scan)];

/// C14 stack-region space: two threads (ids 1, 2), each with its own stack region (0, 1) and an
/// extra region (2, 3) that no descriptor names; every region encodes a different number of
/// callers (1..3) with its own return addresses; regions 4, 5 begin exactly where regions 0, 1 end.
/// Product of: exception {absent, names thread 0 / 1 with its context's sp in {own, extra, sibling's,
/// adjacent} region} (9) x thread 0's context sp location (4) x thread 1's (4) x depth rotation (3) x memory-list order {stacks first, extras
/// first} (2) x (CPU, layout) (5: frame-pointer chain on amd64 / x86 / arm64, scan on amd64 /
/// x86) x OS {Windows, Linux, Mac} (3).
pub fn gen_stack_regions(_tier: Tier) -> StackGen {
    let radices = vec![9u64, 4, 4, 3, 2, 5, 3];
    let len = crate::core::product(&radices);
    let model = move |idx: u64| {
        use md::PlatformId as P;
        let d = crate::core::unrank(idx, &radices);
        let (cpu, layout) = STACK_CPU_LAYOUTS[d[5] as usize];
        let pid = [P::VER_PLATFORM_WIN32_NT as u32, P::Linux as u32, P::MacOs as u32][d[6] as usize];
        let regions: Vec<StackRegionM> = (0..6).map(|j| stack_region(cpu, layout, j, 1 + (d[3] as usize + j) % 3)).collect();
        let region_of = |thread: usize, loc: SpLoc| match loc {
            SpLoc::Own => thread,
            SpLoc::Extra => 2 + thread,
            SpLoc::Sibling => 1 - thread,
            SpLoc::Adjacent => 4 + thread,
        };
        let mut m = Model::new(cpu, pid);
        add_threads(&mut m, &[1, 2], 0);
        m.modules.push(app_module());
        let thread_start: Vec<(SpLoc, usize)> = (0..2).map(|i| (SP_LOCS[d[1 + i] as usize], region_of(i, SP_LOCS[d[1 + i] as usize]))).collect();
        for i in 0..2 {
            m.threads[i].sp = regions[thread_start[i].1].sp;
            m.threads[i].ip = APP_BASE + 0x800 + 0x10 * i as u64;
        }
        let mut exc_start = None;
        if d[0] > 0 {
            let (t, loc) = (((d[0] - 1) / 4) as usize, SP_LOCS[((d[0] - 1) % 4) as usize]);
            let r = region_of(t, loc);
            let rec: Rec = if os_of(pid) == OsK::Windows { (0xC000_0005, 0, 2, [1, 0x20800, 0]) } else { (11, 1, 0, [0, 0, 0]) };
            let mut x = exc_of(rec, m.threads[t].tid, 0x45, 1);
            x.ctx_sp = regions[r].sp;
            m.exc = Some(x);
            exc_start = Some((loc, r));
        }
        let stream_order = if d[4] == 0 { vec![0, 1, 2, 3, 4, 5] } else { vec![5, 4, 3, 2, 1, 0] };
        StackM { model: m, layout, regions, stream_order, own: vec![0, 1], thread_start, exc_start }
    };
    StackGen { name: "stack-regions", len, model: Arc::new(model) }
}

// ---------------------------------------------------------------------------------------------
// C19 bit-flip space

pub const TOP: u64 = u64::MAX - 0xfff; // first byte of the topmost page
fn region_at(pos: u64, linux: bool) -> (u64, u64) {
    match pos {
        0 => (0, 0xfff),
        1 => (0x10000, 0x10fff),
        2 => (0x7fff_0000_0000, 0x7fff_0000_ffff),
        // a MemoryInfo entry cannot express a region whose last byte is 2^64-1 (base + size must
        // not overflow), the Linux maps can
        _ => (TOP, if linux { u64::MAX } else { u64::MAX - 1 }),
    }
}
// (the read-write entry also carries PAGE_TARGETS_NO_UPDATE = 0x4000_0000, a bit outside the protection table: the
// access rights of a region are those of its known bits)
const INFO_PERMS: [u32; 7] = [0x01, 0x02, 0x08, 0x10, 0x4000_0004, 0x20, 0x104];
const LINUX_PERMS: [&str; 7] = ["", "r", "w", "x", "rw", "rx", "rwx"];

pub fn bitflip_addresses(tier: Tier) -> Vec<u64> {
    let all_bits: Vec<u32> = (0..64).collect();
    let some_bits: Vec<u32> = vec![0, 3, 12, 20, 31, 32, 40, 46, 47, 48, 49, 56, 63];
    let bits = if tier == Tier::Thorough { all_bits } else { some_bits };
    let mut v: Vec<u64> = vec![0, 1, 8, 0x1000, 0x1fff, 0x2000, 0x2001, u64::MAX, (1 << 47) - 1, 1 << 47, (1 << 47) + 1, 1 << 48, 0xFFFF_7FFF_FFFF_FFFF, 0xFFFF_8000_0000_0000];
    for pos in 0..4 {
        let (a, z) = region_at(pos, true);
        v.extend([a.wrapping_sub(1), a, z, z.wrapping_add(1), z.wrapping_sub(1)]);
    }
    for base in [0x10010u64, 0x7fff_0000_0010] {
        for &bit in &bits {
            v.push(base ^ (1 << bit));
        }
    }
    for bit in [47u32, 48, 63, 12] {
        v.push((TOP + 0x10) ^ (1 << bit));
    }
    v.push(0x10 ^ (1 << 48));
    let mut out = vec![];
    for a in v {
        if !out.contains(&a) {
            out.push(a);
        }
    }
    out
}

/// exception kinds: (platform, code, flags, nparams, info0, address-in-parameter?)
fn bitflip_exc(kind: u64, a: u64) -> (u32, Rec, u64) {
    use md::PlatformId as P;
    let (w, l, mac) = (P::VER_PLATFORM_WIN32_NT as u32, P::Linux as u32, P::MacOs as u32);
    match kind {
        0 => (w, (0xC000_0005, 0, 2, [0, a, 0]), 0x4000_2000),
        1 => (w, (0xC000_0005, 0, 2, [1, a, 0]), 0x4000_2000),
        2 => (w, (0xC000_0005, 0, 2, [8, a, 0]), 0x4000_2000),
        3 => (w, (0xC000_0094, 0, 0, [0, 0, 0]), a),
        4 => (l, (11, 1, 0, [0, 0, 0]), a),
        5 => (l, (11, 0x80, 0, [0, 0, 0]), a),
        6 => (mac, (1, 1, 0, [0, 0, 0]), a),
        _ => (mac, (1, 13, 0, [0, 0, 0]), a),
    }
}
pub const RSP_MENU: [u64; 6] = [0x10010 ^ (1 << 20), 0x0001_0000_0001_0010, 0x10010, 0x0000_8000_0001_0010, STACK_BASE, 0x7fff_0000_0010 ^ (1 << 3)];

/// C19: examined address x memory map (0..3 regions, 7 permission rotations, MemoryInfoList or
/// LinuxMaps) x exception kind x instruction at the crash site, for amd64; the same without the
/// instruction factor for ppc64 (context, no disassembly) and mips64 (no context); a reduced
/// product for arm64 / old arm64 / x86 / arm where nothing may be reported.
pub fn gen_bitflip(tier: Tier) -> Gen {
    let addrs = bitflip_addresses(tier);
    let mut sets: Vec<Vec<u64>> = vec![vec![], vec![1], vec![1, 2], vec![0, 1], vec![1, 3], vec![0, 1, 2], vec![1, 2, 3]];
    if tier == Tier::Thorough {
        sets.extend([vec![0], vec![2], vec![3], vec![0, 3], vec![2, 3], vec![0, 1, 2, 3]]);
    }
    let n_instr: u64 = tier.pick(6, 9);
    // (cpu, instruction kinds, permission rotations)
    let blocks: Vec<(CpuK, u64, u64)> = vec![(CpuK::Amd64, n_instr, 7), (CpuK::Ppc64, 1, 7), (CpuK::Mips64, 1, 7), (CpuK::Arm64, 1, 1), (CpuK::Arm64Old, 1, 1), (CpuK::X86, 1, 1), (CpuK::Arm, 1, 1), (CpuK::Mips, 1, 1), (CpuK::Sparc, 1, 1), (CpuK::Ppc, 1, 1)];
    let na = addrs.len() as u64;
    let ns = sets.len() as u64;
    let sizes: Vec<u64> = blocks.iter().map(|b| na * ns * b.2 * 2 * 8 * b.1).collect();
    let len: u64 = sizes.iter().sum();
    let model = move |mut idx: u64| {
        let mut bi = 0;
        while idx >= sizes[bi] {
            idx -= sizes[bi];
            bi += 1;
        }
        let (cpu, ni, nrot) = blocks[bi];
        let d = crate::core::unrank(idx, &[na, 8, ni, 2, nrot, ns]);
        let a = addrs[d[0] as usize];
        let (pid, rec, exc_addr) = bitflip_exc(d[1], a);
        let mut m = Model::new(cpu, pid);
        add_threads(&mut m, &[1], 0);
        m.threads[0].ip = 0x4000_2000;
        m.modules.push(app_module());
        let linux = d[3] == 1;
        let regs: Vec<(u64, u64, usize)> = sets[d[5] as usize].iter().enumerate().map(|(j, &p)| (region_at(p, linux).0, region_at(p, linux).1, ((d[4] + 3 * j as u64) % 7) as usize)).collect();
        m.maps = if regs.is_empty() {
            MapsM::None
        } else if linux {
            MapsM::Linux(regs.iter().map(|r| (r.0, r.1, LINUX_PERMS[r.2])).collect())
        } else {
            MapsM::Info(regs.iter().map(|r| (r.0, r.1 - r.0 + 1, INFO_PERMS[r.2])).collect())
        };
        let mut x = exc_of(rec, 1, exc_addr, 1);
        x.ctx_ip = 0x4000_2000;
        x.ctx_sp = STACK_BASE;
        // instruction at the crash site (amd64): none / nop / mov al,[rsp] with rsp from the menu / mov al,[rax] with rax = 0
        let instr = d[2];
        let code: Option<&[u8]> = match instr {
            0 => None,
            1 => Some(&[0x90]),
            2..=4 | 6..=8 => Some(&[0x8a, 0x04, 0x24]),
            _ => Some(&[0x8a, 0x00]),
        };
        if let (Some(c), CpuK::Amd64) = (code, cpu) {
            let mut b = c.to_vec();
            b.resize(16, 0x90);
            m.code = Some((0x4000_2000, b));
            match instr {
                2..=4 => x.ctx_sp = RSP_MENU[(instr - 2) as usize],
                6..=8 => x.ctx_sp = RSP_MENU[(instr - 3) as usize],
                _ => {}
            }
        }
        m.exc = Some(x);
        m
    };
    Gen { name: "bitflip", len, model: Arc::new(model) }
}

/// Non-canonical amd64 values examined by `gen_bitflip_neighbours` (as rsp of `mov al,[rsp]`): one
/// bit (48, 47, 63, 56) away from a low user address, the lowest non-canonical value and 2^48 and
/// 2^63 (one bit away from null), a value of the highest non-canonical page (bit 47 away from the
/// topmost page), and one that is more than one bit away from every canonical address.
pub const NONCANON_MENU: [u64; 9] = [
    0x0001_0000_0001_0010,
    0x0000_8000_0001_0010,
    0x0000_8000_0000_0000,
    0xffff_7fff_ffff_fff0,
    0x8000_0000_0000_0000,
    0x0001_0000_0000_0000,
    0x8000_0000_0001_0010,
    0x0100_0000_0001_0010,
    0x0003_0000_0001_0010,
];
fn page_region(n: u64, linux: bool) -> (u64, u64) {
    let base = n & !0xfff;
    // as in `region_at`: a MemoryInfo entry cannot end at 2^64-1
    (base, if base == TOP && !linux { u64::MAX - 1 } else { base + 0xfff })
}

/// C19, maps placed relative to the examined value: for every non-canonical value v of
/// `NONCANON_MENU` (quick: the first 6) and every bit b of 40..64 (thorough: 0..64), the map is
/// {the page of v ^ 2^b}, {the page next to it} (neighbour unmapped) or {the page of v, the page of
/// v ^ 2^b} (examined value itself mapped), under 7 permission rotations, as MemoryInfoList and as
/// LinuxMaps, for the three general-protection-fault renderings (Windows AV read at 2^64-1, Linux
/// SIGSEGV/SI_KERNEL at 0, Mac EXC_I386_GPFLT at 0) and one page-fault rendering (Linux MAPERR at
/// 0), on amd64 with `mov al,[rsp]`, rsp = v, at the crash site.
pub fn gen_bitflip_neighbours(tier: Tier) -> Gen {
    let vals: Vec<u64> = NONCANON_MENU[..tier.pick(6, NONCANON_MENU.len())].to_vec();
    let bits: Vec<u32> = if tier == Tier::Thorough { (0..64).collect() } else { (40..64).collect() };
    let radices = vec![4u64, 2, 7, 3, bits.len() as u64, vals.len() as u64];
    let len = crate::core::product(&radices);
    let model = move |idx: u64| {
        let d = crate::core::unrank(idx, &radices);
        let (kind, linux, rot, variant, bit, v) = ([0u64, 5, 7, 4][d[0] as usize], d[1] == 1, d[2], d[3], bits[d[4] as usize], vals[d[5] as usize]);
        let n = v ^ (1u64 << bit);
        let (pid, rec, exc_addr) = bitflip_exc(kind, if kind == 0 { u64::MAX } else { 0 });
        let mut m = Model::new(CpuK::Amd64, pid);
        add_threads(&mut m, &[1], 0);
        m.threads[0].ip = 0x4000_2000;
        m.modules.push(app_module());
        let pn = page_region(n, linux);
        let mut regs: Vec<(u64, u64)> = match variant {
            0 => vec![pn],
            1 => vec![page_region(if pn.0 == TOP { pn.0 - 0x1000 } else { pn.0 + 0x1000 }, linux)],
            _ => vec![page_region(v, linux), pn],
        };
        regs.sort_unstable();
        regs.dedup();
        let perm = |j: usize| ((rot + 3 * j as u64) % 7) as usize;
        m.maps = if linux {
            MapsM::Linux(regs.iter().enumerate().map(|(j, r)| (r.0, r.1, LINUX_PERMS[perm(j)])).collect())
        } else {
            MapsM::Info(regs.iter().enumerate().map(|(j, r)| (r.0, r.1 - r.0 + 1, INFO_PERMS[perm(j)])).collect())
        };
        let mut x = exc_of(rec, 1, exc_addr, 1);
        x.ctx_ip = 0x4000_2000;
        x.ctx_sp = v;
        let mut b = vec![0x8a, 0x04, 0x24];
        b.resize(16, 0x90);
        m.code = Some((0x4000_2000, b));
        m.exc = Some(x);
        m
    };
    Gen { name: "bitflip-neighbours", len, model: Arc::new(model) }
}

// ---------------------------------------------------------------------------------------------
// C15 hostile names

pub fn hostile_names() -> Vec<String> {
    let mut v: Vec<String> = vec![];
    for c in 0u32..0x20 {
        v.push(format!("x{}y", char::from_u32(c).unwrap()));
    }
    v.extend(
        [
            "a\"b", "a\\b", "\"", "\\", "\\\"", "a\\u0041b", "\u{7f}", "\u{1F600}\u{10348}", "\u{fffd}", "lossy\u{fffd}\u{fffd}x", "\u{2028}\u{2029}", "\u{feff}bom", "\u{ffff}", "</script><!--", "", "/", "..\\..\\x", "tab\there\nnewline\r\n", "{\"k\":[1,2]}", "nul\0\0", "é\u{301}ü",
        ]
        .iter()
        .map(|s| s.to_string()),
    );
    v.push((0u32..0x20).map(|c| char::from_u32(c).unwrap()).collect::<String>() + "\"\\/\u{1F600}");
    v.push("A".repeat(70_000) + "\"\\\u{1}");
    v
}

/// where the name goes: 0 loaded module, 1 thread, 2 function, 3 source file, 4 unloaded module,
/// 5 everywhere at once (function/file additionally carry invalid UTF-8 bytes)
pub fn gen_names(_tier: Tier) -> Gen {
    let names = hostile_names();
    let nn = names.len() as u64;
    let len = nn * 6 * 2;
    let model = move |idx: u64| {
        let d = crate::core::unrank(idx, &[nn, 6, 2]);
        let name = &names[d[0] as usize];
        let point = d[1];
        let cpu = [CpuK::X86, CpuK::Amd64][d[2] as usize];
        let mut m = Model::new(cpu, md::PlatformId::VER_PLATFORM_WIN32_NT as u32);
        add_threads(&mut m, &[1, 2], 0);
        m.threads[1].ip = 0x5000_1000;
        let mut app = app_module();
        if point == 0 || point == 5 {
            app.name = name.clone();
        }
        if point == 1 || point == 5 {
            m.thread_names = vec![(1, name.clone()), (2, format!("{name}{name}"))];
        }
        // symbol-file lines end at \n / \r: those two cannot be part of a name there
        let line_safe: String = name.chars().filter(|c| *c != '\n' && *c != '\r').collect();
        let mut func: Vec<u8> = b"plain_fn".to_vec();
        let mut file: Vec<u8> = b"plain.c".to_vec();
        if point == 2 || point == 5 {
            func = line_safe.clone().into_bytes();
        }
        if point == 3 || point == 5 {
            file = line_safe.clone().into_bytes();
        }
        if point == 5 {
            // the symbol parser is strict about UTF-8; lossy decoding happens for the Linux text streams
            let mut b = b"DISTRIB_ID=".to_vec();
            b.extend_from_slice(line_safe.as_bytes());
            b.extend_from_slice(b"\xff\xfe\"q\\\nDISTRIB_RELEASE=\xc3\x28\x80\nDISTRIB_CODENAME=");
            b.extend_from_slice(line_safe.as_bytes());
            b.extend_from_slice(b"\nDISTRIB_DESCRIPTION=\"\xf0\x9f\x98\"\n");
            m.lsb = Some(b);
        }
        let mut sym: Vec<u8> = b"MODULE windows x86 000000000000000000000000000000000 app.pdb\nFILE 0 ".to_vec();
        sym.extend_from_slice(&file);
        sym.extend_from_slice(b"\nFUNC 1000 100 0 ");
        sym.extend_from_slice(&func);
        sym.extend_from_slice(b"\n1000 100 42 0\n");
        m.syms = vec![(app.name.clone(), sym)];
        m.modules.push(app);
        m.unloaded.push(ModM { base: 0x5000_0000, size: 0x10000, name: if point == 4 || point == 5 { name.clone() } else { "old.dll".into() } });
        m.exc = Some(exc_of((0xC000_0005, 0, 2, [1, 0x20800, 0]), 1, 0x45, 1));
        m.exc.as_mut().unwrap().ctx_ip = APP_BASE + 0x1010;
        m
    };
    Gen { name: "names", len, model: Arc::new(model) }
}

/// C15 edge: a (loaded | unloaded) module whose base + size is 2^64-1 (the largest the reader keeps) or 2^64.
pub fn gen_edge_modules(_tier: Tier) -> Gen {
    let model = move |idx: u64| {
        let d = crate::core::unrank(idx, &[2, 2, 2]);
        let cpu = [CpuK::Amd64, CpuK::X86][d[2] as usize];
        let mut m = Model::new(cpu, md::PlatformId::Linux as u32);
        add_threads(&mut m, &[1], 0);
        m.modules.push(app_module());
        let edge = ModM { base: u64::MAX - 0xfff, size: if d[1] == 0 { 0xfff } else { 0x1000 }, name: "top.so".into() };
        if d[0] == 0 {
            m.modules.push(edge);
        } else {
            m.unloaded.push(edge);
        }
        m
    };
    Gen { name: "edge-modules", len: 8, model: Arc::new(model) }
}

// =============================================================================================
// independent strict JSON parser (RFC 8259), so that escapes are not judged by the writer's crate

#[derive(Clone, Debug, PartialEq)]
pub enum J {
    Null,
    Bool(bool),
    /// the number's text
    Num(String),
    Str(String),
    Arr(Vec<J>),
    Obj(Vec<(String, J)>),
}
impl J {
    pub fn get(&self, k: &str) -> &J {
        static NULL: J = J::Null;
        match self {
            J::Obj(v) => v.iter().find(|x| x.0 == k).map(|x| &x.1).unwrap_or(&NULL),
            _ => &NULL,
        }
    }
    pub fn has(&self, k: &str) -> bool {
        matches!(self, J::Obj(v) if v.iter().any(|x| x.0 == k))
    }
    pub fn arr(&self) -> &[J] {
        match self {
            J::Arr(v) => v,
            _ => &[],
        }
    }
    pub fn str(&self) -> Option<&str> {
        match self {
            J::Str(s) => Some(s),
            _ => None,
        }
    }
    pub fn uint(&self) -> Option<u64> {
        match self {
            J::Num(s) => s.parse::<u64>().ok(),
            _ => None,
        }
    }
    pub fn is_null(&self) -> bool {
        matches!(self, J::Null)
    }
    /// value of a `0x...` string
    pub fn hex(&self) -> Option<u64> {
        let s = self.str()?.strip_prefix("0x")?;
        if s.is_empty() || s.len() > 16 && s.trim_start_matches('0').len() > 16 {
            return None;
        }
        u64::from_str_radix(s, 16).ok()
    }
}

struct P<'a> {
    s: &'a [u8],
    i: usize,
    depth: u32,
}
impl P<'_> {
    fn err<T>(&self, m: &str) -> Result<T, String> {
        Err(format!("{m} at byte {}", self.i))
    }
    fn ws(&mut self) {
        while self.i < self.s.len() && matches!(self.s[self.i], b' ' | b'\t' | b'\n' | b'\r') {
            self.i += 1;
        }
    }
    fn lit(&mut self, w: &str, v: J) -> Result<J, String> {
        if self.s[self.i..].starts_with(w.as_bytes()) {
            self.i += w.len();
            Ok(v)
        } else {
            self.err("bad literal")
        }
    }
    fn hex4(&mut self) -> Result<u32, String> {
        if self.i + 4 > self.s.len() {
            return self.err("short \\u escape");
        }
        let mut v = 0u32;
        for k in 0..4 {
            let c = self.s[self.i + k];
            let d = match c {
                b'0'..=b'9' => c - b'0',
                b'a'..=b'f' => c - b'a' + 10,
                b'A'..=b'F' => c - b'A' + 10,
                _ => return self.err("bad hex digit in \\u escape"),
            };
            v = v * 16 + d as u32;
        }
        self.i += 4;
        Ok(v)
    }
    fn string(&mut self) -> Result<String, String> {
        // at opening quote
        self.i += 1;
        let mut out: Vec<u8> = vec![];
        loop {
            if self.i >= self.s.len() {
                return self.err("unterminated string");
            }
            let c = self.s[self.i];
            match c {
                b'"' => {
                    self.i += 1;
                    break;
                }
                0..=0x1f => return self.err("raw control character in string"),
                b'\\' => {
                    self.i += 1;
                    if self.i >= self.s.len() {
                        return self.err("dangling backslash");
                    }
                    let e = self.s[self.i];
                    self.i += 1;
                    let ch: char = match e {
                        b'"' => '"',
                        b'\\' => '\\',
                        b'/' => '/',
                        b'b' => '\u{8}',
                        b'f' => '\u{c}',
                        b'n' => '\n',
                        b'r' => '\r',
                        b't' => '\t',
                        b'u' => {
                            let u = self.hex4()?;
                            if (0xD800..0xDC00).contains(&u) {
                                if !self.s[self.i..].starts_with(b"\\u") {
                                    return self.err("unpaired high surrogate escape");
                                }
                                self.i += 2;
                                let lo = self.hex4()?;
                                if !(0xDC00..0xE000).contains(&lo) {
                                    return self.err("high surrogate not followed by low surrogate");
                                }
                                char::from_u32(0x10000 + ((u - 0xD800) << 10) + (lo - 0xDC00)).unwrap()
                            } else if (0xDC00..0xE000).contains(&u) {
                                return self.err("unpaired low surrogate escape");
                            } else {
                                char::from_u32(u).unwrap()
                            }
                        }
                        _ => return self.err("unknown escape"),
                    };
                    let mut b = [0u8; 4];
                    out.extend_from_slice(ch.encode_utf8(&mut b).as_bytes());
                }
                _ => {
                    out.push(c);
                    self.i += 1;
                }
            }
        }
        // the whole input was checked to be UTF-8 and escapes produce scalar values
        String::from_utf8(out).map_err(|_| "string is not UTF-8".to_string())
    }
    fn number(&mut self) -> Result<J, String> {
        let st = self.i;
        let dig = |p: &mut Self| {
            let s = p.i;
            while p.i < p.s.len() && p.s[p.i].is_ascii_digit() {
                p.i += 1;
            }
            p.i - s
        };
        if self.s[self.i] == b'-' {
            self.i += 1;
        }
        if self.i < self.s.len() && self.s[self.i] == b'0' {
            self.i += 1;
        } else if dig(self) == 0 {
            return self.err("bad number");
        }
        if self.i < self.s.len() && self.s[self.i] == b'.' {
            self.i += 1;
            if dig(self) == 0 {
                return self.err("bad fraction");
            }
        }
        if self.i < self.s.len() && matches!(self.s[self.i], b'e' | b'E') {
            self.i += 1;
            if self.i < self.s.len() && matches!(self.s[self.i], b'+' | b'-') {
                self.i += 1;
            }
            if dig(self) == 0 {
                return self.err("bad exponent");
            }
        }
        Ok(J::Num(String::from_utf8(self.s[st..self.i].to_vec()).unwrap()))
    }
    fn value(&mut self) -> Result<J, String> {
        self.ws();
        if self.i >= self.s.len() {
            return self.err("unexpected end");
        }
        self.depth += 1;
        if self.depth > 200 {
            return self.err("too deep");
        }
        let r = match self.s[self.i] {
            b'n' => self.lit("null", J::Null),
            b't' => self.lit("true", J::Bool(true)),
            b'f' => self.lit("false", J::Bool(false)),
            b'"' => self.string().map(J::Str),
            b'-' | b'0'..=b'9' => self.number(),
            b'[' => {
                self.i += 1;
                let mut v = vec![];
                self.ws();
                if self.i < self.s.len() && self.s[self.i] == b']' {
                    self.i += 1;
                    Ok(J::Arr(v))
                } else {
                    loop {
                        v.push(self.value()?);
                        self.ws();
                        match self.s.get(self.i) {
                            Some(b',') => self.i += 1,
                            Some(b']') => {
                                self.i += 1;
                                break Ok(J::Arr(v));
                            }
                            _ => break self.err("expected , or ]"),
                        }
                    }
                }
            }
            b'{' => {
                self.i += 1;
                let mut v: Vec<(String, J)> = vec![];
                self.ws();
                if self.i < self.s.len() && self.s[self.i] == b'}' {
                    self.i += 1;
                    Ok(J::Obj(v))
                } else {
                    loop {
                        self.ws();
                        if self.s.get(self.i) != Some(&b'"') {
                            break self.err("expected object key");
                        }
                        let k = self.string()?;
                        if v.iter().any(|x| x.0 == k) {
                            break self.err("duplicate object key");
                        }
                        self.ws();
                        if self.s.get(self.i) != Some(&b':') {
                            break self.err("expected :");
                        }
                        self.i += 1;
                        let val = self.value()?;
                        v.push((k, val));
                        self.ws();
                        match self.s.get(self.i) {
                            Some(b',') => self.i += 1,
                            Some(b'}') => {
                                self.i += 1;
                                break Ok(J::Obj(v));
                            }
                            _ => break self.err("expected , or }"),
                        }
                    }
                }
            }
            _ => self.err("unexpected character"),
        };
        self.depth -= 1;
        r
    }
}
pub fn parse_json(bytes: &[u8]) -> Result<J, String> {
    if std::str::from_utf8(bytes).is_err() {
        return Err("output is not valid UTF-8".into());
    }
    let mut p = P { s: bytes, i: 0, depth: 0 };
    let v = p.value()?;
    p.ws();
    if p.i != bytes.len() {
        return p.err("trailing bytes after the document");
    }
    Ok(v)
}
/// structural equality with what serde_json reads from the same bytes
pub fn same_as_serde(j: &J, v: &Value) -> bool {
    match (j, v) {
        (J::Null, Value::Null) => true,
        (J::Bool(a), Value::Bool(b)) => a == b,
        (J::Str(a), Value::String(b)) => a == b,
        (J::Num(a), Value::Number(n)) => {
            if let (Ok(x), Some(y)) = (a.parse::<u64>(), n.as_u64()) {
                x == y
            } else if let (Ok(x), Some(y)) = (a.parse::<i64>(), n.as_i64()) {
                x == y
            } else {
                a.parse::<f64>().ok() == n.as_f64()
            }
        }
        (J::Arr(a), Value::Array(b)) => a.len() == b.len() && a.iter().zip(b).all(|(x, y)| same_as_serde(x, y)),
        (J::Obj(a), Value::Object(b)) => a.len() == b.len() && a.iter().all(|(k, x)| b.get(k).is_some_and(|y| same_as_serde(x, y))),
        _ => false,
    }
}

// =============================================================================================
// json-schema.md, mechanised. Every field may be null or absent ("the most important rule");
// a field name the document does not list is reported (allow-list: `proc_limits`, which the
// implementation emits and the document forgot).

#[derive(Clone, Debug)]
pub enum Ty {
    Uint,
    Float,
    Bool,
    Str,
    /// `0x` + lowercase hex fitting u64
    Hex,
    /// hexstring padded to the crashing platform's pointer width
    Addr,
    Enum(Vec<&'static str>),
    /// one of the listed OS names or a hexstring
    OsName,
    Arr(Box<Ty>),
    Obj(Vec<(&'static str, Ty)>),
    Map(Box<Ty>),
    Any,
}
fn obj(v: Vec<(&'static str, Ty)>) -> Ty {
    Ty::Obj(v)
}
fn arr(t: Ty) -> Ty {
    Ty::Arr(Box::new(t))
}
pub fn schema() -> &'static Ty {
    static S: OnceLock<Ty> = OnceLock::new();
    S.get_or_init(|| {
        use Ty::*;
        let frame = || {
            obj(vec![
                ("frame", Uint),
                ("trust", Enum(vec!["context", "cfi", "frame_pointer", "scan"])),
                ("registers", Map(Box::new(Addr))),
                ("offset", Addr),
                ("module", Str),
                ("module_offset", Addr),
                ("unloaded_modules", arr(obj(vec![("module", Str), ("offsets", arr(Addr))]))),
                ("inlines", arr(obj(vec![("function", Str), ("file", Str), ("line", Uint)]))),
                ("function", Str),
                ("function_offset", Addr),
                ("file", Str),
                ("line", Uint),
                ("missing_symbols", Bool),
            ])
        };
        let thread = |extra: bool| {
            let mut f = vec![("thread_name", Str), ("thread_id", Uint), ("last_error_value", Str), ("frame_count", Uint), ("frames", arr(frame()))];
            if extra {
                f.push(("threads_index", Uint));
            }
            obj(f)
        };
        obj(vec![
            ("status", Str),
            ("pid", Uint),
            (
                "crash_info",
                obj(vec![
                    ("type", Str),
                    ("address", Addr),
                    ("adjusted_address", obj(vec![("kind", Enum(vec!["non-canonical", "null-pointer"])), ("address", Addr), ("offset", Addr)])),
                    ("instruction", Str),
                    ("memory_accesses", arr(obj(vec![("address", Addr), ("size", Uint), ("is_likely_guard_page", Bool), ("access_type", Enum(vec!["read", "write", "readwrite"]))]))),
                    ("instruction_pointer_update", obj(vec![("address", Addr), ("is_likely_guard_page", Bool)])),
                    (
                        "possible_bit_flips",
                        arr(obj(vec![
                            ("address", Addr),
                            ("details", obj(vec![("was_non_canonical", Bool), ("is_null", Bool), ("was_low", Bool), ("poison_registers", Bool), ("nearby_registers", Uint)])),
                            ("confidence", Float),
                            ("source_register", Str),
                        ])),
                    ),
                    (
                        "crash_inconsistencies",
                        arr(Enum(vec![
                            "int_div_by_zero_not_possible",
                            "priv_instruction_crash_without_priv_instruction",
                            "non_canonical_address_falsely_reported",
                            "access_violation_when_access_allowed",
                            "crashing_access_not_found_in_memory_accesses",
                        ])),
                    ),
                    ("crashing_thread", Uint),
                    ("assertion", Str),
                ]),
            ),
            (
                "system_info",
                obj(vec![
                    ("os", OsName),
                    ("os_ver", Str),
                    // the document lists 8 names and says enumerations are not exhaustive; "mips" and
                    // "mips64" are the two further names `Cpu` can print
                    ("cpu_arch", Enum(vec!["x86", "amd64", "ppc", "ppc64", "sparc", "arm", "arm64", "unknown", "mips", "mips64"])),
                    ("cpu_info", Str),
                    ("cpu_count", Uint),
                    ("cpu_microcode_version", Hex),
                ]),
            ),
            ("linux_memory_map_count", Uint),
            ("thread_count", Uint),
            ("threads", arr(thread(false))),
            ("crashing_thread", thread(true)),
            ("main_module", Uint),
            ("modules_contains_cert_info", Bool),
            (
                "modules",
                arr(obj(vec![
                    ("base_addr", Addr),
                    ("end_addr", Addr),
                    ("debug_file", Str),
                    ("debug_id", Str),
                    ("filename", Str),
                    ("code_id", Str),
                    ("version", Str),
                    ("cert_subject", Str),
                    ("missing_symbols", Bool),
                    ("loaded_symbols", Bool),
                    ("corrupt_symbols", Bool),
                    ("symbol_url", Str),
                ])),
            ),
            ("unloaded_modules", arr(obj(vec![("base_addr", Addr), ("end_addr", Addr), ("code_id", Str), ("filename", Str), ("cert_subject", Str)]))),
            ("handles", arr(obj(vec![("handle", Uint), ("type_name", Str), ("object_name", Str)]))),
            ("lsb_release", obj(vec![("id", Str), ("release", Str), ("codename", Str), ("description", Str)])),
            (
                "mac_crash_info",
                obj(vec![
                    ("num_records", Uint),
                    ("records", arr(obj(vec![("thread", Addr), ("dialog_mode", Addr), ("abort_cause", Addr), ("module", Str), ("message", Str), ("signature_string", Str), ("backtrace", Str), ("message2", Str)]))),
                ]),
            ),
            ("mac_boot_args", Str),
            ("soft_errors", arr(Any)),
            ("proc_limits", Any),
        ])
    })
}

fn is_hexstring(s: &str) -> bool {
    match s.strip_prefix("0x") {
        Some(h) => !h.is_empty() && h.bytes().all(|c| c.is_ascii_digit() || (b'a'..=b'f').contains(&c)) && h.trim_start_matches('0').len() <= 16,
        None => false,
    }
}
pub const OS_NAMES: [&str; 8] = ["Windows NT", "Mac OS X", "iOS", "Linux", "Solaris", "Android", "PS3", "NaCl"];

/// Check `j` against `ty`; problems are pushed as (signature, human sentence). `bits` is the
/// pointer width implied by `system_info.cpu_arch` (None: unknown, only hexstring-ness is required).
pub fn check_schema(ty: &Ty, j: &J, path: &str, bits: Option<u32>, out: &mut Vec<(String, String)>) {
    if j.is_null() {
        return;
    }
    let mut bad = |why: &str, j: &J| {
        let mut shown = format!("{j:?}");
        if shown.len() > 120 {
            shown = shown.chars().take(120).collect();
        }
        out.push((format!("c15:{path}:{why}"), format!("JSON field {path} = {shown}: {why}")));
    };
    match ty {
        Ty::Any => {}
        Ty::Uint => {
            if j.uint().is_none() {
                bad("not-an-unsigned-integer", j)
            }
        }
        Ty::Float => match j {
            J::Num(s) if s.parse::<f64>().is_ok_and(|f| f.is_finite()) => {}
            _ => bad("not-a-number", j),
        },
        Ty::Bool => {
            if !matches!(j, J::Bool(_)) {
                bad("not-a-bool", j)
            }
        }
        Ty::Str => {
            if j.str().is_none() {
                bad("not-a-string", j)
            }
        }
        Ty::Hex => {
            if !j.str().is_some_and(is_hexstring) {
                bad("not-a-hexstring", j)
            }
        }
        Ty::Addr => match j.str() {
            Some(s) if is_hexstring(s) => {
                let need = match bits {
                    Some(32) => 8,
                    Some(64) => 16,
                    _ => 1,
                };
                if s.len() - 2 < need {
                    bad("hexstring-not-padded-to-pointer-width", j)
                }
            }
            _ => bad("not-a-hexstring", j),
        },
        Ty::Enum(vs) => {
            if !j.str().is_some_and(|s| vs.contains(&s)) {
                bad("not-in-enumeration", j)
            }
        }
        Ty::OsName => {
            if !j.str().is_some_and(|s| OS_NAMES.contains(&s) || is_hexstring(s)) {
                bad("not-hexstring-or-known", j)
            }
        }
        Ty::Arr(t) => match j {
            J::Arr(v) => {
                let p = format!("{path}[]");
                for x in v {
                    check_schema(t, x, &p, bits, out);
                }
            }
            _ => bad("not-an-array", j),
        },
        Ty::Map(t) => match j {
            J::Obj(v) => {
                let p = format!("{path}.*");
                for (_, x) in v {
                    check_schema(t, x, &p, bits, out);
                }
            }
            _ => bad("not-an-object", j),
        },
        Ty::Obj(fields) => match j {
            J::Obj(v) => {
                for (k, x) in v {
                    match fields.iter().find(|f| f.0 == k) {
                        Some(f) => {
                            let p = if path.is_empty() { k.clone() } else { format!("{path}.{k}") };
                            check_schema(&f.1, x, &p, bits, out);
                        }
                        None => {
                            let k: String = k.chars().take(40).collect();
                            out.push((format!("c15:{path}:undocumented-field:{k}"), format!("JSON object {path} has a field `{k}` the schema document does not list")));
                        }
                    }
                }
            }
            _ => bad("not-an-object", j),
        },
    }
}

/// Everything C15 states about one JSON rendering, given the state it was rendered from:
/// validity (UTF-8, strict grammar, agreement with serde_json), schema, redundant fields, and
/// that every string/number the state holds comes back unchanged through the independent parser.
pub fn check_json(st: &ProcessState, bytes: &[u8], out: &mut Vec<(String, String)>) -> Option<J> {
    let j = match parse_json(bytes) {
        Ok(j) => j,
        Err(e) => {
            out.push(("c15:document:not-valid-json".into(), format!("print_json output is not strict JSON: {e}")));
            return None;
        }
    };
    match serde_json::from_slice::<Value>(bytes) {
        Ok(v) => {
            if !same_as_serde(&j, &v) {
                out.push(("c15:document:parsers-disagree".into(), "independent parser and serde_json read different documents".into()));
            }
        }
        Err(e) => out.push(("c15:document:serde-rejects".into(), format!("serde_json rejects the output: {e}"))),
    }
    let mut fail = |sig: &str, what: String| out.push((format!("c15:{sig}"), what));
    let arch = j.get("system_info").get("cpu_arch").str().unwrap_or("");
    let bits = match arch {
        "x86" | "ppc" | "sparc" | "arm" | "mips" => Some(32),
        "amd64" | "ppc64" | "arm64" | "mips64" => Some(64),
        _ => None,
    };
    // the state says which CPU it is; the JSON name must be that CPU's
    if arch != st.system_info.cpu.to_string() {
        fail("system_info.cpu_arch:differs-from-state", format!("cpu_arch {arch:?} but the state's cpu is {}", st.system_info.cpu));
    }
    let mut sch = vec![];
    check_schema(schema(), &j, "", bits, &mut sch);
    out.extend(sch);
    let mut fail = |sig: &str, what: String| out.push((format!("c15:{sig}"), what));
    let hexw = |v: u64| match bits {
        Some(32) => format!("{v:#010x}"),
        _ => format!("{v:#018x}"),
    };
    // ---- threads
    let threads = j.get("threads").arr();
    // mac_crash_info: the count is the length of the array, which mirrors the stream's records
    {
        let mci = j.get("mac_crash_info");
        if let J::Arr(recs) = mci.get("records") {
            let in_state = st.mac_crash_info.as_ref().map(|v| v.len());
            if mci.get("num_records").uint() != Some(recs.len() as u64) || in_state.is_some_and(|n| n != recs.len()) {
                fail("mac_crash_info.num_records:differs-from-array-length", format!("mac_crash_info.num_records {:?}, records[] has {}, the state has {:?}", mci.get("num_records"), recs.len(), in_state));
            }
        }
    }
    if j.get("thread_count").uint() != Some(threads.len() as u64) || threads.len() != st.threads.len() {
        fail("thread_count:differs-from-array-length", format!("thread_count {:?}, threads[] has {}, state has {}", j.get("thread_count"), threads.len(), st.threads.len()));
    }
    let jmods = j.get("modules").arr();
    for (ti, (t, s)) in threads.iter().zip(&st.threads).enumerate() {
        let frames = t.get("frames").arr();
        if t.get("frame_count").uint() != Some(frames.len() as u64) || frames.len() != s.frames.len() {
            fail("threads[].frame_count:differs-from-array-length", format!("thread {ti}: frame_count {:?}, frames[] has {}, state has {}", t.get("frame_count"), frames.len(), s.frames.len()));
        }
        if t.get("thread_id").uint() != Some(s.thread_id as u64) {
            fail("threads[].thread_id:differs-from-state", format!("thread {ti}: thread_id {:?} vs {}", t.get("thread_id"), s.thread_id));
        }
        if t.get("thread_name").str() != s.thread_name.as_deref() {
            fail("threads[].thread_name:differs-from-state", format!("thread {ti}: thread_name does not decode to the state's name"));
        }
        for (k, (f, sf)) in frames.iter().zip(&s.frames).enumerate() {
            if f.get("frame").uint() != Some(k as u64) {
                fail("threads[].frames[].frame:not-its-position", format!("thread {ti} frame {k}: frame = {:?}", f.get("frame")));
            }
            if f.get("offset").str() != Some(hexw(sf.instruction).as_str()) {
                fail("threads[].frames[].offset:differs-from-state", format!("thread {ti} frame {k}: offset {:?} vs instruction {:#x}", f.get("offset"), sf.instruction));
            }
            if f.get("function").str() != sf.function_name.as_deref() || f.get("file").str() != sf.source_file_name.as_deref() {
                fail("threads[].frames[].function:differs-from-state", format!("thread {ti} frame {k}: function/file do not decode to the state's strings"));
            }
            if f.get("line").uint() != sf.source_line.map(|l| l as u64) {
                fail("threads[].frames[].line:differs-from-state", format!("thread {ti} frame {k}: line {:?} vs {:?}", f.get("line"), sf.source_line));
            }
            if f.get("trust").str() != Some(sf.trust.as_str()) {
                fail("threads[].frames[].trust:differs-from-state", format!("thread {ti} frame {k}: trust {:?}", f.get("trust")));
            }
            match f.get("missing_symbols") {
                J::Bool(b) if *b == sf.function_name.is_none() => {}
                other => fail("threads[].frames[].missing_symbols:not-redundant-with-function", format!("thread {ti} frame {k}: missing_symbols {other:?}, function {:?}", sf.function_name.is_some())),
            }
            let off = f.get("offset").hex();
            // module_offset == offset - base_addr of the module of that name which covers offset
            match (f.get("module").str(), f.get("module_offset").hex(), off) {
                (Some(name), Some(mo), Some(off)) => {
                    let ok = jmods.iter().any(|m| m.get("filename").str() == Some(name) && m.get("base_addr").hex().is_some_and(|b| b <= off && off - b == mo) && m.get("end_addr").hex().is_some_and(|e| off < e));
                    if !ok {
                        fail("threads[].frames[].module_offset:not-offset-minus-base", format!("thread {ti} frame {k}: module {name:?} offset {off:#x} module_offset {mo:#x} matches no entry of modules[]"));
                    }
                }
                (None, None, _) => {
                    if sf.module.is_some() {
                        fail("threads[].frames[].module:missing", format!("thread {ti} frame {k}: the state has a module, the JSON has none"));
                    }
                }
                _ => fail("threads[].frames[].module_offset:inconsistent-presence", format!("thread {ti} frame {k}: module {:?} module_offset {:?}", f.get("module"), f.get("module_offset"))),
            }
            // function_offset == offset - function base
            let want = sf.function_base.map(|b| sf.instruction.wrapping_sub(b));
            if f.get("function_offset").hex() != want || (want.is_some() && f.get("function_offset").str() != Some(hexw(want.unwrap()).as_str())) {
                fail("threads[].frames[].function_offset:not-offset-minus-base", format!("thread {ti} frame {k}: function_offset {:?}, expected {want:x?}", f.get("function_offset")));
            }
            // unloaded modules: names decode, offsets == offset - base of some unloaded module of that name
            let ju = f.get("unloaded_modules").arr();
            if ju.len() != sf.unloaded_modules.len() {
                fail("threads[].frames[].unloaded_modules:differs-from-state", format!("thread {ti} frame {k}: {} entries vs {}", ju.len(), sf.unloaded_modules.len()));
            }
            for (u, (sname, soffs)) in ju.iter().zip(&sf.unloaded_modules) {
                let offs: Vec<Option<u64>> = u.get("offsets").arr().iter().map(|o| o.hex()).collect();
                let want: Vec<Option<u64>> = soffs.iter().map(|o| Some(*o)).collect();
                if u.get("module").str() != Some(sname.as_str()) || offs != want {
                    fail("threads[].frames[].unloaded_modules:differs-from-state", format!("thread {ti} frame {k}: unloaded module entry differs from the state"));
                }
                for o in soffs {
                    let ok = j.get("unloaded_modules").arr().iter().any(|m| m.get("filename").str() == Some(sname.as_str()) && m.get("base_addr").hex().is_some_and(|b| off.is_some_and(|a| a >= b && a - b == *o)));
                    if !ok {
                        fail("threads[].frames[].unloaded_modules[].offsets:not-offset-minus-base", format!("thread {ti} frame {k}: offset {o:#x} of {sname:?} matches no unloaded_modules[] entry"));
                    }
                }
            }
        }
    }
    // ---- crashing thread copy
    let ct = j.get("crashing_thread");
    let want_ct = st.requesting_thread.filter(|&i| !st.threads[i].frames.is_empty());
    match (want_ct, ct) {
        (None, J::Null) => {}
        (Some(i), J::Obj(fields)) => {
            if ct.get("threads_index").uint() != Some(i as u64) {
                fail("crashing_thread.threads_index:not-the-requesting-thread", format!("threads_index {:?}, requesting thread is {i}", ct.get("threads_index")));
            }
            let mut copy: Vec<(String, J)> = fields.iter().filter(|f| f.0 != "threads_index").cloned().collect();
            let mut regs = J::Null;
            for f in copy.iter_mut() {
                if f.0 == "frames" {
                    if let J::Arr(fr) = &mut f.1 {
                        if let Some(J::Obj(f0)) = fr.first_mut() {
                            if let Some(p) = f0.iter().position(|x| x.0 == "registers") {
                                regs = f0.remove(p).1;
                            }
                        }
                    }
                }
            }
            let same = |a: &J, b: &J| -> bool {
                // object field order is not part of JSON equality
                fn norm(j: &J) -> J {
                    match j {
                        J::Obj(v) => {
                            let mut v: Vec<(String, J)> = v.iter().map(|(k, x)| (k.clone(), norm(x))).collect();
                            v.sort_by(|a, b| a.0.cmp(&b.0));
                            J::Obj(v)
                        }
                        J::Arr(v) => J::Arr(v.iter().map(norm).collect()),
                        o => o.clone(),
                    }
                }
                norm(a) == norm(b)
            };
            if threads.get(i).is_none_or(|t| !same(&J::Obj(copy), t)) {
                fail("crashing_thread:not-a-copy-of-the-indexed-thread", format!("crashing_thread minus threads_index/registers differs from threads[{i}]"));
            }
            // registers: the valid general purpose registers of frame 0
            let f0 = &st.threads[i].frames[0];
            let mut want: Vec<(String, String)> = f0.context.general_purpose_registers().iter().filter(|r| f0.context.get_register(r).is_some()).map(|r| (r.to_string(), f0.context.format_register(r))).collect();
            want.sort();
            let mut got: Vec<(String, String)> = match &regs {
                J::Obj(v) => v.iter().map(|(k, x)| (k.clone(), x.str().unwrap_or("?").to_string())).collect(),
                _ => vec![("<registers missing>".into(), String::new())],
            };
            got.sort();
            if got != want {
                fail("crashing_thread.frames[0].registers:differs-from-context", format!("registers {got:?} vs context {want:?}"));
            }
            if j.get("crash_info").get("crashing_thread").uint() != Some(i as u64) {
                fail("crash_info.crashing_thread:differs-from-threads_index", format!("crash_info.crashing_thread {:?} vs {i}", j.get("crash_info").get("crashing_thread")));
            }
        }
        (w, c) => fail("crashing_thread:presence", format!("requesting thread with frames: {w:?}; crashing_thread is {}", if c.is_null() { "absent" } else { "present" })),
    }
    // ---- modules mirror the module list
    let smods: Vec<&minidump::MinidumpModule> = st.modules.iter().collect();
    if jmods.len() != smods.len() {
        fail("modules:differs-from-module-list", format!("{} entries vs {} modules", jmods.len(), smods.len()));
    }
    for (k, (jm, sm)) in jmods.iter().zip(&smods).enumerate() {
        use minidump::Module;
        let base = sm.raw.base_of_image;
        let end = base.wrapping_add(sm.raw.size_of_image as u64);
        let fname = minidump_common::utils::basename(&sm.name);
        if jm.get("base_addr").str() != Some(hexw(base).as_str()) || jm.get("end_addr").str() != Some(hexw(end).as_str()) || jm.get("filename").str() != Some(fname) {
            fail("modules[]:differs-from-module-list", format!("modules[{k}] base/end/filename differ from the module list entry"));
        }
        if jm.get("debug_id").str() != Some(sm.debug_identifier().unwrap_or_default().breakpad().to_string().as_str()) && st.symbol_stats.get(fname).and_then(|s| s.extra_debug_info.as_ref()).is_none() {
            fail("modules[].debug_id:differs-from-module-list", format!("modules[{k}] debug_id {:?}", jm.get("debug_id")));
        }
    }
    let sun: Vec<&minidump::MinidumpUnloadedModule> = st.unloaded_modules.iter().collect();
    let jun = j.get("unloaded_modules").arr();
    if jun.len() != sun.len() {
        fail("unloaded_modules:differs-from-module-list", format!("{} entries vs {}", jun.len(), sun.len()));
    }
    for (k, (jm, sm)) in jun.iter().zip(&sun).enumerate() {
        let base = sm.raw.base_of_image;
        let end = base.wrapping_add(sm.raw.size_of_image as u64);
        if jm.get("base_addr").str() != Some(hexw(base).as_str()) || jm.get("end_addr").str() != Some(hexw(end).as_str()) || jm.get("filename").str() != Some(sm.name.as_str()) {
            fail("unloaded_modules[]:differs-from-module-list", format!("unloaded_modules[{k}] base/end/filename differ from the list entry"));
        }
    }
    // ---- scalars
    if j.get("pid").uint() != st.process_id.map(|p| p as u64) {
        fail("pid:differs-from-state", format!("pid {:?} vs {:?}", j.get("pid"), st.process_id));
    }
    let ci = j.get("crash_info");
    match &st.exception_info {
        Some(info) => {
            if ci.get("type").str() != Some(info.reason.to_string().as_str()) {
                fail("crash_info.type:differs-from-state", format!("type {:?} vs {}", ci.get("type"), info.reason));
            }
            if ci.get("address").str() != Some(hexw(info.address.0).as_str()) {
                fail("crash_info.address:differs-from-state", format!("address {:?} vs {:#x}", ci.get("address"), info.address.0));
            }
            if ci.get("possible_bit_flips").arr().len() != info.possible_bit_flips.len() {
                fail("crash_info.possible_bit_flips:differs-from-state", format!("{} entries vs {}", ci.get("possible_bit_flips").arr().len(), info.possible_bit_flips.len()));
            }
            for (jb, sb) in ci.get("possible_bit_flips").arr().iter().zip(&info.possible_bit_flips) {
                if jb.get("address").str() != Some(hexw(sb.address.0).as_str()) || jb.get("source_register").str() != sb.source_register {
                    fail("crash_info.possible_bit_flips[]:differs-from-state", "bit flip address/source_register differ from the state".into());
                }
            }
            let (kind, val) = match &info.adjusted_address {
                None => (None, None),
                Some(minidump_processor::AdjustedAddress::NonCanonical(a)) => (Some("non-canonical"), Some(("address", addr_u64(*a)))),
                Some(minidump_processor::AdjustedAddress::NullPointerWithOffset(a)) => (Some("null-pointer"), Some(("offset", addr_u64(*a)))),
            };
            let aa = ci.get("adjusted_address");
            if aa.get("kind").str() != kind || val.is_some_and(|(f, v)| aa.get(f).str() != Some(hexw(v).as_str())) {
                fail("crash_info.adjusted_address:differs-from-state", format!("adjusted_address {aa:?} vs {:?}", info.adjusted_address));
            }
            if ci.get("instruction").str() != info.instruction_str.as_deref() {
                fail("crash_info.instruction:differs-from-state", "instruction string differs".into());
            }
            if ci.get("memory_accesses").arr().len() != info.memory_access_list.as_ref().map(|l| l.iter().count()).unwrap_or(0) {
                fail("crash_info.memory_accesses:differs-from-state", "memory access count differs".into());
            }
        }
        None => {
            if !ci.get("type").is_null() || !ci.get("address").is_null() {
                fail("crash_info.type:present-without-exception", "crash_info.type/address present although the state has no exception".into());
            }
        }
    }
    match (&st.linux_standard_base, j.get("lsb_release")) {
        (None, J::Null) => {}
        (Some(l), o @ J::Obj(_)) => {
            if o.get("id").str() != Some(l.id.as_str()) || o.get("release").str() != Some(l.release.as_str()) || o.get("codename").str() != Some(l.codename.as_str()) || o.get("description").str() != Some(l.description.as_str()) {
                fail("lsb_release:differs-from-state", "lsb_release strings do not decode to the state's strings".into());
            }
        }
        (a, _) => fail("lsb_release:presence", format!("state has lsb info: {}", a.is_some())),
    }
    if j.get("status").str() != Some("OK") {
        fail("status:not-OK", format!("status {:?}", j.get("status")));
    }
    Some(j)
}
