//! (placeholder; filled in by the check that owns it)
