//! Tracking global allocator: live / peak byte counters and a hard cap that turns
//! a runaway allocation into an observed verdict (status line + _exit) instead of
//! an OOM abort of the whole check. The cap is only armed inside sandbox workers.
use std::alloc::{GlobalAlloc, Layout, System};
use std::sync::atomic::{AtomicU64, AtomicUsize, Ordering::Relaxed};

pub struct Tracking;

static LIVE: AtomicUsize = AtomicUsize::new(0);
static PEAK: AtomicUsize = AtomicUsize::new(0);
static HARD_CAP: AtomicUsize = AtomicUsize::new(usize::MAX);
/// index of the case being executed (for the status line written on death)
pub static CUR_IDX: AtomicU64 = AtomicU64::new(u64::MAX);

/// Counting is only switched on inside sandbox workers (single-threaded case execution):
/// shared atomic counters would otherwise serialise the allocator across 16 runner threads.
static ENABLED: std::sync::atomic::AtomicBool = std::sync::atomic::AtomicBool::new(false);
pub fn enable() {
    ENABLED.store(true, Relaxed);
}

#[inline]
fn on_alloc(sz: usize) {
    if !ENABLED.load(Relaxed) {
        return;
    }
    let live = LIVE.fetch_add(sz, Relaxed).wrapping_add(sz);
    if live > HARD_CAP.load(Relaxed) {
        die_alloc(sz, live);
    }
    PEAK.fetch_max(live, Relaxed);
}

unsafe impl GlobalAlloc for Tracking {
    unsafe fn alloc(&self, l: Layout) -> *mut u8 {
        on_alloc(l.size());
        System.alloc(l)
    }
    unsafe fn alloc_zeroed(&self, l: Layout) -> *mut u8 {
        on_alloc(l.size());
        System.alloc_zeroed(l)
    }
    unsafe fn dealloc(&self, p: *mut u8, l: Layout) {
        if ENABLED.load(Relaxed) {
            // saturating: memory allocated before counting was enabled may be freed after
            let _ = LIVE.fetch_update(Relaxed, Relaxed, |v| Some(v.saturating_sub(l.size())));
        }
        System.dealloc(p, l)
    }
    unsafe fn realloc(&self, p: *mut u8, l: Layout, new: usize) -> *mut u8 {
        if new >= l.size() {
            on_alloc(new - l.size());
        } else if ENABLED.load(Relaxed) {
            let _ = LIVE.fetch_update(Relaxed, Relaxed, |v| Some(v.saturating_sub(l.size() - new)));
        }
        System.realloc(p, l, new)
    }
}

fn fmt_u64(mut v: u64, out: &mut [u8; 24]) -> &[u8] {
    let mut i = 24;
    if v == 0 {
        i -= 1;
        out[i] = b'0';
    }
    while v > 0 {
        i -= 1;
        out[i] = b'0' + (v % 10) as u8;
        v /= 10;
    }
    &out[i..]
}

/// Write `\n<tag> a b c\n` to fd 1 without allocating, then _exit(code).
pub fn die_status(tag: &str, a: u64, b: u64, c: u64, code: i32) -> ! {
    let mut buf = [0u8; 128];
    let mut n = 0;
    let mut push = |s: &[u8]| {
        for &x in s {
            if n < 127 {
                buf[n] = x;
                n += 1;
            }
        }
    };
    push(b"\n");
    push(tag.as_bytes());
    for v in [a, b, c] {
        push(b" ");
        let mut t = [0u8; 24];
        push(fmt_u64(v, &mut t));
    }
    push(b"\n");
    unsafe {
        libc::write(1, buf.as_ptr() as *const libc::c_void, n);
        libc::_exit(code);
    }
}

static REPLAY_MSG: std::sync::OnceLock<Vec<u8>> = std::sync::OnceLock::new();
/// In replay mode an exceeded cap prints this (pre-formatted) message and exits 1.
pub fn set_replay_message(m: String) {
    let _ = REPLAY_MSG.set(m.into_bytes());
}

#[cold]
fn die_alloc(req: usize, live: usize) -> ! {
    // disarm so that nothing below can recurse
    HARD_CAP.store(usize::MAX, Relaxed);
    if let Some(m) = REPLAY_MSG.get() {
        unsafe {
            libc::write(1, m.as_ptr() as *const libc::c_void, m.len());
            libc::_exit(1);
        }
    }
    die_status("ALLOC", CUR_IDX.load(Relaxed), req as u64, live as u64, 4)
}

pub fn set_hard_cap(bytes: usize) {
    HARD_CAP.store(bytes, Relaxed);
}
pub fn live() -> usize {
    LIVE.load(Relaxed)
}
/// Start a measurement window: peak := live; returns the baseline.
pub fn reset_peak() -> usize {
    let l = LIVE.load(Relaxed);
    PEAK.store(l, Relaxed);
    l
}
/// Peak live bytes above `baseline` since the matching `reset_peak`.
pub fn peak_since(baseline: usize) -> usize {
    PEAK.load(Relaxed).saturating_sub(baseline)
}
