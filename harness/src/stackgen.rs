//! Generated stacks with ground truth (C04) and the walking helpers shared by C04 and C05.
//!
//! The conventions encoded here are the ones the walker sources document (DESIGN Appendix A):
//! technique priority CFI/STACK WIN > frame pointer > scan, scan windows (40 words, 160 after
//! the context frame; MIPS 1024 bytes with a 4-word skip for non-context callees on MIPS32),
//! amd64-on-Windows frame-pointer slack (<= 240 bytes, 16-byte steps), leaf first frame on
//! ARM/ARM64/MIPS, frame pointers on ARM only for iOS, pointer-authentication stripping on
//! ARM64, STACK WIN framedata / fpo layouts as described in walker.rs.
use crate::core::{guard, PanicInfo};
use minidump::format::*;
use minidump::system_info::{Cpu, Os};
use minidump::*;
use minidump_unwind::*;
use std::cell::Cell;
use std::collections::{BTreeMap, BTreeSet, HashMap, HashSet};

// ---------------------------------------------------------------------------------------------
// architectures

#[derive(Clone, Copy, PartialEq, Eq, Debug, Hash, PartialOrd, Ord)]
pub enum Arch {
    X86,
    Amd64,
    Arm,
    Arm64,
    Arm64Old,
    Mips32,
    Mips64,
}

impl Arch {
    /// names the walker (file) that handles the architecture
    pub fn name(self) -> &'static str {
        match self {
            Arch::X86 => "x86",
            Arch::Amd64 => "amd64",
            Arch::Arm => "arm",
            Arch::Arm64 => "arm64",
            Arch::Arm64Old => "arm64_old",
            Arch::Mips32 => "mips32",
            Arch::Mips64 => "mips64",
        }
    }
    pub fn ptr(self) -> u64 {
        match self {
            Arch::X86 | Arch::Arm | Arch::Mips32 => 4,
            _ => 8,
        }
    }
    /// documented return-address adjustment (call instruction lookup address = ra - adj)
    pub fn adj(self) -> u64 {
        match self {
            Arch::X86 | Arch::Amd64 => 1,
            Arch::Arm => 2,
            Arch::Arm64 | Arch::Arm64Old => 4,
            Arch::Mips32 | Arch::Mips64 => 8,
        }
    }
    /// highest address of the machine word
    pub fn top(self) -> u64 {
        if self.ptr() == 4 {
            u32::MAX as u64
        } else {
            u64::MAX
        }
    }
    pub fn ip(self) -> &'static str {
        match self {
            Arch::X86 => "eip",
            Arch::Amd64 => "rip",
            _ => "pc",
        }
    }
    pub fn sp(self) -> &'static str {
        match self {
            Arch::X86 => "esp",
            Arch::Amd64 => "rsp",
            _ => "sp",
        }
    }
    pub fn fp(self) -> &'static str {
        match self {
            Arch::X86 => "ebp",
            Arch::Amd64 => "rbp",
            _ => "fp",
        }
    }
    pub fn lr(self) -> Option<&'static str> {
        match self {
            Arch::X86 | Arch::Amd64 => None,
            Arch::Arm | Arch::Arm64 | Arch::Arm64Old => Some("lr"),
            Arch::Mips32 | Arch::Mips64 => Some("ra"),
        }
    }
    /// two callee-saved general registers (besides the frame pointer) tracked by the C04 ground truth
    /// (x86 keeps one pair: STACK WIN gives ebx a role of its own; elsewhere the pair rotates with `sel` through
    /// the registers the unwinder forwards, so that every one of them is tracked by some program)
    pub fn cs(self, sel: u64) -> [&'static str; 2] {
        let list: &[&'static str] = match self {
            Arch::X86 => return ["ebx", "esi"],
            Arch::Amd64 => &["rbx", "r12", "r13", "r14", "r15"],
            // r7 is the frame pointer on iOS
            Arch::Arm => &["r4", "r5", "r6", "r8", "r9", "r10"],
            Arch::Arm64 | Arch::Arm64Old => &["x19", "x20", "x21", "x22", "x23", "x24", "x25", "x26", "x27", "x28"],
            Arch::Mips32 | Arch::Mips64 => &["s0", "s1", "s2", "s3", "s4", "s5", "s6", "s7"],
        };
        let n = list.len() as u64;
        [list[(sel % n) as usize], list[((sel + 1) % n) as usize]]
    }
    /// leaf functions may keep the return address in a register (first frame may repeat sp)
    pub fn has_leaf(self) -> bool {
        self.lr().is_some()
    }
    pub fn cpu(self) -> Cpu {
        match self {
            Arch::X86 => Cpu::X86,
            Arch::Amd64 => Cpu::X86_64,
            Arch::Arm => Cpu::Arm,
            Arch::Arm64 | Arch::Arm64Old => Cpu::Arm64,
            Arch::Mips32 => Cpu::Mips,
            Arch::Mips64 => Cpu::Mips64,
        }
    }
    pub fn is_mips(self) -> bool {
        matches!(self, Arch::Mips32 | Arch::Mips64)
    }
    /// Largest frame size (in words) whose return-address slot (the last word of the frame) is
    /// still inside the documented scan window of a callee starting at the frame's sp.
    pub fn scan_window(self, callee_is_context: bool) -> u64 {
        match self {
            Arch::Mips32 => 256, // 1024 bytes; non-context callees skip 4 words and scan the other 252
            Arch::Mips64 => 128,
            _ => {
                if callee_is_context {
                    160
                } else {
                    40
                }
            }
        }
    }
    /// Smallest frame size (words) a scanned non-context frame can have (MIPS32 skips 4 words).
    pub fn scan_min(self, callee_is_context: bool) -> u64 {
        if self == Arch::Mips32 && !callee_is_context {
            5
        } else {
            1
        }
    }
    /// spelling of a register in STACK CFI text
    pub fn cfi_name(self, reg: &str, alias: bool) -> String {
        match self {
            Arch::X86 | Arch::Amd64 | Arch::Mips32 | Arch::Mips64 => format!("${reg}"),
            Arch::Arm => match (reg, alias) {
                ("fp", true) => "r11".into(),
                ("sp", true) => "r13".into(),
                ("lr", true) => "r14".into(),
                _ => reg.into(),
            },
            Arch::Arm64 | Arch::Arm64Old => match (reg, alias) {
                ("fp", true) => "x29".into(),
                ("lr", true) => "x30".into(),
                _ => reg.into(),
            },
        }
    }
}

pub const MIPS32_FLAGS: u32 = 0x0004_0007;
pub const MIPS64_FLAGS: u32 = 0x0008_0007;

/// Build a raw CPU context with the named registers set (everything else zero).
pub fn raw_context(arch: Arch, regs: &[(&str, u64)]) -> MinidumpRawContext {
    macro_rules! fill {
        ($c:expr, $t:ty) => {{
            let mut c = $c;
            for (n, v) in regs {
                c.set_register(n, *v as $t).expect("harness: known register name");
            }
            c
        }};
    }
    match arch {
        Arch::X86 => MinidumpRawContext::X86(fill!(CONTEXT_X86::default(), u32)),
        Arch::Amd64 => MinidumpRawContext::Amd64(fill!(CONTEXT_AMD64::default(), u64)),
        Arch::Arm => MinidumpRawContext::Arm(fill!(CONTEXT_ARM::default(), u32)),
        Arch::Arm64 => MinidumpRawContext::Arm64(fill!(CONTEXT_ARM64::default(), u64)),
        Arch::Arm64Old => MinidumpRawContext::OldArm64(fill!(CONTEXT_ARM64_OLD::default(), u64)),
        Arch::Mips32 => {
            let mut c = CONTEXT_MIPS::default();
            c.context_flags = MIPS32_FLAGS;
            MinidumpRawContext::Mips(fill!(c, u64))
        }
        Arch::Mips64 => {
            let mut c = CONTEXT_MIPS::default();
            c.context_flags = MIPS64_FLAGS;
            MinidumpRawContext::Mips(fill!(c, u64))
        }
    }
}

pub fn system_info(arch: Arch, os: Os) -> SystemInfo {
    SystemInfo { os, os_version: None, os_build: None, cpu: arch.cpu(), cpu_info: None, cpu_microcode_version: None, cpu_count: 1 }
}

pub fn os_name(os: Os) -> &'static str {
    match os {
        Os::Windows => "windows",
        Os::Linux => "linux",
        Os::MacOs => "macos",
        Os::Ios => "ios",
        Os::Android => "android",
        _ => "other",
    }
}

pub fn words_to_bytes(words: &[u64], ptr: u64) -> Vec<u8> {
    let mut b = Vec::with_capacity(words.len() * ptr as usize);
    for w in words {
        if ptr == 4 {
            b.extend_from_slice(&(*w as u32).to_le_bytes());
        } else {
            b.extend_from_slice(&w.to_le_bytes());
        }
    }
    b
}

/// Independent little-endian word reader over (base, bytes): `None` unless the whole word lies
/// inside the region (no wrap-around).
pub fn read_word(base: u64, bytes: &[u8], ptr: u64, addr: u64) -> Option<u64> {
    let off = addr.checked_sub(base)?;
    let end = off.checked_add(ptr)?;
    if end > bytes.len() as u64 {
        return None;
    }
    let s = &bytes[off as usize..end as usize];
    Some(if ptr == 4 { u32::from_le_bytes(s.try_into().unwrap()) as u64 } else { u64::from_le_bytes(s.try_into().unwrap()) })
}

/// True when frame `f` of a MIPS64 thread no longer carries the `CONTEXT_MIPS64` flag.
pub fn mips64_flag_lost(f: &StackFrame) -> bool {
    match &f.context.raw {
        MinidumpRawContext::Mips(c) => c.context_flags & 0x0008_0000 == 0,
        _ => false,
    }
}

// ---------------------------------------------------------------------------------------------
// running the real walker

thread_local! {
    static RT: tokio::runtime::Runtime = tokio::runtime::Builder::new_current_thread().build().expect("harness: tokio runtime");
}

const BUDGET_MSG: &str = "vh-frame-budget-sentinel";

pub enum WalkEnd {
    /// the walk returned; the call stack as the walker left it
    Done(CallStack),
    /// the `on_walked_frame` sentinel cut the walk after `budget + 1` frames
    Budget { frames: usize },
    /// the walker panicked
    Panic(PanicInfo),
}

pub fn symbolizer(symbols: &BTreeMap<String, String>) -> Symbolizer {
    let map: HashMap<String, String> = symbols.iter().map(|(k, v)| (k.clone(), v.clone())).collect();
    Symbolizer::new(string_symbol_supplier(map))
}

pub fn module_list(mods: &[(String, u64, u64)]) -> MinidumpModuleList {
    MinidumpModuleList::from_modules(mods.iter().map(|(n, b, s)| MinidumpModule::new(*b, u32::try_from(*s).expect("harness: module size"), n)).collect())
}

/// Walk one thread with the real `walk_stack`. `budget` = largest acceptable number of frames;
/// the callback unwinds with a sentinel as soon as frame index `budget` (the budget+1-th frame)
/// is reported, so a walk can never run unbounded.
pub fn walk(ctx: MinidumpContext, base: u64, bytes: &[u8], modules: &MinidumpModuleList, si: &SystemInfo, sym: &Symbolizer, budget: usize) -> WalkEnd {
    let mem = MinidumpMemory { desc: Default::default(), base_address: base, size: bytes.len() as u64, bytes, endian: scroll::LE };
    let seen = Cell::new(0usize);
    let r = guard(|| {
        let mut cs = CallStack::with_context(ctx);
        let seen = &seen;
        // SAFETY of the sentinel: the closure only reads/writes a Cell<usize>.
        struct SendCell<'a>(&'a Cell<usize>);
        unsafe impl Send for SendCell<'_> {}
        let sc = SendCell(seen);
        RT.with(|rt| {
            rt.block_on(walk_stack(
                0,
                move |i: usize, _: &StackFrame| {
                    let sc = &sc;
                    sc.0.set(i + 1);
                    if i >= budget {
                        panic!("{}", BUDGET_MSG);
                    }
                },
                &mut cs,
                Some(UnifiedMemory::Memory(&mem)),
                modules,
                si,
                sym,
            ))
        });
        cs
    });
    match r {
        Ok(cs) => WalkEnd::Done(cs),
        Err(p) if p.msg == BUDGET_MSG => WalkEnd::Budget { frames: seen.get() },
        Err(p) => WalkEnd::Panic(p),
    }
}

// ---------------------------------------------------------------------------------------------
// C04: stack programs with ground truth

#[derive(Clone, Copy, PartialEq, Eq, Debug, Hash, PartialOrd, Ord)]
pub enum Tech {
    /// STACK CFI record
    Cfi,
    /// frame-pointer chain of the platform calling convention
    Fp,
    /// nothing but the return address on the stack: findable only by scanning
    Scan,
    /// STACK WIN type 4 (program string), x86
    WinFd,
    /// STACK WIN type 0 (fpo), x86
    WinFpo,
    /// stackless leaf described by CFI (`.cfa: sp`, `.ra: lr`), first frame on ARM/ARM64/MIPS only
    Leaf,
}
impl Tech {
    pub fn name(self) -> &'static str {
        match self {
            Tech::Cfi => "cfi",
            Tech::Fp => "fp",
            Tech::Scan => "scan",
            Tech::WinFd => "win-framedata",
            Tech::WinFpo => "win-fpo",
            Tech::Leaf => "cfi-leaf",
        }
    }
    pub fn trust(self) -> FrameTrust {
        match self {
            Tech::Fp => FrameTrust::FramePointer,
            Tech::Scan => FrameTrust::Scan,
            _ => FrameTrust::CallFrameInfo,
        }
    }
}

#[derive(Clone, Copy, Debug, PartialEq, Eq)]
pub struct Variant {
    pub arch: Arch,
    pub os: Os,
    pub techs: &'static [Tech],
    /// part of the full per-frame technique x size product ("mix" space of C04). Variants that
    /// differ from a `mix` variant only in an OS the architecture's walker does not look at are
    /// covered by the uniform and placement spaces only.
    pub mix: bool,
}
impl Variant {
    pub fn label(&self) -> String {
        format!("{}-{}", self.arch.name(), os_name(self.os))
    }
}

/// CPU x OS configurations of C04 (the OS matters to the walker only on amd64 and arm; the x86
/// variant carries the STACK WIN techniques).
pub const VARIANTS: &[Variant] = &[
    Variant { arch: Arch::X86, os: Os::Windows, techs: &[Tech::Cfi, Tech::Fp, Tech::Scan, Tech::WinFd, Tech::WinFpo], mix: true },
    Variant { arch: Arch::Amd64, os: Os::Linux, techs: &[Tech::Cfi, Tech::Fp, Tech::Scan], mix: true },
    Variant { arch: Arch::Amd64, os: Os::Windows, techs: &[Tech::Cfi, Tech::Fp, Tech::Scan], mix: true },
    Variant { arch: Arch::Arm, os: Os::Android, techs: &[Tech::Cfi, Tech::Scan, Tech::Leaf], mix: true },
    Variant { arch: Arch::Arm, os: Os::Ios, techs: &[Tech::Cfi, Tech::Fp, Tech::Scan, Tech::Leaf], mix: true },
    Variant { arch: Arch::Arm64, os: Os::MacOs, techs: &[Tech::Cfi, Tech::Fp, Tech::Scan, Tech::Leaf], mix: true },
    Variant { arch: Arch::Arm64Old, os: Os::Ios, techs: &[Tech::Cfi, Tech::Fp, Tech::Scan, Tech::Leaf], mix: true },
    Variant { arch: Arch::Mips32, os: Os::Linux, techs: &[Tech::Cfi, Tech::Scan, Tech::Leaf], mix: true },
    Variant { arch: Arch::Mips64, os: Os::Linux, techs: &[Tech::Cfi, Tech::Scan, Tech::Leaf], mix: true },
    // 48-bit address spaces (modules and stacks above 2^47) are a Linux / Android thing
    Variant { arch: Arch::Arm64, os: Os::Android, techs: &[Tech::Cfi, Tech::Fp, Tech::Scan, Tech::Leaf], mix: false },
    Variant { arch: Arch::Arm64Old, os: Os::Linux, techs: &[Tech::Cfi, Tech::Fp, Tech::Scan, Tech::Leaf], mix: false },
    // 32-bit ARM: r11 is a frame pointer on iOS only; every other operating system walks without it
    Variant { arch: Arch::Arm, os: Os::MacOs, techs: &[Tech::Cfi, Tech::Scan, Tech::Leaf], mix: false },
    Variant { arch: Arch::Arm, os: Os::Windows, techs: &[Tech::Cfi, Tech::Scan, Tech::Leaf], mix: false },
    Variant { arch: Arch::Arm, os: Os::Linux, techs: &[Tech::Cfi, Tech::Scan, Tech::Leaf], mix: false },
];

/// Frame-size menu (words). choice 0: small; 1: the scan-window edge (return address in the
/// last word of the window: 40 / 160 words, MIPS 256 / 128); 2: typical; 3: window edge - 1.
pub fn size_choice(arch: Arch, frame_index: usize, choice: u64) -> u64 {
    let w = arch.scan_window(frame_index == 0);
    match choice {
        0 => 6,
        1 => w,
        2 => 9,
        _ => w - 1,
    }
}

/// Per-frame style, derived from the program-wide style number and the frame index.
#[derive(Clone, Copy, Debug)]
pub struct FrameStyle {
    /// which registers the function saves in its frame (and then clobbers): bit0 frame pointer,
    /// bit1 / bit2 the two tracked callee-saved registers
    pub mask: u8,
    /// CFI given as an INIT record for the entry state plus a delta record (and a later delta
    /// that must not apply yet)
    pub split: bool,
    /// amd64 on Windows: the frame pointer points `16 * slack` bytes below the saved-rbp slot
    pub slack: u64,
    /// STACK WIN records declare 4 bytes of parameters (changes the next frame's layout)
    pub params: bool,
    /// ARM / ARM64: CFI uses the numeric register spellings (r11, x29, ...)
    pub alias: bool,
    /// ARM64: saved lr / fp carry pointer-authentication bits
    pub pac: bool,
}
pub const STYLES: u64 = 8;
pub fn style_of(style: u64, i: usize) -> (FrameStyle, u8) {
    // returns (style, number of modules)
    match style {
        0 => (FrameStyle { mask: 0, split: false, slack: 0, params: false, alias: false, pac: false }, 1),
        1 => (FrameStyle { mask: 7, split: true, slack: 1, params: true, alias: true, pac: true }, 2),
        2 => (FrameStyle { mask: if i % 2 == 0 { 1 } else { 6 }, split: false, slack: 15, params: false, alias: false, pac: true }, 1),
        3 => (FrameStyle { mask: ((i + 1) % 8) as u8, split: true, slack: 2, params: i % 2 == 1, alias: true, pac: false }, 2),
        4 => (FrameStyle { mask: 1, split: false, slack: 3, params: false, alias: false, pac: false }, 1),
        5 => (FrameStyle { mask: 6, split: true, slack: 7, params: true, alias: false, pac: true }, 2),
        6 => (FrameStyle { mask: (7 - (i % 8)) as u8, split: false, slack: 15, params: false, alias: true, pac: false }, 1),
        _ => (FrameStyle { mask: if i % 2 == 0 { 2 } else { 4 }, split: true, slack: 0, params: i % 2 == 0, alias: false, pac: true }, 2),
    }
}

#[derive(Clone, Debug, PartialEq, Eq, Hash)]
pub struct Program {
    pub variant: usize,
    /// (technique by which the walker must get from frame i to frame i+1, frame size in words)
    pub frames: Vec<(Tech, u64)>,
    pub style: u64,
    /// index into the placement menu (`placement_of`): where modules and stack sit in the address
    /// space and in which order the module list names the modules
    pub placement: u64,
}

#[derive(Clone, Debug)]
pub struct ExpFrame {
    pub resume: u64,
    pub instruction: u64,
    pub sp: u64,
    pub trust: FrameTrust,
    pub module: String,
    pub function: String,
    /// tracked registers that must be valid, with their true values
    pub must: Vec<(&'static str, u64)>,
    /// tracked registers that may or may not be marked valid (STACK WIN leaves that open, see
    /// assumptions) but must hold the true value if they are
    pub may: Vec<(&'static str, u64)>,
    /// tracked registers that must not be reported as valid
    pub invalid: Vec<&'static str>,
}

pub struct Built {
    pub arch: Arch,
    pub os: Os,
    pub regs: Vec<(&'static str, u64)>,
    pub base: u64,
    pub bytes: Vec<u8>,
    pub modules: Vec<(String, u64, u64)>,
    pub symbols: BTreeMap<String, String>,
    pub expected: Vec<ExpFrame>,
}
impl Built {
    pub fn context(&self) -> MinidumpContext {
        MinidumpContext { raw: raw_context(self.arch, &self.regs), valid: MinidumpContextValidity::All }
    }
}

/// Order in which the module list handed to the walker names the modules.
#[derive(Clone, Copy, Debug, PartialEq, Eq)]
pub enum ListOrder {
    /// ascending base address
    Ascending,
    /// descending base address
    Descending,
    /// ascending, rotated left by one: the lowest module comes last, the highest is neither
    /// first nor last when there are three modules
    Rotated,
}

/// Module / stack placement: a module layout a process of the architecture can have.
#[derive(Clone, Copy, Debug)]
pub struct Placement {
    pub name: &'static str,
    /// base address of module "m" and (styles with two modules) of module "n"
    pub mods: [u64; 2],
    /// base addresses of the bystander modules "z" and "y": loaded, no symbols, no function of the
    /// chain in them
    pub bystanders: [Option<u64>; 2],
    /// base address of the stack memory
    pub stack: u64,
    pub order: ListOrder,
}
pub const PLACEMENTS: u64 = 5;
/// Placement menu. 0: low addresses, address-ordered list (the layout of the mix / uniform
/// spaces). 1: the same addresses plus a bystander below, list in descending order. 2: the top of
/// the architecture's user address space (32-bit: 0xf000_0000 / stack 0xff00_0000, MIPS32 below
/// 2^31; amd64: 0x7ff8_0000_0000 / 0x7ffc_0000_0000, canonical; arm64: 48-bit addresses
/// 0xffff_8000_0000 / 0xffff_f000_0000, above the 47-bit pointer-authentication default, where
/// stripping has to keep bit 47; MIPS64: 40-bit), address-ordered. 3: "m" low like a main
/// executable with a bystander next to it, "n", another bystander and the stack at the top as in
/// 2, the list rotated so that the lowest module comes last (load order rather than address
/// order): the highest-addressed module is neither the first nor the last entry of the list.
pub fn placement_of(arch: Arch, placement: u64) -> Placement {
    let (exe, hi_mod, hi_stack): (u64, u64, u64) = match arch {
        Arch::X86 | Arch::Arm => (0x0040_0000, 0xf000_0000, 0xff00_0000),
        Arch::Mips32 => (0x0040_0000, 0x7000_0000, 0x7ff0_0000),
        Arch::Amd64 => (0x0055_5000_0000, 0x7ff8_0000_0000, 0x7ffc_0000_0000),
        Arch::Arm64 | Arch::Arm64Old => (0x0055_5000_0000, 0xffff_8000_0000, 0xffff_f000_0000),
        Arch::Mips64 => (0x0055_5000_0000, 0x00ff_e000_0000, 0x00ff_ff00_0000),
    };
    match placement {
        0 => Placement { name: "low", mods: [MOD_BASE, MOD_BASE + MOD_SIZE], bystanders: [None, None], stack: STACK_BASE, order: ListOrder::Ascending },
        1 => Placement { name: "low, bystander below, list descending", mods: [MOD_BASE, MOD_BASE + MOD_SIZE], bystanders: [Some(0x3000_0000), None], stack: STACK_BASE, order: ListOrder::Descending },
        2 => Placement { name: "top of address space", mods: [hi_mod, hi_mod + MOD_SIZE], bystanders: [None, None], stack: hi_stack, order: ListOrder::Ascending },
        3 => Placement { name: "executable low, rest at top, list rotated (lowest last, highest inside)", mods: [exe, hi_mod], bystanders: [Some(hi_mod + 0x0100_0000), Some(exe + 0x0100_0000)], stack: hi_stack, order: ListOrder::Rotated },
        4 => {
            // two adjacent modules around a power-of-two boundary B (the second starts exactly at B): the sign-bit
            // boundary on 32-bit CPUs, 2^47 (the pointer-authentication default split) on ARM64, the start of
            // the kernel text mapping in the upper canonical half on amd64, 2^39 on MIPS64
            let (b, stack): (u64, u64) = match arch {
                Arch::X86 | Arch::Arm => (0x8000_0000, 0x9000_0000),
                Arch::Mips32 => (0x8000_0000, 0x9000_0000),
                Arch::Amd64 => (0xffff_ffff_8000_0000, 0xffff_c900_0000_0000),
                Arch::Arm64 | Arch::Arm64Old => (1 << 47, (1 << 47) - 0x1000_0000),
                Arch::Mips64 => (1 << 39, (1 << 39) + 0x1000_0000),
            };
            // ARM64: a return address equal to the END of the highest module that is itself a power of two is lost
            // by the strip mask (documented in ptr_auth_strip as the improbable corner); with one module in use the
            // first module therefore ends a little below the boundary instead of on it
            let first = if matches!(arch, Arch::Arm64 | Arch::Arm64Old) { b - MOD_SIZE - 0x1_0000 } else { b - MOD_SIZE };
            Placement { name: "two modules around a power-of-two boundary (second starts exactly on it)", mods: [first, b], bystanders: [None, None], stack, order: ListOrder::Ascending }
        }
        _ => panic!("harness: placement {placement} not in the menu"),
    }
}

pub const MOD_BASE: u64 = 0x4000_0000;
pub const MOD_SIZE: u64 = 0x0008_0000;
pub const STACK_BASE: u64 = 0x6000_0000;
const LEAD_WORDS: u64 = 4;
const TAIL_WORDS: u64 = 6;
const PAC_BITS: u64 = 0x00b5_0000_0000_0000;

/// Why a program is not a well-formed stack for its variant (kept out of the space, counted).
pub type Infeasible = &'static str;

/// Lay out memory, registers, modules and symbol text for `prog` and compute the expected chain.
pub fn build(prog: &Program) -> Result<Built, Infeasible> {
    let v = &VARIANTS[prog.variant];
    let a = v.arch;
    let p = a.ptr();
    let d = prog.frames.len();
    assert!(d >= 1 && d <= 64, "harness: depth");
    let (_, nmods) = style_of(prog.style, 0);
    let nmods = nmods as usize;
    let pl = placement_of(a, prog.placement);
    let stack_base = pl.stack;
    let has_fp_tech = match a {
        Arch::X86 | Arch::Amd64 | Arch::Arm64 | Arch::Arm64Old => true,
        Arch::Arm => v.os == Os::Ios,
        _ => false,
    };
    // ---- static admissibility of the technique sequence
    for (i, (t, _)) in prog.frames.iter().enumerate() {
        if !v.techs.contains(t) {
            return Err("technique not available on this variant");
        }
        if *t == Tech::Leaf && i != 0 {
            return Err("leaf frame is only allowed as the first frame");
        }
    }
    // ---- per-frame effective style
    let tech = |i: usize| prog.frames[i].0;
    let mut st: Vec<FrameStyle> = (0..d).map(|i| style_of(prog.style, i).0).collect();
    for i in 0..d {
        let s = &mut st[i];
        match tech(i) {
            Tech::Fp => s.mask |= 1,
            Tech::WinFpo => s.mask &= 1,
            Tech::Leaf => s.mask = 0,
            // amd64 scanning forwards the callee's rbp: a scanned function must not have clobbered it
            Tech::Scan if a == Arch::Amd64 => s.mask &= !1,
            _ => {}
        }
        if !(a == Arch::Amd64 && v.os == Os::Windows && tech(i) == Tech::Fp) {
            s.slack = 0;
        }
        if !matches!(a, Arch::Arm64 | Arch::Arm64Old) || !matches!(tech(i), Tech::Fp | Tech::Cfi) {
            s.pac = false;
        }
    }
    // ---- frame sizes, stack pointers
    let mut size: Vec<u64> = prog.frames.iter().map(|f| f.1).collect();
    // The thread's entry frame may have nothing of its own in the captured memory: when the outermost frame is
    // one that only scanning could leave (no symbols drive it) and it was reached through a frame pointer, odd
    // styles end the captured stack exactly at its stack pointer (one past the last captured byte).
    let bare_entry = d >= 2 && prog.style % 2 == 1 && tech(d - 1) == Tech::Scan && tech(d - 2) == Tech::Fp && matches!(a, Arch::Arm64 | Arch::Arm64Old | Arch::X86 | Arch::Arm);
    for i in 0..d {
        if tech(i) == Tech::Leaf || (bare_entry && i == d - 1) {
            size[i] = 0;
        } else if size[i] < 6 {
            return Err("frame too small for the uniform layout");
        }
        if tech(i) == Tech::Fp {
            // slack must fit between the frame start and the saved-fp slot
            let max_k = (size[i] - 2) / 2;
            st[i].slack = st[i].slack.min(max_k);
        }
    }
    let mut sp = vec![stack_base + LEAD_WORDS * p];
    for i in 0..d {
        sp.push(sp[i] + size[i] * p);
    }
    let tail_words = if bare_entry { 0 } else { TAIL_WORDS };
    let total_words = LEAD_WORDS + size.iter().sum::<u64>() + tail_words;
    let dummy = sp[d] + 2 * p; // readable, zero-filled area past the outermost frame
    // value a function leaves in the frame-pointer register when it uses it as a scratch register,
    // chosen so that the frame-pointer technique fails on it as the walker sources document
    let junk = match a {
        // [rbp], [rbp+8] = 0: bp' < sp' rejects every offset. In every other style (not on Windows, where the
        // frame-pointer technique probes 16 offsets) the value is the stack pointer of the caller of the first scanned
        // frame (a caller with an empty frame: rbp = rsp), which that scan forwards on the boundary
        // "rbp >= caller's sp"
        Arch::Amd64 => match (0..d.saturating_sub(1)).find(|&i| tech(i) == Tech::Scan) {
            // (a frame reached by the frame-pointer technique needs its caller's rbp at or above its own sp: not with this value)
            Some(js) if prog.style % 2 == 0 && v.os != Os::Windows && (0..d).all(|i| tech(i) != Tech::Fp) => sp[js + 1],
            _ => dummy,
        },
        Arch::Arm if v.os == Os::Ios => 4,           // non-zero (0 is a forced stop) and unreadable
        _ => 0,                                      // x86: unreadable; arm64: pc 0 is rejected; arm/mips: no fp technique
    };
    // ---- modules and functions
    let mod_name = |k: usize| if k == 0 { "m".to_string() } else { "n".to_string() };
    let mod_base = |k: usize| pl.mods[k];
    // function 1 is the LAST thing in its module and ends in its call: the return address into it (frame 1's
    // resume address) is the first byte past the module, its lookup address the module's last call instruction
    let frel = |i: usize| if i == 1 { MOD_SIZE - 0x20 } else { 0x1000 * ((i / nmods) as u64 + 1) };
    let fsize = |i: usize| if i == 1 { 0x20u64 } else { 0x100 };
    let faddr = |i: usize| mod_base(i % nmods) + frel(i);
    let pc0 = faddr(0) + 0x10;
    let ra = |i: usize| if i + 1 < d { faddr(i + 1) + 0x20 } else { 0 };
    // STACK WIN parameter size declared by function i's record (FUNC records declare 0)
    let params = |i: usize| if matches!(tech(i), Tech::WinFd | Tech::WinFpo) && st[i].params { 4u64 } else { 0 };
    let gcps = |j: usize| if j >= 1 { params(j - 1) } else { 0 };
    // ---- true register values, outermost first
    const FP: usize = 0;
    let fresh = |r: usize, j: usize| if r == 1 { 0x0dea_0000 + j as u64 } else { 0x0bee_0000 + j as u64 };
    let mut truth = vec![[0u64; 3]; d + 1];
    truth[d] = [junk, fresh(1, d), fresh(2, d)];
    for j in (0..d).rev() {
        truth[j][FP] = if tech(j) == Tech::Fp {
            sp[j + 1] - 2 * p - 16 * st[j].slack
        } else if st[j].mask & 1 != 0 {
            junk
        } else {
            truth[j + 1][FP]
        };
        for r in 1..3 {
            truth[j][r] = if st[j].mask & (1 << r) != 0 { fresh(r, j) } else { truth[j + 1][r] };
        }
    }
    // ---- memory image
    let mut words = vec![0u64; total_words as usize];
    for (k, w) in words.iter_mut().enumerate().take(LEAD_WORDS as usize) {
        *w = 0x0bad_0000 + k as u64; // red zone below sp: not an address in any module
    }
    let widx = |addr: u64| ((addr - stack_base) / p) as usize;
    let tag = |i: usize, val: u64| if st[i].pac && val != 0 { val | PAC_BITS } else { val };
    for i in 0..d {
        if tech(i) == Tech::Leaf || size[i] == 0 {
            continue;
        }
        let top = widx(sp[i + 1]);
        words[top - 1] = tag(i, ra(i));
        if st[i].mask & 1 != 0 {
            if tech(i) == Tech::WinFpo {
                // documented fpo slot: esp + grand_callee_parameter_size + saved_register_size(8) - 8
                words[widx(sp[i] + gcps(i))] = truth[i + 1][FP];
            } else {
                words[top - 2] = tag(i, truth[i + 1][FP]);
            }
        }
        if st[i].mask & 2 != 0 {
            words[top - 3] = truth[i + 1][1];
        }
        if st[i].mask & 4 != 0 {
            words[top - 4] = truth[i + 1][2];
        }
    }
    // a scanned frame also holds a stale word that points into its function's module but into no function (the
    // padding behind the FUNC, whose only preceding PUBLIC sits at the FUNC's own start): not a return address
    for i in 0..d {
        if tech(i) == Tech::Scan && size[i] >= 6 {
            words[widx(sp[i]) + 1] = if i == 1 { faddr(i) - 0x800 } else { faddr(i) + 0x800 };
        }
    }
    if a == Arch::Amd64 && junk != dummy {
        // [junk] must not pass for a saved frame pointer (the technique demands bp' >= sp' = junk + 16)
        if words[widx(junk)] >= junk + 2 * p {
            return Err("the junk frame pointer would be followed by the frame-pointer technique");
        }
    }
    let bytes = words_to_bytes(&words, p);
    let readable = |addr: u64| read_word(stack_base, &bytes, p, addr).is_some();
    // ---- symbol text
    let cs = a.cs(prog.style + 3 * prog.placement + d as u64);
    let names = [a.fp(), cs[0], cs[1]];
    let mut sym: Vec<String> = (0..nmods).map(|k| format!("MODULE Linux x 000000000000000000000000000000000 {}\n", mod_name(k))).collect();
    for i in 0..d {
        let k = i % nmods;
        let at = frel(i);
        let s = &mut sym[k];
        let fs = fsize(i);
        *s += &format!("FUNC {:x} {:x} 0 f{}\nPUBLIC {:x} 0 pub{}\n", at, fs, i, at, i);
        let al = st[i].alias;
        let spn = a.cfi_name(a.sp(), al);
        match tech(i) {
            Tech::Cfi => {
                let mut regs = String::new();
                for r in 0..3 {
                    if st[i].mask & (1 << r) != 0 {
                        regs += &format!(" {}: .cfa {} - ^", a.cfi_name(names[r], al), (r as u64 + 2) * p);
                    }
                }
                // The rules in effect are those of the frame's LOOKUP address: the exact pc for the context frame
                // (at + 0x10), the return address minus the call adjustment for every other frame (return address
                // at + 0x20). A record that begins exactly at the return address (the row after the call) is not
                // yet in effect, and an INIT range that ends exactly there still covers the call.
                if st[i].split {
                    *s += &format!("STACK CFI INIT {:x} {:x} .cfa: {} {} + .ra: .cfa {} - ^\n", at, fs, spn, p, p);
                    *s += &format!("STACK CFI {:x} .cfa: {} {} +{}\n", at + 4, spn, size[i] * p, regs);
                    *s += &format!("STACK CFI {:x} .cfa: {} 0 + .ra: 0\n", at + if i == 0 { 0x11 } else { 0x20 }, spn);
                } else {
                    *s += &format!("STACK CFI INIT {:x} {:x} .cfa: {} {} + .ra: .cfa {} - ^{}\n", at, if i == 0 { 0x100 } else { 0x20 }, spn, size[i] * p, p, regs);
                }
            }
            Tech::Leaf => {
                let lr = a.cfi_name(a.lr().expect("harness: leaf needs lr"), al);
                *s += &format!("STACK CFI INIT {:x} {:x} .cfa: {} 0 + .ra: {}\n", at, fs, spn, lr);
            }
            Tech::WinFd => {
                let saved = 4 * (st[i].mask.count_ones() as u64);
                let local = (size[i] - 1) * 4 - saved - gcps(i);
                let mut prog_s = String::from("$T0 .raSearch = $eip $T0 ^ = $esp $T0 4 + =");
                let wn = ["$ebp", "$ebx", "$esi"];
                for r in 0..3 {
                    if st[i].mask & (1 << r) != 0 {
                        prog_s += &format!(" {} $T0 {} - ^ =", wn[r], 4 * (r + 1));
                    }
                }
                *s += &format!("STACK WIN 4 {:x} {:x} 0 0 {:x} {:x} {:x} 0 1 {}\n", at, fs, params(i), saved, local, prog_s);
            }
            Tech::WinFpo => {
                let alloc = st[i].mask & 1 != 0;
                let saved = if alloc { 8 } else { 0 };
                let local = (size[i] - 1) * 4 - saved - gcps(i);
                *s += &format!("STACK WIN 0 {:x} {:x} 0 0 {:x} {:x} {:x} 0 0 {}\n", at, fs, params(i), saved, local, alloc as u8);
            }
            Tech::Fp | Tech::Scan => {}
        }
    }
    // ---- walk the model: validity sets, feasibility of each technique, expected frames
    let all: BTreeSet<usize> = [0, 1, 2].into_iter().collect();
    let mut must = all.clone();
    let mut may = all.clone();
    let mk = |j: usize, trust: FrameTrust, must: &BTreeSet<usize>, may: &BTreeSet<usize>| ExpFrame {
        resume: if j == 0 { pc0 } else { ra(j - 1) },
        instruction: if j == 0 { pc0 } else { ra(j - 1) - a.adj() },
        sp: sp[j],
        trust,
        module: mod_name(j % nmods),
        function: format!("f{j}"),
        must: must.iter().map(|&r| (names[r], truth[j][r])).collect(),
        may: may.difference(must).map(|&r| (names[r], truth[j][r])).collect(),
        invalid: all.difference(may).map(|&r| names[r]).collect(),
    };
    let mut expected = vec![mk(0, FrameTrust::Context, &must, &may)];
    for j in 0..d - 1 {
        let t = tech(j);
        let (m2, y2): (BTreeSet<usize>, BTreeSet<usize>) = match t {
            Tech::Cfi => {
                let ruled: BTreeSet<usize> = (0..3).filter(|r| st[j].mask & (1 << r) != 0).collect();
                (must.union(&ruled).copied().collect(), may.union(&ruled).copied().collect())
            }
            Tech::Leaf => (must.clone(), may.clone()),
            Tech::WinFd => {
                if !must.contains(&FP) {
                    return Err("STACK WIN framedata needs a valid ebp in the callee");
                }
                let mut m: BTreeSet<usize> = (0..3).filter(|r| st[j].mask & (1 << r) != 0).collect();
                m.insert(FP); // $ebp is pre-set from the callee and emitted even when the program does not assign it
                if must.contains(&1) {
                    m.insert(1); // likewise $ebx, when known
                }
                let y: BTreeSet<usize> = m.union(&may).copied().collect();
                (m, y)
            }
            Tech::WinFpo => {
                let alloc = st[j].mask & 1 != 0;
                if !alloc && !must.contains(&FP) {
                    return Err("STACK WIN fpo without a saved ebp needs a valid ebp in the callee");
                }
                let mut m: BTreeSet<usize> = [FP].into_iter().collect();
                if !alloc && must.contains(&1) {
                    m.insert(1);
                }
                let y: BTreeSet<usize> = m.union(&may).copied().collect();
                (m, y)
            }
            Tech::Fp => {
                if !has_fp_tech {
                    return Err("no frame-pointer technique on this variant");
                }
                if !must.contains(&FP) {
                    return Err("frame-pointer technique needs a valid frame pointer in the callee");
                }
                let m: BTreeSet<usize> = [FP].into_iter().collect();
                (m.clone(), m)
            }
            Tech::Scan => {
                if has_fp_tech && may.contains(&FP) && truth[j][FP] != junk {
                    return Err("a live frame pointer would be followed before scanning");
                }
                let ctx_callee = j == 0;
                if size[j] > a.scan_window(ctx_callee) || size[j] < a.scan_min(ctx_callee) {
                    return Err("return address outside the documented scan window");
                }
                let slot = sp[j + 1] - p;
                let mut m = BTreeSet::new();
                match a {
                    Arch::X86 => {
                        let w = words[widx(slot - p)];
                        if w > slot && w - (slot - p) <= 128 * 1024 {
                            if readable(w) {
                                if w != truth[j + 1][FP] {
                                    return Err("scan would recover a frame pointer that is not the caller's");
                                }
                                m.insert(FP);
                            }
                        } else if may.contains(&FP) {
                            if !must.contains(&FP) {
                                return Err("scan after STACK WIN: validity of ebp is left open");
                            }
                            if truth[j][FP] >= sp[j + 1] && readable(truth[j][FP]) {
                                if truth[j][FP] != truth[j + 1][FP] {
                                    return Err("scan would forward a frame pointer that is not the caller's");
                                }
                                m.insert(FP);
                            }
                        }
                    }
                    Arch::Amd64 => {
                        if must.contains(&FP) {
                            let w = words[widx(slot - p)];
                            if truth[j][FP] == slot - p && w > slot && w - (slot - p) <= 128 * 1024 {
                                return Err("harness: saved-rbp scan case cannot occur in a scanned frame");
                            } else if truth[j][FP] >= sp[j + 1] {
                                if truth[j][FP] != truth[j + 1][FP] {
                                    return Err("scan would forward a frame pointer that is not the caller's");
                                }
                                m.insert(FP);
                            }
                        }
                    }
                    _ => {}
                }
                (m.clone(), m)
            }
        };
        must = m2;
        may = y2;
        expected.push(mk(j + 1, t.trust(), &must, &may));
    }
    // the outermost function's step must end the walk (return address 0, nothing to find)
    if tech(d - 1) == Tech::Scan && d >= 2 && has_fp_tech && may.contains(&FP) && truth[d - 1][FP] != junk {
        return Err("a live frame pointer would be followed at the end of the stack");
    }
    // ---- context registers
    let mut regs: Vec<(&'static str, u64)> = vec![(a.ip(), pc0), (a.sp(), sp[0]), (names[0], truth[0][0]), (names[1], truth[0][1]), (names[2], truth[0][2])];
    if let Some(lr) = a.lr() {
        regs.push((lr, if tech(0) == Tech::Leaf { ra(0) } else { 0x0bad_beef }));
    }
    let mut modules: Vec<(String, u64, u64)> = (0..nmods).map(|k| (mod_name(k), mod_base(k), MOD_SIZE)).collect();
    for (name, at) in ["z", "y"].into_iter().zip(pl.bystanders) {
        if let Some(at) = at {
            modules.push((name.to_string(), at, MOD_SIZE));
        }
    }
    modules.sort_by_key(|m| m.1);
    assert!(modules.windows(2).all(|w| w[0].1 + w[0].2 <= w[1].1), "harness: modules overlap");
    match pl.order {
        ListOrder::Ascending => {}
        ListOrder::Descending => modules.reverse(),
        ListOrder::Rotated => modules.rotate_left(1),
    }
    // ---- placement sanity (harness preconditions, not properties of the walker)
    let stack_end = stack_base + total_words * p;
    assert!(stack_end - 1 <= a.top(), "harness: stack past the end of the address space");
    for (n, b, s) in &modules {
        assert!(b + s - 1 <= a.top(), "harness: module {n} past the end of the address space");
        assert!(b + s <= stack_base || *b >= stack_end, "harness: module {n} overlaps the stack");
        // only generated return addresses may point into a module (scanning must find nothing else)
        assert!(!(n == "z" || n == "y") || words.iter().all(|w| *w < *b || *w >= b + s), "harness: a stack word points into a bystander module");
    }
    if matches!(a, Arch::Arm64 | Arch::Arm64Old) {
        // documented pointer-auth strip mask: all bits up to the highest bit of
        // max(2^47 - 1, end of the highest module); every true address must survive it
        let hi = modules.iter().map(|m| m.1 + m.2).max().unwrap_or(0).max((1 << 47) - 1);
        let mask = hi.checked_next_power_of_two().map(|b| b - 1).unwrap_or(!0);
        assert!(stack_end <= mask && PAC_BITS & mask == 0, "harness: placement not representable under the documented strip mask");
    }
    let symbols = (0..nmods).map(|k| (mod_name(k), sym[k].clone())).collect();
    Ok(Built { arch: a, os: v.os, regs, base: stack_base, bytes, modules, symbols, expected })
}

pub fn describe_program(prog: &Program) -> serde_json::Value {
    let v = &VARIANTS[prog.variant];
    serde_json::json!({
        "variant": v.label(),
        "depth": prog.frames.len(),
        "frames": prog.frames.iter().map(|(t, s)| format!("{}:{}w", t.name(), s)).collect::<Vec<_>>(),
        "style": prog.style,
        "placement": format!("{}: {}", prog.placement, placement_of(v.arch, prog.placement).name),
    })
}

/// set of valid register names helper for C05
pub fn validity(names: &[&'static str]) -> MinidumpContextValidity {
    MinidumpContextValidity::Some(names.iter().copied().collect::<HashSet<&'static str>>())
}
