//! C11 — symbolication returns the record that really covers the address.
//!
//! Bounded-exhaustive: every symbol file of a product of record menus (two — thorough: three —
//! FUNCs placed disjoint / touching / overlapping / nested / identical / empty, line tables
//! with sizes 0.. and line numbers 0,1,2, INLINE trees to depth 2 with multi-range records and
//! origins defined outside a FUNC block, inside one, or not at all, PUBLICs before / at /
//! inside / between / after FUNCs incl. duplicates, STACK WIN 4/0 parameter sizes) is parsed by
//! the real parser and queried through the real `SymbolFile::fill_symbol` at every offset
//! -1..=17 under three module bases (0, 0x1000, 2^64-16).  The expected answer is a *linear
//! scan over the generator's own record list* (never over what the parser built).
//!
//! Space `nests` looks inside one FUNC with a larger menu: a three-level INLINE nest with the
//! origin id of every subset of its levels undefined (a level without INLINE_ORIGIN yields no
//! frame for that level only), an eight-level nest, INLINE records (and ranges of one record)
//! written in file orders unrelated to their address order (all six orders of three disjoint
//! depth-0 records, descending lists, interleaved multi-range records), and STACK WIN records that split the FUNC,
//! start before / inside it, leave its entry uncovered or reach beyond it (the parameter size is
//! that of the record covering the *address*).
//!
//! Space `stackframe` drives the same lookups end to end through `minidump_unwind::walk_stack`
//! (module lookup, `Symbolizer`, `fill_source_line_info`) and checks the `StackFrame` fields,
//! with inline frames innermost first.
use breakpad_symbols::{FrameSymbolizer, SimpleModule, SymbolFile};
use futures_util::FutureExt;
use minidump::format::CONTEXT_AMD64;
use minidump::system_info::{Cpu, Os};
use minidump::*;
use minidump_unwind::{string_symbol_supplier, walk_stack, CallStack, StackFrame, Symbolizer, SystemInfo};
use std::collections::HashMap;
use vh::symgen::*;
use vh::*;

// --------------------------------------------------------------------------------------------
// what a lookup reports

#[derive(Default, Debug, Clone, PartialEq)]
struct Rec {
    ip: u64,
    func: Option<(String, u64, u32)>,
    src: Option<(String, u32, u64)>,
    /// in call order of `add_inline_frame`: outermost inlined call first
    inl: Vec<(String, Option<String>, Option<u32>)>,
}
impl FrameSymbolizer for Rec {
    fn get_instruction(&self) -> u64 {
        self.ip
    }
    fn set_function(&mut self, n: &str, b: u64, p: u32) {
        self.func = Some((n.into(), b, p));
    }
    fn set_source_file(&mut self, f: &str, l: u32, b: u64) {
        self.src = Some((f.into(), l, b));
    }
    fn add_inline_frame(&mut self, n: &str, f: Option<&str>, l: Option<u32>) {
        self.inl.push((n.into(), f.map(Into::into), l));
    }
}

// --------------------------------------------------------------------------------------------
// generator: product of menus

const F1_ADDR: [u64; 2] = [1, 3];
const F1_SIZE: [u32; 4] = [0, 1, 3, 6];
const F2_SIZE: [u32; 4] = [0, 1, 2, 4];
const F2_ADDRS: u64 = 11; // 0..=10
const N_LINES: u64 = 8;
/// INLINE menus 0..N_INL go into the big product; N_INL..N_INL_ALL (undefined origins at every
/// subset of the levels of a three-level nest, an eight-level nest, record sets whose file order is
/// independent of their address order, empty ranges standing alone) only into the `nests` and `stackframe` spaces.
const N_INL: u64 = 11;
const N_INL_ALL: u64 = 34;
/// the six file orders of three records
const PERM3: [[usize; 3]; 6] = [[0, 1, 2], [0, 2, 1], [1, 0, 2], [1, 2, 0], [2, 0, 1], [2, 1, 0]];
const N_F2SUB: u64 = 2;
const N_PUB: u64 = 9;
/// STACK WIN menus 0..N_WIN go into the big product; N_WIN..N_WIN_ALL (a FUNC split over several
/// records, records starting before / in the middle of / reaching beyond the FUNC) only into the
/// `nests` and `stackframe` spaces.
const N_WIN: u64 = 4;
const N_WIN_ALL: u64 = 10;
const F3_CHOICES: [(u64, u32); 8] = [(0, 1), (0, 3), (5, 1), (5, 3), (8, 1), (8, 3), (12, 1), (12, 3)];

fn line_menu(m: u64, a: u64) -> Vec<LineRec> {
    let l = |addr: u64, size: u32, line: u32| LineRec { addr, size, line, file: 1 };
    match m {
        0 => vec![],
        1 => vec![l(a, 1, 1)],
        2 => vec![l(a, 0, 9), l(a + 1, 2, 2)],
        3 => vec![l(a, 6, 0)],
        4 => vec![l(a, 2, 1), l(a + 2, 1, 2), l(a + 3, 3, 0)],
        5 => vec![l(a, 3, 5), l(a + 1, 1, 6)], // nested: overlapping
        6 => vec![l(a, 2, 1), l(a, 2, 1)],     // identical duplicates
        7 => vec![LineRec { addr: a + 1, size: 5, line: 2, file: 9 }], // unknown file id
        _ => unreachable!(),
    }
}
fn inl_menu(m: u64, a: u64) -> Vec<InlineRec> {
    let i = |depth: u32, call_line: u32, call_file: u32, origin: u32, ranges: &[(u64, u32)]| InlineRec { depth, call_line, call_file, origin, ranges: ranges.to_vec() };
    match m {
        0 => vec![],
        1 => vec![i(0, 1, 1, 1, &[(a, 1)])],
        2 => vec![i(0, 2, 1, 1, &[(a, 3)]), i(1, 0, 1, 3, &[(a + 1, 1)])],
        3 => vec![i(0, 1, 1, 1, &[(a, 4)]), i(1, 2, 1, 2, &[(a, 2), (a + 3, 1)]), i(2, 1, 1, 3, &[(a + 1, 1)])],
        4 => vec![i(0, 5, 1, 7, &[(a + 1, 2)])], // origin 7 is defined nowhere
        5 => vec![i(0, 1, 9, 2, &[(a, 2)]), i(1, 2, 9, 7, &[(a, 1)])], // unknown file id, inner origin missing
        6 => vec![i(1, 3, 1, 1, &[(a, 3)])],     // depth 1 with nothing at depth 0
        7 => vec![i(0, 1, 1, 1, &[(a, 3)]), i(0, 2, 1, 2, &[(a + 1, 3)])], // same depth, overlapping
        8 => vec![i(0, 1, 1, 1, &[(a, 4)]), i(0, 2, 1, 2, &[(a + 2, 0)])], // empty range inside another at the same depth
        9 => vec![i(0, 2, 1, 1, &[(a, 2), (a + 2, 2)]), i(1, 1, 1, 2, &[(a + 1, 2)])], // depth-1 range across two adjacent depth-0 ranges
        10 => vec![i(0, 1, 1, 1, &[(a, 2)]), i(0, 2, 1, 1, &[(a, 2)])], // same (depth, address) twice
        // 11..=17: the three-level nest of menu 3 (three levels at a+1, two at a and a+3, one at a+2)
        // with the origin of every non-empty subset of the levels defined nowhere (bit k of m-10 =
        // level k dangles; ids 7, 8, 9): outermost only, middle only, innermost only, two of three, all
        11..=17 => {
            let mask = m - 10;
            let o = |level: u32, defined: u32| if mask >> level & 1 == 1 { 7 + level } else { defined };
            vec![i(0, 1, 1, o(0, 1), &[(a, 4)]), i(1, 2, 1, o(1, 2), &[(a, 2), (a + 3, 1)]), i(2, 1, 1, o(2, 3), &[(a + 1, 1)])]
        }
        // eight levels (depth 0..=7) shrinking towards a+2; the origins of levels 3 and 7 dangle, the
        // others repeat in1..in3 (recursive inlining)
        18 => vec![
            i(0, 1, 1, 1, &[(a, 6)]),
            i(1, 2, 1, 2, &[(a, 5)]),
            i(2, 3, 1, 3, &[(a, 5)]),
            i(3, 4, 1, 7, &[(a + 1, 4)]),
            i(4, 5, 1, 1, &[(a + 1, 3)]),
            i(5, 6, 1, 2, &[(a + 1, 2)]),
            i(6, 7, 1, 3, &[(a + 2, 1)]),
            i(7, 8, 1, 8, &[(a + 2, 1)]),
        ],
        // 19..=28: the order of the INLINE records (and of the ranges of one record) in the file has
        // nothing to do with their address order; none of these sets overlaps at one depth.
        // 19..=24: three depth-0 records [a,1) [a+1,2) [a+4,2) (nothing at a+3) in each of the six file orders
        19..=24 => {
            let recs = [i(0, 1, 1, 1, &[(a, 1)]), i(0, 2, 1, 2, &[(a + 1, 2)]), i(0, 3, 1, 3, &[(a + 4, 2)])];
            PERM3[(m - 19) as usize].iter().map(|&k| recs[k].clone()).collect()
        }
        // depth 0 then depth 1, each depth with descending addresses
        25 => vec![i(0, 1, 1, 1, &[(a + 3, 3)]), i(0, 2, 1, 2, &[(a, 3)]), i(1, 3, 1, 3, &[(a + 4, 1)]), i(1, 1, 1, 1, &[(a + 1, 1)])],
        // the same records, the deeper level written first
        26 => vec![i(1, 3, 1, 3, &[(a + 4, 1)]), i(1, 1, 1, 1, &[(a + 1, 1)]), i(0, 1, 1, 1, &[(a + 3, 3)]), i(0, 2, 1, 2, &[(a, 3)])],
        // the ranges of one record listed with descending addresses, at two depths
        27 => vec![i(0, 1, 1, 1, &[(a + 4, 1), (a + 2, 1), (a, 1)]), i(1, 2, 1, 2, &[(a + 4, 1), (a, 1)])],
        // the ranges of two depth-0 records interleaved in the address space, each list descending
        28 => vec![i(0, 1, 1, 1, &[(a + 3, 1), (a, 1)]), i(0, 2, 1, 2, &[(a + 4, 2), (a + 1, 2)]), i(1, 3, 1, 3, &[(a + 5, 1), (a + 1, 1)])],
        // empty ranges standing alone (inside no other range of their depth): as one range of a depth-0
        // multi-range record behind its non-empty range, and as the only depth-1 range inside the depth-0 range
        29 => vec![i(0, 1, 1, 1, &[(a, 2), (a + 3, 0)]), i(1, 2, 1, 2, &[(a + 1, 0)])],
        // 30..=32: the three-level nest with the call FILE of one level declared nowhere (file id 9): the
        // outermost (whose call site is the frame's own source line), the middle, the innermost
        30..=32 => {
            let f = |level: u64| if m - 30 == level { 9 } else { 1 };
            vec![i(0, 1, f(0), 1, &[(a, 4)]), i(1, 2, f(1), 2, &[(a, 2), (a + 3, 1)]), i(2, 1, f(2), 3, &[(a + 1, 1)])]
        }
        // twenty levels (depth 0..=19): ten over [a, a+6), ten more over [a+1, a+4); origins in1..in3 in rotation
        33 => (0..20u32).map(|d| i(d, d + 1, 1, 1 + d % 3, &[(a + (d / 10) as u64, 6 - 3 * (d / 10))])).collect(),
        _ => unreachable!(),
    }
}
fn pub_menu(m: u64, a1: u64, s1: u32) -> Vec<u64> {
    match m {
        0 => vec![],
        1 => vec![0],
        2 => vec![a1],     // at the start of F1 (equality carve-out when F1 does not cover the address)
        3 => vec![a1 + 1], // inside F1
        4 => vec![2, 7],
        5 => vec![12],
        6 => vec![5, 5], // two PUBLICs at one address
        7 => vec![a1 + s1 as u64], // right behind F1
        8 => vec![10, 1], // file order differs from address order
        _ => unreachable!(),
    }
}
fn win_menu(m: u64, a1: u64) -> Vec<WinRec> {
    let w4 = |addr: u64, size: u32, param: u32| WinRec { ty: 4, addr, size, param, tail: "$eip .raSearchStart ^ =".into() };
    let w0 = |addr: u64, size: u32, param: u32| WinRec { ty: 0, addr, size, param, tail: "1".into() };
    match m {
        0 => vec![],
        1 => vec![w4(a1, 2, 0x44)],
        2 => vec![w0(a1 + 1, 2, 0x20)],
        3 => vec![w0(a1, 3, 0x20), w4(a1, 1, 0x44)],
        4 => vec![w4(a1, 1, 0x44), w4(a1 + 1, 2, 0x48)], // the FUNC split over two frame-data records
        5 => vec![w0(a1, 2, 0x20), w4(a1 + 1, 1, 0x44)], // FPO at the entry, frame data only further in
        6 => vec![w4(a1 + 2, 4, 0x44)],                  // starts inside the FUNC, nothing at its entry, reaches beyond sizes 1, 3
        7 => vec![w4(a1 - 1, 2, 0x44)],                  // starts before the FUNC, covers only its first byte
        8 => vec![w0(a1, 1, 0x20), w0(a1 + 1, 1, 0x24), w4(a1 + 2, 1, 0x44)], // three pieces of two types
        9 => vec![w0(a1 + 1, 1, 0x20), w4(a1 + 2, 1, 0x44), w4(a1 + 4, 2, 0x48)], // pieces with gaps, entry uncovered
        _ => unreachable!(),
    }
}

struct Gen {
    radices: Vec<u64>,
    thorough: bool,
}
impl Gen {
    fn new(thorough: bool) -> Gen {
        let mut radices = vec![F1_ADDR.len() as u64, F1_SIZE.len() as u64, F2_ADDRS, F2_SIZE.len() as u64, N_LINES, N_INL, N_F2SUB, N_PUB, N_WIN];
        if thorough {
            radices.push(F3_CHOICES.len() as u64 + 1); // third FUNC or none
            radices.push(2); // F2 written before F1
        }
        Gen { radices, thorough }
    }
    fn len(&self) -> u64 {
        product(&self.radices)
    }
    fn model(&self, idx: u64) -> SymModel {
        self.model_and_shape(idx).0
    }
    /// The model plus its *shape*: the menu choices and how the FUNC ranges lie relative to
    /// each other (before / touching / overlapping / nested / equal ...), without absolute
    /// positions of f1 and f2.  Used only to count distinct non-trivial cases.
    fn model_and_shape(&self, idx: u64) -> (SymModel, Vec<i64>) {
        let d = unrank(idx, &self.radices);
        let (a1, s1) = (F1_ADDR[d[0] as usize], F1_SIZE[d[1] as usize]);
        let (a2, s2) = (d[2], F2_SIZE[d[3] as usize]);
        let mut m = SymModel { files: vec![(1, "a.c".into())], origins: vec![(1, "in1".into()), (2, "in2".into())], ..Default::default() };
        let mut f1 = FuncRec::new(a1, s1, 0x10, "f0");
        f1.origins_inside = vec![(3, "in3".into())];
        f1.lines = line_menu(d[4], a1);
        f1.inlines = inl_menu(d[5], a1);
        let mut f2 = FuncRec::new(a2, s2, 0x20, "f1");
        if d[6] == 1 {
            f2.lines = vec![LineRec { addr: a2, size: 1, line: 2, file: 1 }];
            f2.inlines = vec![InlineRec { depth: 0, call_line: 0, call_file: 1, origin: 2, ranges: vec![(a2, 2)] }];
        }
        let swap = self.thorough && d[10] == 1;
        if swap {
            m.funcs = vec![f2, f1];
        } else {
            m.funcs = vec![f1, f2];
        }
        if self.thorough && d[9] > 0 {
            let (a3, s3) = F3_CHOICES[d[9] as usize - 1];
            let mut f3 = FuncRec::new(a3, s3, 0x30, "f2");
            f3.lines = vec![LineRec { addr: a3, size: s3, line: 1, file: 1 }];
            m.funcs.push(f3);
        }
        // function names are f<position in m.funcs>
        for (k, f) in m.funcs.iter_mut().enumerate() {
            f.name = format!("f{k}");
        }
        for (k, p) in pub_menu(d[7], a1, s1).into_iter().enumerate() {
            m.publics.push(PublicRec { addr: p, param: 0x100 + k as u32, name: format!("p{k}") });
        }
        m.wins = win_menu(d[8], a1);
        let mut shape: Vec<i64> = vec![d[0] as i64, d[1] as i64, d[3] as i64, d[4] as i64, d[5] as i64, d[6] as i64, d[7] as i64, d[8] as i64];
        if self.thorough {
            shape.push(if d[9] == 0 { -1 } else { F3_CHOICES[d[9] as usize - 1].1 as i64 });
            shape.push(d[10] as i64);
        }
        let fr: Vec<Option<(u64, u64)>> = m.funcs.iter().map(func_range).collect();
        for i in 0..fr.len() {
            for j in 0..i {
                match (fr[i], fr[j]) {
                    (Some(x), Some(y)) => {
                        let sg = |a: u64, b: u64| (a as i128 - b as i128).signum() as i64;
                        shape.extend([sg(x.0, y.0), sg(x.1, y.1), sg(x.0, y.1 + 1), sg(y.0, x.1 + 1)]);
                    }
                    _ => shape.extend([9, 9, 9, 9]),
                }
            }
        }
        (m, shape)
    }
}

// --------------------------------------------------------------------------------------------
// reference: linear scans over the model

fn file_name(m: &SymModel, id: u32) -> Option<String> {
    m.files.iter().rev().find(|f| f.0 == id).map(|f| f.1.clone())
}
fn origin_name(m: &SymModel, id: u32) -> Option<String> {
    // INLINE_ORIGIN records are file-global wherever they are written
    m.origins.iter().chain(m.funcs.iter().flat_map(|f| f.origins_inside.iter())).filter(|o| o.0 == id).last().map(|o| o.1.clone())
}
fn func_range(f: &FuncRec) -> Option<(u64, u64)> {
    range_excl_end_checked(f.addr, f.size as u64)
}
fn covers(addr: u64, size: u32, off: u64) -> bool {
    size != 0 && addr <= off && off - addr < size as u64
}
/// every (record, range) of the given depth covering `off`
fn inl_at<'a>(f: &'a FuncRec, depth: u32, off: u64) -> Vec<(&'a InlineRec, (u64, u32))> {
    f.inlines.iter().filter(|i| i.depth == depth).flat_map(|i| i.ranges.iter().map(move |r| (i, *r))).filter(|(_, r)| covers(r.0, r.1, off)).collect()
}
/// The nest of inlined calls covering `off`: the first covering record of depth 0, 1, 2, .. up to the
/// first depth at which nothing covers it.
fn inline_chain(f: &FuncRec, off: u64) -> Vec<(&InlineRec, (u64, u32))> {
    let mut chain = vec![];
    while let Some(&x) = inl_at(f, chain.len() as u32, off).first() {
        chain.push(x);
    }
    chain
}
fn lines_at(f: &FuncRec, off: u64) -> Vec<&LineRec> {
    f.lines.iter().filter(|l| covers(l.addr, l.size, off)).collect()
}

/// Do the sub-records of this FUNC overlap (so that "the" covering record is not defined)?
fn func_is_ambiguous(f: &FuncRec) -> bool {
    let ls: Vec<(u64, u64)> = f.lines.iter().filter_map(|l| range_last_byte_checked(l.addr, l.size as u64)).collect();
    for i in 0..ls.len() {
        for j in 0..i {
            if ranges_intersect(ls[i], ls[j]) {
                return true;
            }
        }
    }
    let rs: Vec<(u32, u64, u32)> = f.inlines.iter().flat_map(|i| i.ranges.iter().map(move |r| (i.depth, r.0, r.1))).collect();
    for i in 0..rs.len() {
        for j in 0..rs.len() {
            if i == j || rs[i].0 != rs[j].0 {
                continue;
            }
            let (x, y) = (rs[i], rs[j]);
            if x.2 != 0 && y.2 != 0 {
                if i < j && ranges_intersect((x.1, x.1 + x.2 as u64 - 1), (y.1, y.1 + y.2 as u64 - 1)) {
                    return true;
                }
            } else if x.2 == 0 && y.2 != 0 && y.1 <= x.1 && x.1 < y.1 + y.2 as u64 {
                // an empty range written inside another range of the same depth: undefined
                return true;
            } else if x.2 == 0 && y.2 == 0 && x.1 == y.1 {
                // harmless: both cover nothing
            }
        }
    }
    false
}
fn wins_of(m: &SymModel, ty: u8) -> Vec<&WinRec> {
    m.wins.iter().filter(|w| w.ty == ty && range_excl_end_checked(w.addr, w.size as u64).is_some()).collect()
}
fn file_is_exact(m: &SymModel) -> bool {
    let fr: Vec<(u64, u64)> = m.funcs.iter().filter_map(func_range).collect();
    for i in 0..fr.len() {
        for j in 0..i {
            if ranges_intersect(fr[i], fr[j]) {
                return false;
            }
        }
    }
    for i in 0..m.publics.len() {
        for j in 0..i {
            if m.publics[i].addr == m.publics[j].addr {
                return false;
            }
        }
    }
    for ty in [0u8, 4] {
        let ws = wins_of(m, ty);
        for i in 0..ws.len() {
            for j in 0..i {
                if ranges_intersect((ws[i].addr, ws[i].addr + ws[i].size as u64 - 1), (ws[j].addr, ws[j].addr + ws[j].size as u64 - 1)) {
                    return false;
                }
            }
        }
    }
    true
}

enum Expect {
    Exactly(Rec),
    /// a PUBLIC exactly at the start address of the preceding FUNC: the comment says "smaller",
    /// the code tests `<=` — both "that PUBLIC" and "nothing" are accepted
    Either(Rec, Rec),
}

/// Linear-scan lookup for files whose records do not overlap (precondition: `file_is_exact`
/// and, for the FUNC covering the address, `!func_is_ambiguous`).
/// `tags` receives labels of the case class (evidence only).
fn reference(m: &SymModel, base: u64, ip: u64, tags: &mut Vec<&'static str>) -> Expect {
    let none = Rec { ip, ..Default::default() };
    if ip < base {
        return Expect::Exactly(none);
    }
    let off = ip - base;
    let mut exp = none.clone();
    let covering: Vec<&FuncRec> = m.funcs.iter().filter(|f| func_range(f).is_some_and(|r| r.0 <= off && off <= r.1)).collect();
    assert!(covering.len() <= 1, "reference() called on a file with overlapping FUNCs");
    if let Some(f) = covering.first() {
        // the STACK WIN record covering *the address*: frame data (4) before FPO (0); else the FUNC's own value
        let win_at = |x: u64| wins_of(m, 4).into_iter().find(|w| covers(w.addr, w.size, x)).or_else(|| wins_of(m, 0).into_iter().find(|w| covers(w.addr, w.size, x)));
        let param = win_at(off).map_or(f.param, |w| w.param);
        if !m.wins.is_empty() && win_at(off).map(|w| (w.ty, w.addr)) != win_at(f.addr).map(|w| (w.ty, w.addr)) {
            tags.push("STACK-WIN-at-address-is-not-the-one-at-FUNC-entry");
        }
        exp.func = Some((f.name.clone(), base + f.addr, param));
        let line = lines_at(f, off).first().copied();
        let chain = inline_chain(f, off);
        if let Some(&(rec, (ra, _))) = chain.first() {
            if let Some(n) = file_name(m, rec.call_file) {
                exp.src = Some((n, rec.call_line, base + ra));
            }
            // level k is a call of chain[k].origin; the location *inside* it is the call site of level k+1,
            // for the innermost level the line record.  A level whose origin id has no INLINE_ORIGIN record
            // yields no frame for that level and nothing else changes.
            let mut skipped = false;
            for (k, (rec, _)) in chain.iter().enumerate() {
                let Some(n) = origin_name(m, rec.origin) else {
                    skipped = true;
                    if k + 1 == chain.len() {
                        tags.push("innermost-inline-level-has-undefined-origin");
                    }
                    continue;
                };
                if skipped {
                    skipped = false;
                    tags.push("inline-frame-nested-in-a-level-with-undefined-origin");
                }
                match chain.get(k + 1) {
                    Some((inner, _)) => exp.inl.push((n, file_name(m, inner.call_file), Some(inner.call_line))),
                    None => match line {
                        Some(l) => exp.inl.push((n, file_name(m, l.file), if l.line != 0 { Some(l.line) } else { None })),
                        None => exp.inl.push((n, None, None)),
                    },
                }
            }
        } else if let Some(l) = line {
            if let Some(n) = file_name(m, l.file) {
                exp.src = Some((n, l.line, base + l.addr));
            }
        }
        return Expect::Exactly(exp);
    }
    // no FUNC covers the address: nearest preceding PUBLIC unless a FUNC starts between it and the address
    let Some(p) = m.publics.iter().filter(|p| p.addr <= off).max_by_key(|p| p.addr) else { return Expect::Exactly(none) };
    let with_pub = Rec { ip, func: Some((p.name.clone(), base + p.addr, p.param)), ..Default::default() };
    match m.funcs.iter().filter(|f| func_range(f).is_some() && f.addr <= off).map(|f| f.addr).max() {
        Some(fa) if fa > p.addr => Expect::Exactly(none),
        // a FUNC starting exactly at the PUBLIC's address lies between the PUBLIC and the address: it cuts the
        // PUBLIC off (the statement's 'not cut off by an intervening FUNC'; the code's `<=`)
        Some(fa) if fa == p.addr => Expect::Exactly(none),
        _ => Expect::Exactly(with_pub),
    }
}

fn fail(l: &mut Local, point: &str, what: String, m: &SymModel, base: u64, ip: u64, got: &Rec) {
    l.violation(format!("c11:{point}"), what, json!({"base": format!("{base:#x}"), "instruction": format!("{ip:#x}"), "got": format!("{got:?}"), "symbol_file": m.to_text()}));
}

/// What the statement promises whatever the records look like (overlaps, duplicates).
fn check_weak(l: &mut Local, m: &SymModel, base: u64, ip: u64, got: &Rec) {
    if ip < base {
        if got.func.is_some() || got.src.is_some() || !got.inl.is_empty() {
            fail(l, "weak:below-module-base-symbolicated", format!("instruction {ip:#x} below module base {base:#x} got a symbol"), m, base, ip, got);
        }
        return;
    }
    let off = ip - base;
    let fr: Vec<Option<(u64, u64)>> = m.funcs.iter().map(func_range).collect();
    let isolated = |k: usize| fr[k].is_some_and(|r| fr.iter().enumerate().all(|(j, q)| j == k || q.map_or(true, |q| !ranges_intersect(q, r))));
    let iso_cover = (0..m.funcs.len()).find(|&k| isolated(k) && fr[k].is_some_and(|r| r.0 <= off && off <= r.1));
    let mut reported_func: Option<&FuncRec> = None;
    match &got.func {
        Some((name, b, p)) if name.starts_with('f') => {
            let k: usize = name[1..].parse().expect("function name");
            let f = &m.funcs[k];
            reported_func = Some(f);
            if !fr[k].is_some_and(|r| r.0 <= off && off <= r.1) {
                fail(l, "weak:function-does-not-cover", format!("reported FUNC {name} [{:#x}+{:#x}] does not contain offset {off:#x}", f.addr, f.size), m, base, ip, got);
            }
            if *b != base.wrapping_add(f.addr) {
                fail(l, "weak:function-base", format!("reported base {b:#x} of {name}, record says {:#x}", base.wrapping_add(f.addr)), m, base, ip, got);
            }
            let ok_param = *p == f.param || m.wins.iter().any(|w| covers(w.addr, w.size, off) && w.param == *p);
            if !ok_param {
                fail(l, "weak:parameter-size", format!("parameter size {p:#x} is neither the FUNC's nor that of a STACK WIN record covering the address"), m, base, ip, got);
            }
            if let Some(i) = iso_cover {
                if i != k {
                    fail(l, "weak:function-other-than-isolated", format!("FUNC f{i} overlaps nothing and contains the address, yet {name} was reported"), m, base, ip, got);
                }
            }
            l.outcome("overlapping-file:FUNC");
        }
        Some((name, b, p)) => {
            let k: usize = name[1..].parse().expect("public name");
            let pb = &m.publics[k];
            if pb.addr > off || m.publics.iter().any(|q| q.addr > pb.addr && q.addr <= off) {
                fail(l, "weak:public-not-nearest-preceding", format!("reported PUBLIC {name} at {:#x} is not the nearest one at or below offset {off:#x}", pb.addr), m, base, ip, got);
            }
            if *b != base.wrapping_add(pb.addr) || *p != pb.param {
                fail(l, "weak:public-base-or-parameter-size", format!("reported ({b:#x}, {p:#x}) for PUBLIC {name}, record says ({:#x}, {:#x})", base.wrapping_add(pb.addr), pb.param), m, base, ip, got);
            }
            if let Some(i) = iso_cover {
                fail(l, "weak:public-although-func-covers", format!("FUNC f{i} overlaps nothing and contains the address, yet PUBLIC {name} was reported"), m, base, ip, got);
            }
            // cut off by a FUNC that certainly is in the table (it overlaps nothing) starting strictly between
            if (0..m.funcs.len()).any(|j| isolated(j) && m.funcs[j].addr > pb.addr && m.funcs[j].addr <= off) {
                fail(l, "weak:public-cut-off-by-func", format!("PUBLIC {name} at {:#x} reported although a FUNC starts between it and the address", pb.addr), m, base, ip, got);
            }
            l.outcome("overlapping-file:PUBLIC");
        }
        None => {
            if let Some(i) = iso_cover {
                fail(l, "weak:isolated-func-not-reported", format!("FUNC f{i} overlaps nothing and contains the address, yet no function was reported"), m, base, ip, got);
            }
            // nothing reported: fine if there is no preceding PUBLIC, or some FUNC (kept or not is
            // undefined for overlapping records) starts at/after the nearest PUBLIC and at/below the address and
            // does NOT contain the address (one that contains it is reported itself when kept, and cuts nothing
            // off when discarded)
            if let Some(pa) = m.publics.iter().filter(|p| p.addr <= off).map(|p| p.addr).max() {
                let may_cut = m.funcs.iter().any(|f| func_range(f).is_some_and(|r| !(r.0 <= off && off <= r.1)) && f.addr >= pa && f.addr <= off);
                if !may_cut {
                    fail(l, "weak:public-not-reported", format!("a PUBLIC at {pa:#x} precedes offset {off:#x} with no FUNC in between, yet nothing was reported"), m, base, ip, got);
                }
            }
            l.outcome("overlapping-file:nothing");
        }
    }
    // source line: that of a line record or depth-0 inline call site of the reported FUNC covering the address
    match (&got.src, reported_func) {
        (Some((file, line, b)), Some(f)) => {
            let from_line = lines_at(f, off).iter().any(|r| file_name(m, r.file).as_deref() == Some(file) && r.line == *line && base.wrapping_add(r.addr) == *b);
            let from_inl = inl_at(f, 0, off).iter().any(|(r, (ra, _))| file_name(m, r.call_file).as_deref() == Some(file) && r.call_line == *line && base.wrapping_add(*ra) == *b);
            if !from_line && !from_inl {
                fail(l, "weak:source-line-from-no-covering-record", format!("source ({file}, {line}, {b:#x}) matches no line record or outermost inline call site of the function covering the address"), m, base, ip, got);
            }
        }
        (Some(_), None) => fail(l, "weak:source-line-without-func", "a source line was reported without a FUNC".into(), m, base, ip, got),
        _ => {}
    }
    match reported_func {
        Some(f) => {
            if !got.inl.is_empty() && inl_at(f, 0, off).is_empty() {
                fail(l, "weak:inline-frames-without-inline-record", "inline frames reported although no depth-0 INLINE range of the function covers the address".into(), m, base, ip, got);
            }
            for (n, _, _) in &got.inl {
                if !m.origins.iter().chain(m.funcs.iter().flat_map(|f| f.origins_inside.iter())).any(|o| &o.1 == n) {
                    fail(l, "weak:inline-frame-unknown-name", format!("inline frame name {n} is no INLINE_ORIGIN of the file"), m, base, ip, got);
                }
            }
        }
        None => {
            if !got.inl.is_empty() {
                fail(l, "weak:inline-frames-without-func", "inline frames reported without a FUNC".into(), m, base, ip, got);
            }
        }
    }
}

fn check_bases(l: &mut Local, m: &SymModel, base: u64, ip: u64, got: &Rec) {
    if let Some((_, b, _)) = &got.func {
        if *b > ip {
            fail(l, "function-base-beyond-instruction", format!("function base {b:#x} > instruction {ip:#x}"), m, base, ip, got);
        }
    }
    if let Some((_, _, b)) = &got.src {
        if *b > ip {
            fail(l, "line-base-beyond-instruction", format!("source line base {b:#x} > instruction {ip:#x}"), m, base, ip, got);
        }
    }
}

fn check_exact(l: &mut Local, m: &SymModel, base: u64, ip: u64, got: &Rec) {
    let mut tags = vec![];
    let exp = match reference(m, base, ip, &mut tags) {
        Expect::Exactly(e) => e,
        Expect::Either(a, b) => {
            l.outcome("PUBLIC-at-FUNC-start(either)");
            if *got == a {
                a
            } else {
                b
            }
        }
    };
    if got.func != exp.func {
        fail(l, "function-differs-from-linear-scan", format!("function {:x?}, linear scan over the records gives {:x?}", got.func, exp.func), m, base, ip, got);
    }
    if got.src != exp.src {
        fail(l, "source-line-differs-from-linear-scan", format!("source line {:x?}, linear scan gives {:x?}", got.src, exp.src), m, base, ip, got);
    }
    if got.inl != exp.inl {
        fail(l, "inline-frames-differ-from-linear-scan", format!("inline frames {:?}, linear scan gives {:?}", got.inl, exp.inl), m, base, ip, got);
    }
    let class = match &exp.func {
        None if ip < base => "below-module-base",
        None => "nothing",
        Some((n, _, _)) if n.starts_with('p') => "PUBLIC",
        Some(_) => match (exp.src.is_some(), exp.inl.len()) {
            (false, 0) => "FUNC",
            (true, 0) => "FUNC+line",
            (_, 1) => "FUNC+1-inline-frame",
            (_, 2) => "FUNC+2-inline-frames",
            (_, _) => "FUNC+3-or-more-inline-frames",
        },
    };
    l.outcome(class);
    if exp.inl.last().is_some_and(|f| f.2.is_none()) {
        l.outcome("innermost-inline-frame-without-line");
    }
    for t in tags {
        l.outcome(t);
    }
}

const BASES: [u64; 3] = [0, 0x1000, u64::MAX - 15];

fn parse(m: &SymModel) -> SymbolFile {
    let text = m.to_text();
    match SymbolFile::from_bytes(text.as_bytes()) {
        Ok(s) => s,
        Err(e) => panic!("c11 generator produced text the parser rejects ({e}):\n{text}"),
    }
}

/// Second generator: what happens *inside* one FUNC, with every INLINE menu (incl. the nests with
/// undefined origins and the eight-level nest) and every STACK WIN menu, next to a small choice of
/// neighbours: f0 at 1|3 size 0|1|3|6 x 8 line tables x N_INL_ALL x N_WIN_ALL x {f1 far behind with its
/// own sub-records | f1 touching f0's end | f1 inside f0 (overlap: weak promises only)} x PUBLIC
/// {none | inside f0 | right behind f0}.
const NEST_F2: u64 = 3;
const NEST_PUB: [u64; 3] = [0, 3, 7];
fn nest_radices() -> Vec<u64> {
    vec![F1_ADDR.len() as u64, F1_SIZE.len() as u64, N_LINES, N_INL_ALL, N_WIN_ALL, NEST_F2, NEST_PUB.len() as u64]
}
fn nest_model(idx: u64) -> SymModel {
    let d = unrank(idx, &nest_radices());
    let (a1, s1) = (F1_ADDR[d[0] as usize], F1_SIZE[d[1] as usize]);
    let mut m = SymModel { files: vec![(1, "a.c".into())], origins: vec![(1, "in1".into()), (2, "in2".into())], ..Default::default() };
    let mut f1 = FuncRec::new(a1, s1, 0x10, "f0");
    f1.origins_inside = vec![(3, "in3".into())];
    f1.lines = line_menu(d[2], a1);
    f1.inlines = inl_menu(d[3], a1);
    let f2 = match d[5] {
        0 => {
            let mut f2 = FuncRec::new(12, 2, 0x20, "f1");
            f2.lines = vec![LineRec { addr: 12, size: 1, line: 2, file: 1 }];
            f2.inlines = vec![InlineRec { depth: 0, call_line: 0, call_file: 1, origin: 2, ranges: vec![(12, 2)] }];
            f2
        }
        1 => FuncRec::new(a1 + s1 as u64, 2, 0x20, "f1"),
        2 => FuncRec::new(a1 + 1, 1, 0x20, "f1"),
        _ => unreachable!(),
    };
    m.funcs = vec![f1, f2];
    for (k, p) in pub_menu(NEST_PUB[d[6] as usize], a1, s1).into_iter().enumerate() {
        m.publics.push(PublicRec { addr: p, param: 0x100 + k as u32, name: format!("p{k}") });
    }
    m.wins = win_menu(d[4], a1);
    m
}

fn run_file(m: SymModel, shape: Vec<i64>, l: &mut Local) {
    let sf = match guard(|| parse(&m)) {
        Ok(s) => s,
        Err(p) => {
            if p.file.starts_with("src/") {
                panic!("harness: {}", p.msg);
            }
            return l.panic_violation(&p, json!({"symbol_file": m.to_text()}));
        }
    };
    let exact_file = file_is_exact(&m);
    let mut any = false;
    for base in BASES {
        let module = SimpleModule { base_address: Some(base), size: Some(16), ..Default::default() };
        for off in -1i64..=17 {
            let ip = base.wrapping_add(off as u64);
            let mut got = Rec { ip, ..Default::default() };
            l.eval();
            if let Err(p) = guard(|| sf.fill_symbol(&module, &mut got)) {
                l.panic_violation(&p, json!({"base": format!("{base:#x}"), "instruction": format!("{ip:#x}"), "symbol_file": m.to_text()}));
                continue;
            }
            any |= got.func.is_some();
            check_bases(l, &m, base, ip, &got);
            let covering_ambiguous = ip >= base && m.funcs.iter().any(|f| func_range(f).is_some_and(|r| r.0 <= ip - base && ip - base <= r.1) && func_is_ambiguous(f));
            if exact_file && !covering_ambiguous {
                check_exact(l, &m, base, ip, &got);
            } else {
                check_weak(l, &m, base, ip, &got);
            }
        }
    }
    if any {
        l.distinct(&shape);
    }
}

// --------------------------------------------------------------------------------------------
// end to end: walk_stack -> fill_source_line_info -> Symbolizer -> SymbolFile::fill_symbol

fn stackframe_space(thorough: bool) -> Space {
    // one FUNC (4 placements), every line / inline menu, 3 PUBLIC menus; module "m" at 3 bases
    // STACK WIN menus: none, from the entry but shorter than the FUNC, FPO at the entry + frame data further in,
    // starting inside (thorough: all)
    let wins: Vec<u64> = if thorough { (0..N_WIN_ALL).collect() } else { vec![0, 1, 5, 6] };
    let radices: Vec<u64> = vec![2, 2, N_LINES, N_INL_ALL, 3, wins.len() as u64];
    let len = product(&radices);
    let model = move |idx: u64| -> SymModel {
        let d = unrank(idx, &radices);
        let (a1, s1) = (F1_ADDR[d[0] as usize], [3u32, 6][d[1] as usize]);
        let mut m = SymModel { files: vec![(1, "a.c".into())], origins: vec![(1, "in1".into()), (2, "in2".into())], ..Default::default() };
        let mut f1 = FuncRec::new(a1, s1, 0x10, "f0");
        f1.origins_inside = vec![(3, "in3".into())];
        f1.lines = line_menu(d[2], a1);
        f1.inlines = inl_menu(d[3], a1);
        m.funcs = vec![f1];
        for (k, p) in pub_menu([0, 1, 7][d[4] as usize], a1, s1).into_iter().enumerate() {
            m.publics.push(PublicRec { addr: p, param: 0x100 + k as u32, name: format!("p{k}") });
        }
        m.wins = win_menu(wins[d[5] as usize], a1);
        m
    };
    let model2 = model.clone();
    let run = move |idx: u64, l: &mut Local| {
        let m = model(idx);
        let ambiguous = func_is_ambiguous(&m.funcs[0]) || !file_is_exact(&m);
        let mut syms = HashMap::new();
        syms.insert("m".to_string(), m.to_text());
        let symbolizer = Symbolizer::new(string_symbol_supplier(syms));
        let si = SystemInfo { os: Os::Linux, os_version: None, os_build: None, cpu: Cpu::X86_64, cpu_info: None, cpu_microcode_version: None, cpu_count: 1 };
        // module of 16 bytes; the third base keeps the module's end representable
        for base in [0u64, 0x1000, u64::MAX - 31] {
            let ml = MinidumpModuleList::from_modules(vec![MinidumpModule::new(base, 16, "m")]);
            for off in -1i64..=17 {
                let ip = base.wrapping_add(off as u64);
                let ctx = MinidumpContext { raw: MinidumpRawContext::Amd64(CONTEXT_AMD64 { rip: ip, rsp: 0x8000, ..Default::default() }), valid: MinidumpContextValidity::All };
                let mut cs = CallStack::with_context(ctx);
                l.eval();
                let walked = guard(|| walk_stack(0, (), &mut cs, None, &ml, &si, &symbolizer).now_or_never());
                match walked {
                    Ok(Some(())) => {}
                    Ok(None) => panic!("harness: walk_stack suspended although nothing in it can wait"),
                    Err(p) => {
                        l.panic_violation(&p, json!({"instruction": format!("{ip:#x}"), "symbol_file": m.to_text()}));
                        continue;
                    }
                }
                assert_eq!(cs.frames.len(), 1, "harness: one context frame expected");
                let fr: &StackFrame = &cs.frames[0];
                let got = Rec {
                    ip,
                    func: fr.function_name.clone().map(|n| (n, fr.function_base.unwrap_or(u64::MAX), fr.parameter_size.unwrap_or(u32::MAX))),
                    src: fr.source_file_name.clone().map(|n| (n, fr.source_line.unwrap_or(u32::MAX), fr.source_line_base.unwrap_or(u64::MAX))),
                    // StackFrame.inlines is innermost first; Rec.inl is outermost first
                    inl: fr.inlines.iter().rev().map(|i| (i.function_name.clone(), i.source_file_name.clone(), i.source_line)).collect(),
                };
                let in_module = ip >= base && ip - base < 16;
                if !in_module {
                    // no module covers the instruction: nothing may be filled in
                    if fr.module.is_some() || got.func.is_some() || got.src.is_some() || !got.inl.is_empty() {
                        fail(l, "stackframe:symbolicated-outside-module", format!("instruction {ip:#x} is outside the module [{base:#x}+16] but the frame was symbolicated"), &m, base, ip, &got);
                    }
                    l.outcome("stackframe:outside-module");
                    continue;
                }
                if fr.module.as_ref().map(|x| x.name.as_str()) != Some("m") {
                    fail(l, "stackframe:module-missing", "frame inside the module has no module".into(), &m, base, ip, &got);
                }
                check_bases(l, &m, base, ip, &got);
                if ambiguous {
                    check_weak(l, &m, base, ip, &got);
                    continue;
                }
                let exp = match reference(&m, base, ip, &mut vec![]) {
                    Expect::Exactly(e) => e,
                    Expect::Either(a, b) => {
                        if got == a {
                            a
                        } else {
                            b
                        }
                    }
                };
                if got.func != exp.func || got.src != exp.src {
                    fail(l, "stackframe:function-or-line-differs-from-linear-scan", format!("StackFrame function {:x?} line {:x?}; linear scan gives {:x?} / {:x?}", got.func, got.src, exp.func, exp.src), &m, base, ip, &got);
                }
                if got.inl != exp.inl {
                    let mut rev = exp.inl.clone();
                    rev.reverse();
                    let mut sorted_got = got.inl.clone();
                    let mut sorted_exp = exp.inl.clone();
                    sorted_got.sort();
                    sorted_exp.sort();
                    let point = if sorted_got == sorted_exp { "stackframe:inlines-not-innermost-first" } else { "stackframe:inlines-differ-from-linear-scan" };
                    fail(l, point, format!("StackFrame.inlines {:?}; expected innermost first {:?}", fr.inlines.iter().map(|i| (&i.function_name, &i.source_file_name, i.source_line)).collect::<Vec<_>>(), rev), &m, base, ip, &got);
                }
                l.outcome(&format!("stackframe:{}-inline-frames", exp.inl.len().min(3)));
                if exp.func.is_some() {
                    l.distinct(&("stackframe", &m, ip));
                }
            }
        }
    };
    Space::new("stackframe", len, run, move |idx| json!({"class": "stackframe", "symbol_file": model2(idx).to_text()}))
}

fn main() {
    run_check("C11", |ctx| {
        let thorough = ctx.tier == Tier::Thorough;
        let mut def = CheckDef::new(
            "C11",
            "exploration",
            "bounded-exhaustive: every symbol file of the menu product {FUNC f0 at 1|3 size 0|1|3|6} x {FUNC f1 at 0..10 size 0|1|2|4} x {8 line tables: sizes 0..6, line numbers 0,1,2,5,6,9, nested, duplicate, unknown file} x {11 INLINE sets: depth 0..2, multi-range, origin outside/inside a FUNC block/undefined, call line 0/1/2, unknown call file, same-depth overlap, empty range, duplicate key, depth gap} x {2 sub-record sets of f1} x {9 PUBLIC sets} x {4 STACK WIN sets} (thorough: x {third FUNC: none | 8 placements} x {file order of f0,f1}), parsed by the real parser and queried by SymbolFile::fill_symbol at offsets -1..=17 under module bases 0, 0x1000, 2^64-16; expected = linear scan over the generator's records. Space `nests` (what happens inside one FUNC): {f0 at 1|3 size 0|1|3|6} x {8 line tables} x {34 INLINE sets = the 11 above + a twenty-level nest (depth 0..19) + the three-level nest (3 levels at a+1, 2 at a and a+3, 1 at a+2) with the origin id of every non-empty subset of its levels defined nowhere (outermost / middle / innermost / any two / all three dangling) + an eight-level nest (depth 0..7) whose levels 3 and 7 dangle + 10 sets whose order in the file is independent of the address order: three disjoint depth-0 records [a,1) [a+1,2) [a+4,2) in each of their 6 file orders, two depth-0 then two depth-1 records each depth with descending addresses, the same with the deeper level written first, multi-range records (3 ranges at depth 0, 2 at depth 1) whose ranges are listed with descending addresses, two depth-0 two-range records interleaved in the address space plus a depth-1 two-range record, every list descending; + a set with empty ranges standing alone (second range of a depth-0 record, only range of a depth-1 record): they cover no address + the three-level nest with the call file of its outermost / middle / innermost level declared nowhere} x {10 STACK WIN sets = the 4 above + FUNC split over two frame-data records with different sizes, FPO at the entry and frame data only further in, a record starting inside the FUNC with nothing at its entry and reaching beyond it, a record starting before the FUNC and covering only its first byte, three pieces of two types, pieces with gaps and the entry uncovered} x {f1 far behind with own sub-records | touching f0's end | inside f0} x {PUBLIC none | inside f0 | right behind f0}, same lookups and oracle. Space `stackframe`: one-FUNC files (all 34 INLINE sets, 4 STACK WIN sets - thorough: all 10) through walk_stack/Symbolizer into StackFrame. evaluations = lookups; distinct_nontrivial = distinct file shapes (menu choices x relative position of the FUNC ranges: before / touching / overlapping / nested / equal / empty) with at least one symbolicated address (+ distinct (file, address) pairs symbolicated in the StackFrame space).",
        );
        def.assumptions = vec![
            "exact comparison is made when no two valid FUNC ranges intersect, PUBLIC addresses are distinct, STACK WIN records of one type do not intersect, and within the FUNC covering the address no two line records intersect and no two same-depth INLINE ranges intersect; otherwise only the statement's weaker promises are checked (reported FUNC contains the address; reported PUBLIC is the nearest at or below it and is not cut off by a FUNC that overlaps nothing; a FUNC that overlaps nothing is reported for its addresses; source line / inline frames come from records of the reported FUNC covering the address; bases never exceed the instruction)".into(),
            "an INLINE range of size 0 written inside (or at the start of) another range of the same depth and FUNC is treated as overlapping: the format does not define it, and the (depth,address) search then hides the enclosing range".into(),
            "a PUBLIC exactly at the start address of the nearest preceding FUNC counts as cut off by that FUNC (the FUNC's range lies between the PUBLIC and the address)".into(),
            "inline nesting is the chain of consecutive depths 0,1,2,.. that cover the address (a depth-n range without a covering depth-(n-1) range is not part of the chain), as the INLINE record documentation defines nesting".into(),
            "FILE / INLINE_ORIGIN ids that are not defined yield no file name / no frame for that level (not an error); an undefined origin affects that level only: the levels nested inside it and outside it are reported as if it were defined (fill_symbol: every level is looked up in inline_origins on its own; the call site of the next deeper level is attached to the next defined name)".into(),
            "the order in which the INLINE records of a FUNC, and the ranges within one INLINE record, are written in the file does not matter: the covering record of a depth is found by a scan over all of them (the parser sorts them; nothing in the format requires ascending addresses)".into(),
            "parameter size = that of the STACK WIN record covering the *address* (frame data before FPO), whether or not that record starts at, spans or stays inside the FUNC; the FUNC's own value only if no STACK WIN record covers the address".into(),
        ];
        def.extra.insert("module_bases".into(), json!(["0x0", "0x1000", "0xfffffffffffffff0"]));
        def.extra.insert("offsets".into(), json!("-1..=17 relative to the module base (wrapping)"));
        let g = std::sync::Arc::new(Gen::new(thorough));
        let g2 = g.clone();
        def.spaces.push(Space::new(
            "files",
            g.len(),
            move |idx, l| {
                let (m, shape) = g.model_and_shape(idx);
                run_file(m, shape, l)
            },
            move |idx| json!({"class": "files", "symbol_file": g2.model(idx).to_text()}),
        ));
        def.spaces.push(Space::new(
            "nests",
            product(&nest_radices()),
            |idx, l| {
                // shape = the menu choices themselves, marked so that they cannot coincide with a `files` shape
                let mut shape: Vec<i64> = vec![-100];
                shape.extend(unrank(idx, &nest_radices()).into_iter().map(|x| x as i64));
                run_file(nest_model(idx), shape, l)
            },
            |idx| json!({"class": "nests", "symbol_file": nest_model(idx).to_text()}),
        ));
        def.spaces.push(stackframe_space(thorough));
        def
    })
}
