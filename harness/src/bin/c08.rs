//! C08 — address lookups over untrusted range tables are sound and complete.
//!
//! Bounded-exhaustive: every sequence (in input order) of at most L entries over a small
//! alphabet of (base, size, value) triples that includes the bottom and the very top of the
//! address space, empty sizes, sizes that overflow, identical / nested / touching ranges and
//! equal-valued neighbours, is fed to every table builder of the workspace.  The real table is
//! then queried at every address of a fixed domain and iterated, and compared against the
//! *input list itself* (brute force): no reference implementation of the sort/drop/merge
//! algorithm is involved.
use breakpad_symbols::SymbolFile;
use minidump::format as md;
use minidump::*;
use minidump_common::traits::IntoRangeMapSafe;
use range_map::Range;
use vh::symgen::*;
use vh::*;

const MAX: u64 = u64::MAX;

/// One alphabet symbol. `tag` 0 = value `a` (all `a` entries carry the SAME value, so they can
/// merge), 1 = value `b` (every `b` entry carries a value of its own: its position).
#[derive(Clone, Copy, Debug, PartialEq, Eq, Hash)]
struct E {
    base: u64,
    size: u64,
    tag: u8,
}

fn bases(reduced: bool) -> Vec<u64> {
    if reduced {
        (0..=2).chain(MAX - 2..=MAX).collect()
    } else {
        (0..=5).chain(MAX - 3..=MAX).collect()
    }
}
/// `huge` is the all-ones value of the size field's type, so `base + size` overflows for every
/// base but (for u64) 0.
fn alphabet(huge: u64, tags: u8, reduced: bool) -> Vec<E> {
    let mut v = vec![];
    for &base in &bases(reduced) {
        for &size in &[0u64, 1, 2, 3, huge] {
            for tag in 0..tags {
                v.push(E { base, size, tag });
            }
        }
    }
    v
}
/// Addresses every table is queried at: bottom, around 2^32 (where u32 `huge` sizes end), top.
fn domain() -> Vec<u64> {
    (0..=9).chain(0xffff_fffc..=0x1_0000_0006).chain(MAX - 7..=MAX).collect()
}

type Key = (u64, u64, u64);
/// An entry as the oracle sees it: its own inclusive range and an identity (base, size, value).
#[derive(Clone, Debug, PartialEq, Eq, Hash)]
struct Item {
    own: Option<(u64, u64)>,
    key: Key,
}
/// What was observed on the real table.
struct Table {
    inputs: Vec<Item>,
    by_addr: Vec<Item>,
    at: Vec<(u64, Option<Item>)>,
}
/// Own range of a *returned* entry, by plain containment `base <= a && a - base < size`.
fn natural(base: u64, size: u64) -> Option<(u64, u64)> {
    if size == 0 {
        None
    } else {
        Some((base, base.saturating_add(size - 1)))
    }
}
fn excl(base: u64, size: u64) -> Option<(u64, u64)> {
    range_excl_end_checked(base, size)
}
fn contains(r: (u64, u64), a: u64) -> bool {
    r.0 <= a && a <= r.1
}

#[derive(Clone, Copy, PartialEq, Eq, Debug)]
enum B {
    Generic,
    SymFunc,
    SymLine,
    SymCfi,
    SymWin4,
    SymWin0,
    Modules,
    Memory,
    Memory64,
    MemoryInfo,
    LinuxMaps,
    Unloaded,
}
impl B {
    fn name(self) -> &'static str {
        match self {
            B::Generic => "generic",
            B::SymFunc => "sym-func",
            B::SymLine => "sym-line",
            B::SymCfi => "sym-cfi",
            B::SymWin4 => "sym-win4",
            B::SymWin0 => "sym-win0",
            B::Modules => "modules",
            B::Memory => "memory",
            B::Memory64 => "memory64",
            B::MemoryInfo => "memory-info",
            B::LinuxMaps => "linux-maps",
            B::Unloaded => "unloaded",
        }
    }
    /// all-ones of the size field
    fn huge(self) -> u64 {
        match self {
            B::Generic | B::Memory | B::Memory64 | B::MemoryInfo | B::LinuxMaps => MAX,
            _ => u32::MAX as u64,
        }
    }
    /// 2 = values {a (shared), b (per position)}; 1 = every entry has its own value (its index)
    fn tags(self) -> u8 {
        match self {
            B::Generic | B::SymFunc | B::SymLine | B::SymCfi | B::SymWin4 | B::SymWin0 => 2,
            _ => 1,
        }
    }
}

/// value identity of entry `i` with tag `tag`: shared for `a`, positional for `b`
fn vtag(tag: u8, two_tags: bool, i: usize) -> u64 {
    if two_tags && tag == 0 {
        1000
    } else {
        i as u64
    }
}

static ZEROS: [u8; 8] = [0; 8];

fn sym_parse(text: &str) -> SymbolFile {
    match SymbolFile::from_bytes(text.as_bytes()) {
        Ok(s) => s,
        // the text is well-formed by construction: a rejection is a generator bug, not a verdict
        Err(e) => panic!("c08 generator produced text the parser rejects ({e}):\n{text}"),
    }
}

/// Build the real table for `seq` with builder `b`, look up every domain address, iterate.
/// Everything that touches the code under test happens inside the caller's `guard`.
fn observe(b: B, seq: &[E], dom: &[u64]) -> Table {
    let two = b.tags() == 2;
    match b {
        B::Generic => unreachable!(),
        B::SymFunc => {
            let mut m = SymModel::default();
            for (i, e) in seq.iter().enumerate() {
                let v = vtag(e.tag, two, i);
                m.funcs.push(FuncRec::new(e.base, e.size as u32, 0, &format!("f{v}")));
            }
            let sf = sym_parse(&m.to_text());
            macro_rules! item {
                ($f:expr) => {
                    Item { own: natural($f.address, $f.size as u64), key: ($f.address, $f.size as u64, $f.name[1..].parse().expect("name")) }
                };
            }
            Table {
                inputs: seq.iter().enumerate().map(|(i, e)| Item { own: excl(e.base, e.size), key: (e.base, e.size, vtag(e.tag, two, i)) }).collect(),
                by_addr: sf.functions.ranges_values().map(|(_, f)| item!(f)).collect(),
                // the table itself, then the public lookup (`fill_symbol` of a frame at module base + address, for a
                // module loaded at 0 and one loaded at 0x1000): what it reports must be an entry of the table too
                at: dom
                    .iter()
                    .map(|&a| (a, sf.functions.get(a).map(|f| item!(f))))
                    .chain(dom.iter().flat_map(|&a| {
                        [0u64, 0x1000].into_iter().filter_map(move |base| a.checked_add(base).map(|ip| (a, base, ip))).collect::<Vec<_>>()
                    }).map(|(a, base, ip)| {
                        struct Fr {
                            ip: u64,
                            func: Option<(String, u64)>,
                        }
                        impl breakpad_symbols::FrameSymbolizer for Fr {
                            fn get_instruction(&self) -> u64 {
                                self.ip
                            }
                            fn set_function(&mut self, n: &str, b: u64, _p: u32) {
                                self.func = Some((n.into(), b));
                            }
                            fn set_source_file(&mut self, _f: &str, _l: u32, _b: u64) {}
                        }
                        let module = breakpad_symbols::SimpleModule { base_address: Some(base), size: Some(u64::MAX - base), ..Default::default() };
                        let mut fr = Fr { ip, func: None };
                        sf.fill_symbol(&module, &mut fr);
                        // map the reported (name, absolute base) back to the table entry
                        let found = fr.func.and_then(|(n, b)| sf.functions.ranges_values().map(|(_, f)| f).find(|f| f.name == n && f.address.checked_add(base) == Some(b)).map(|f| item!(f)));
                        (a, found)
                    }))
                    .collect(),
            }
        }
        B::SymLine => {
            let mut m = SymModel::default();
            let mut f = FuncRec::new(0, 1, 0, "f");
            for (i, e) in seq.iter().enumerate() {
                f.lines.push(LineRec { addr: e.base, size: e.size as u32, line: 7 + vtag(e.tag, two, i) as u32, file: 1 });
            }
            m.funcs.push(f);
            let sf = sym_parse(&m.to_text());
            let func = sf.functions.get(0).expect("FUNC 0 1 is always kept");
            macro_rules! item {
                ($s:expr) => {
                    Item { own: natural($s.address, $s.size as u64), key: ($s.address, $s.size as u64, $s.line as u64 - 7) }
                };
            }
            Table {
                inputs: seq.iter().enumerate().map(|(i, e)| Item { own: range_last_byte_checked(e.base, e.size), key: (e.base, e.size, vtag(e.tag, two, i)) }).collect(),
                by_addr: func.lines.ranges_values().map(|(_, s)| item!(s)).collect(),
                at: dom.iter().map(|&a| (a, func.lines.get(a).map(|s| item!(s)))).collect(),
            }
        }
        B::SymCfi => {
            let mut m = SymModel::default();
            for (i, e) in seq.iter().enumerate() {
                m.cfis.push(CfiRec { addr: e.base, size: e.size as u32, init: format!(".cfa: $esp {} +", vtag(e.tag, two, i)), add: vec![] });
            }
            let sf = sym_parse(&m.to_text());
            macro_rules! item {
                ($c:expr) => {
                    Item { own: natural($c.init.address, $c.size as u64), key: ($c.init.address, $c.size as u64, $c.init.rules.split(' ').nth(2).and_then(|x| x.parse().ok()).expect("rules")) }
                };
            }
            Table {
                inputs: seq.iter().enumerate().map(|(i, e)| Item { own: excl(e.base, e.size), key: (e.base, e.size, vtag(e.tag, two, i)) }).collect(),
                by_addr: sf.cfi_stack_info.ranges_values().map(|(_, c)| item!(c)).collect(),
                at: dom.iter().map(|&a| (a, sf.cfi_stack_info.get(a).map(|c| item!(c)))).collect(),
            }
        }
        B::SymWin4 | B::SymWin0 => {
            let mut m = SymModel::default();
            let ty = if b == B::SymWin4 { 4 } else { 0 };
            for (i, e) in seq.iter().enumerate() {
                m.wins.push(WinRec { ty, addr: e.base, size: e.size as u32, param: vtag(e.tag, two, i) as u32, tail: if ty == 4 { "$eip .raSearchStart ^ =".into() } else { "1".into() } });
            }
            let sf = sym_parse(&m.to_text());
            let map = if ty == 4 { &sf.win_stack_framedata_info } else { &sf.win_stack_fpo_info };
            macro_rules! item {
                ($w:expr) => {
                    Item { own: natural($w.address, $w.size as u64), key: ($w.address, $w.size as u64, $w.parameter_size as u64) }
                };
            }
            Table {
                inputs: seq.iter().enumerate().map(|(i, e)| Item { own: excl(e.base, e.size), key: (e.base, e.size, vtag(e.tag, two, i)) }).collect(),
                by_addr: map.ranges_values().map(|(_, w)| item!(w)).collect(),
                at: dom.iter().map(|&a| (a, map.get(a).map(|w| item!(w)))).collect(),
            }
        }
        B::Modules => {
            let mods: Vec<MinidumpModule> = seq.iter().enumerate().map(|(i, e)| MinidumpModule::new(e.base, e.size as u32, &format!("{i}"))).collect();
            let list = MinidumpModuleList::from_modules(mods);
            let item = |m: &MinidumpModule| Item { own: natural(m.base_address(), m.size()), key: (m.base_address(), m.size(), m.name.parse().expect("name")) };
            Table {
                inputs: seq.iter().enumerate().map(|(i, e)| Item { own: excl(e.base, e.size), key: (e.base, e.size, i as u64) }).collect(),
                by_addr: list.by_addr().map(item).collect(),
                at: dom.iter().map(|&a| (a, list.module_at_address(a).map(item))).collect(),
            }
        }
        B::Memory => {
            let regs: Vec<MinidumpMemory<'static>> = seq
                .iter()
                .enumerate()
                .map(|(i, e)| MinidumpMemory { desc: md::MINIDUMP_MEMORY_DESCRIPTOR::default(), base_address: e.base, size: e.size, bytes: &ZEROS[..i], endian: scroll::LE })
                .collect();
            let list = MinidumpMemoryList::from_regions(regs);
            let item = |m: &MinidumpMemory| Item { own: natural(m.base_address, m.size), key: (m.base_address, m.size, m.bytes.len() as u64) };
            Table {
                inputs: seq.iter().enumerate().map(|(i, e)| Item { own: excl(e.base, e.size), key: (e.base, e.size, i as u64) }).collect(),
                by_addr: list.by_addr().map(item).collect(),
                at: dom.iter().map(|&a| (a, list.memory_at_address(a).map(item))).collect(),
            }
        }
        B::Memory64 => {
            let regs: Vec<MinidumpMemory64<'static>> = seq
                .iter()
                .enumerate()
                .map(|(i, e)| MinidumpMemory64 { desc: md::MINIDUMP_MEMORY_DESCRIPTOR64 { start_of_memory_range: e.base, data_size: e.size }, base_address: e.base, size: e.size, bytes: &ZEROS[..i], endian: scroll::LE })
                .collect();
            let list = MinidumpMemory64List::from_regions(regs);
            let item = |m: &MinidumpMemory64| Item { own: natural(m.base_address, m.size), key: (m.base_address, m.size, m.bytes.len() as u64) };
            Table {
                inputs: seq.iter().enumerate().map(|(i, e)| Item { own: excl(e.base, e.size), key: (e.base, e.size, i as u64) }).collect(),
                by_addr: list.by_addr().map(item).collect(),
                at: dom.iter().map(|&a| (a, list.memory_at_address(a).map(item))).collect(),
            }
        }
        B::MemoryInfo => {
            // MINIDUMP_MEMORY_INFO_LIST: header (size_of_header=16, size_of_entry=48, count, pad) + entries
            let mut bytes: Vec<u8> = vec![];
            bytes.extend(16u32.to_le_bytes());
            bytes.extend(48u32.to_le_bytes());
            bytes.extend((seq.len() as u32).to_le_bytes());
            bytes.extend(0u32.to_le_bytes());
            for (i, e) in seq.iter().enumerate() {
                bytes.extend(e.base.to_le_bytes()); // base_address
                bytes.extend((i as u64).to_le_bytes()); // allocation_base: carries the identity
                bytes.extend(0u64.to_le_bytes()); // allocation_protection, alignment
                bytes.extend(e.size.to_le_bytes()); // region_size
                bytes.extend([0u8; 16]); // state, protection, type, alignment
            }
            let list = match MinidumpMemoryInfoList::read(&bytes, &bytes, scroll::LE, None) {
                Ok(l) => l,
                Err(e) => panic!("c08 generator: memory info stream rejected: {e:?}"),
            };
            let item = |m: &MinidumpMemoryInfo| Item { own: natural(m.raw.base_address, m.raw.region_size), key: (m.raw.base_address, m.raw.region_size, m.raw.allocation_base) };
            Table {
                inputs: seq.iter().enumerate().map(|(i, e)| Item { own: excl(e.base, e.size), key: (e.base, e.size, i as u64) }).collect(),
                by_addr: list.by_addr().map(item).collect(),
                at: dom.iter().map(|&a| (a, list.memory_info_at_address(a).map(item))).collect(),
            }
        }
        B::LinuxMaps => {
            // a map line is "<first>-<last> perms offset dev inode path"; the code documents the
            // second address as INCLUSIVE and rejects first > last.  (base, size) -> last = base+size-1 (wrapping).
            let ends: Vec<(u64, u64)> = seq.iter().map(|e| (e.base, e.base.wrapping_add(e.size).wrapping_sub(1))).collect();
            let mut text = String::new();
            for (i, (a0, a1)) in ends.iter().enumerate() {
                text += &format!("{a0:x}-{a1:x} r-xp 00000000 00:00 {i} /m\n");
            }
            let list = match MinidumpLinuxMaps::read(text.as_bytes(), text.as_bytes(), scroll::LE, None) {
                Ok(l) => l,
                Err(e) => panic!("c08 generator: maps stream rejected: {e:?}\n{text}"),
            };
            let own = |a0: u64, a1: u64| if a0 <= a1 { Some((a0, a1)) } else { None };
            let item = |m: &MinidumpLinuxMapInfo| Item { own: own(m.map.address.0, m.map.address.1), key: (m.map.address.0, m.map.address.1, m.map.inode) };
            Table {
                inputs: ends.iter().enumerate().map(|(i, &(a0, a1))| Item { own: own(a0, a1), key: (a0, a1, i as u64) }).collect(),
                by_addr: list.by_addr().map(item).collect(),
                at: dom.iter().map(|&a| (a, list.memory_info_at_address(a).map(item))).collect(),
            }
        }
        B::Unloaded => unreachable!(),
    }
}

fn fail(l: &mut Local, b: impl Into<BName>, point: &str, what: String, seq: &[E]) {
    let name = b.into().0;
    l.violation(format!("c08:{name}:{point}"), format!("{name}: {what}"), json!({"sequence": format!("{seq:x?}")}));
}
struct BName(&'static str);
impl From<B> for BName {
    fn from(b: B) -> BName {
        BName(b.name())
    }
}
impl From<&'static str> for BName {
    fn from(s: &'static str) -> BName {
        BName(s)
    }
}

/// Oracle (2)(3)(4) on an observed table.
fn check_table(l: &mut Local, b: &'static str, win: bool, seq: &[E], t: &Table) {
    // (2) soundness
    for (a, got) in &t.at {
        l.eval();
        let Some(got) = got else { continue };
        match got.own {
            Some(r) if contains(r, *a) => {}
            _ => fail(l, b, "lookup-outside-own-range", format!("lookup({a:#x}) returned entry (base {:#x}, size/last {:#x}) which does not contain the address", got.key.0, got.key.1), seq),
        }
        // the returned entry is one of the inputs (STACK WIN: possibly with its size cut back, as documented in the parser)
        let is_input = t.inputs.iter().any(|i| if win { i.key.0 == got.key.0 && i.key.2 == got.key.2 && got.key.1 <= i.key.1 } else { i.key == got.key });
        if !is_input {
            fail(l, b, "lookup-returns-non-input", format!("lookup({a:#x}) returned {:x?}, not an entry of the list", got.key), seq);
        }
    }
    // (3) iteration sorted and pairwise disjoint
    for it in &t.by_addr {
        if it.own.is_none() {
            fail(l, b, "by-addr-entry-without-range", format!("iteration yields an entry without a valid range {:x?}", it.key), seq);
        }
    }
    for w in t.by_addr.windows(2) {
        if let (Some(x), Some(y)) = (w[0].own, w[1].own) {
            if !(x.1 < y.0) {
                fail(l, b, "by-addr-not-sorted-disjoint", format!("iteration by address yields [{:#x},{:#x}] then [{:#x},{:#x}]", x.0, x.1, y.0, y.1), seq);
            }
        }
    }
    // (4) completeness for entries that intersect no other entry
    let mut isolated_n = 0;
    for (i, inp) in t.inputs.iter().enumerate() {
        let Some(r) = inp.own else { continue };
        let isolated = t.inputs.iter().enumerate().all(|(j, o)| j == i || o.own.map_or(true, |q| !ranges_intersect(q, r)));
        if !isolated {
            continue;
        }
        isolated_n += 1;
        for (a, got) in &t.at {
            if contains(r, *a) && got.as_ref().map(|g| g.key) != Some(inp.key) {
                fail(l, b, "isolated-entry-not-returned", format!("entry {:x?} intersects no other entry but lookup({a:#x}) = {:x?}", inp.key, got.as_ref().map(|g| g.key)), seq);
            }
        }
        if !t.by_addr.iter().any(|g| g.key == inp.key) {
            fail(l, b, "isolated-entry-not-iterated", format!("entry {:x?} intersects no other entry but iteration by address omits it", inp.key), seq);
        }
    }
    let valid = t.inputs.iter().filter(|i| i.own.is_some()).count();
    if valid >= 2 {
        l.distinct(&(b, t.by_addr.iter().map(|i| i.key).collect::<Vec<_>>(), t.inputs.iter().map(|i| i.own).collect::<Vec<_>>()));
    }
    let class = if valid == 0 {
        "no-valid-entry"
    } else if t.by_addr.len() == valid {
        "all-valid-entries-kept"
    } else if isolated_n > 0 {
        "some-dropped-or-merged+isolated-kept"
    } else {
        "some-dropped-or-merged"
    };
    l.outcome(&format!("{b}:{class}"));
}

fn run_generic(l: &mut Local, seq: &[E], dom: &[u64]) {
    let b = B::Generic;
    // value = (tag, id): all `a` entries are equal-valued (id 0) and may merge; `b` entries are distinct
    let input: Vec<(Option<Range<u64>>, (u8, usize))> =
        seq.iter().enumerate().map(|(i, e)| (range_last_byte_checked(e.base, e.size).map(|(s, e)| Range::new(s, e)), (e.tag, if e.tag == 0 { 0 } else { i }))).collect();
    let map = match guard(|| input.clone().into_rangemap_safe()) {
        Ok(m) => m,
        Err(p) => return l.panic_violation(&p, json!({"builder": "generic", "sequence": format!("{seq:x?}")})),
    };
    let rv: Vec<(Range<u64>, (u8, usize))> = map.ranges_values().cloned().collect();
    for w in rv.windows(2) {
        if !(w[0].0.end < w[1].0.start) {
            fail(l, b, "by-addr-not-sorted-disjoint", format!("ranges_values yields {:x?} then {:x?}", w[0].0, w[1].0), seq);
        }
    }
    for (r, _) in &rv {
        if r.start > r.end {
            fail(l, b, "by-addr-entry-without-range", format!("ranges_values yields an empty range {r:x?}"), seq);
        }
    }
    for &a in dom {
        l.eval();
        if let Some(v) = map.get(a) {
            let ok = input.iter().any(|(r, val)| val == v && r.is_some_and(|r| r.start <= a && a <= r.end));
            if !ok {
                fail(l, b, "lookup-outside-own-range", format!("get({a:#x}) = {v:?}, but no input entry with that value contains the address"), seq);
            }
        }
    }
    let mut isolated_n = 0;
    for (i, (r, val)) in input.iter().enumerate() {
        let Some(r) = r else { continue };
        let isolated = input.iter().enumerate().all(|(j, (q, _))| j == i || q.map_or(true, |q| q.end < r.start || r.end < q.start));
        if !isolated {
            continue;
        }
        isolated_n += 1;
        for &a in dom {
            if r.start <= a && a <= r.end && map.get(a) != Some(val) {
                fail(l, b, "isolated-entry-not-returned", format!("entry {r:x?} -> {val:?} intersects no other entry but get({a:#x}) = {:?}", map.get(a)), seq);
            }
        }
        if !rv.iter().any(|(q, v)| v == val && q.start <= r.start && r.end <= q.end) {
            fail(l, b, "isolated-entry-not-iterated", format!("entry {r:x?} -> {val:?} intersects no other entry but ranges_values omits it"), seq);
        }
    }
    let valid = input.iter().filter(|i| i.0.is_some()).count();
    if valid >= 2 {
        l.distinct(&("generic", rv.iter().map(|(r, v)| (r.start, r.end, *v)).collect::<Vec<_>>(), input.iter().map(|i| i.0.map(|r| (r.start, r.end))).collect::<Vec<_>>()));
    }
    let class = if valid == 0 {
        "no-valid-entry"
    } else if rv.len() == valid {
        "all-valid-entries-kept"
    } else if isolated_n > 0 {
        "some-dropped-or-merged+isolated-kept"
    } else {
        "some-dropped-or-merged"
    };
    l.outcome(&format!("generic:{class}"));
}

fn run_unloaded(l: &mut Local, seq: &[E], dom: &[u64]) {
    let b = B::Unloaded;
    let mods: Vec<MinidumpUnloadedModule> = seq.iter().enumerate().map(|(i, e)| MinidumpUnloadedModule::new(e.base, e.size as u32, &format!("{i}"))).collect();
    let observed = guard(|| {
        let list = MinidumpUnloadedModuleList::from_modules(mods);
        let at: Vec<Vec<(u64, u64, u64)>> = dom.iter().map(|&a| list.modules_at_address(a).map(|m| (m.base_address(), m.size(), m.name.parse::<u64>().expect("name"))).collect()).collect();
        let by: Vec<(u64, u64, u64)> = list.by_addr().map(|m| (m.base_address(), m.size(), m.name.parse::<u64>().expect("name"))).collect();
        (at, by)
    });
    let (at, by) = match observed {
        Ok(x) => x,
        Err(p) => return l.panic_violation(&p, json!({"builder": "unloaded", "sequence": format!("{seq:x?}")})),
    };
    // (5) exactly all entries covering the address (own range: size != 0 and base + size representable)
    let mut hits = 0;
    for (k, &a) in dom.iter().enumerate() {
        l.eval();
        let mut got = at[k].clone();
        got.sort();
        let mut exp: Vec<(u64, u64, u64)> = seq.iter().enumerate().filter(|(_, e)| excl(e.base, e.size).is_some_and(|r| contains(r, a))).map(|(i, e)| (e.base, e.size, i as u64)).collect();
        exp.sort();
        hits += exp.len();
        if got != exp {
            fail(l, b, "modules_at_address-differs-from-filter", format!("modules_at_address({a:#x}) = {got:x?}, entries covering it = {exp:x?}"), seq);
        }
    }
    // (3) iteration sorted by address; every valid entry exactly once
    for w in by.windows(2) {
        if w[0].0 > w[1].0 {
            fail(l, b, "by-addr-not-sorted", format!("by_addr yields base {:#x} before {:#x}", w[0].0, w[1].0), seq);
        }
    }
    let mut by_s = by.clone();
    by_s.sort();
    let mut exp: Vec<(u64, u64, u64)> = seq.iter().enumerate().filter(|(_, e)| excl(e.base, e.size).is_some()).map(|(i, e)| (e.base, e.size, i as u64)).collect();
    exp.sort();
    if by_s != exp {
        fail(l, b, "by-addr-not-all-valid-entries", format!("by_addr yields {by:x?}, valid entries are {exp:x?}"), seq);
    }
    if exp.len() >= 2 {
        l.distinct(&("unloaded", by, at));
    }
    l.outcome(if exp.is_empty() {
        "unloaded:no-valid-entry"
    } else if hits == 0 {
        "unloaded:no-domain-address-covered"
    } else {
        "unloaded:some-address-covered"
    });
}

fn space_for(b: B, name: &str, alpha: Vec<E>, min_len: u32, max_len: u32) -> Space {
    let k = alpha.len() as u64;
    // sequences of length min_len..=max_len
    let skip = if min_len == 0 { 0 } else { seq_count(k, min_len - 1) };
    let len = seq_count(k, max_len) - skip;
    let dom = domain();
    let alpha2 = alpha.clone();
    let decode = move |alpha: &[E], idx: u64| -> Vec<E> { seq_unrank(idx + skip, k, max_len).iter().map(|&d| alpha[d as usize]).collect() };
    let decode2 = decode.clone();
    let bname = b.name();
    let run = move |idx: u64, l: &mut Local| {
        let seq = decode(&alpha, idx);
        match b {
            B::Generic => run_generic(l, &seq, &dom),
            B::Unloaded => run_unloaded(l, &seq, &dom),
            _ => match guard(|| observe(b, &seq, &dom)) {
                Ok(t) => check_table(l, b.name(), matches!(b, B::SymWin0 | B::SymWin4), &seq, &t),
                Err(p) => {
                    if p.file.starts_with("src/") {
                        // a panic in this file (generator / identity decoding) is a harness bug, not a verdict
                        panic!("harness: {} ({}:{})", p.msg, p.file, p.line);
                    }
                    l.panic_violation(&p, json!({"builder": b.name(), "sequence": format!("{seq:x?}")}))
                }
            },
        }
    };
    let desc = move |idx: u64| {
        let seq = decode2(&alpha2, idx);
        json!({"builder": bname, "class": bname, "entries": seq.iter().map(|e| json!({"base": format!("{:#x}", e.base), "size": format!("{:#x}", e.size), "value": if e.tag == 0 { "a" } else { "b" }})).collect::<Vec<_>>()})
    };
    Space::new(name, len, run, desc)
}

/// The same tables reached through `Minidump::read` of a whole synthesized dump: module list
/// (its reader additionally drops size-0 / overflowing modules before building), memory info
/// list, Linux maps, unloaded modules.
fn space_dump(alpha: Vec<E>, max_len: u32) -> Space {
    use minidump_synth::{DumpString, MemoryInfo, Module as SynthModule, SynthMinidump, UnloadedModule};
    use test_assembler::Endian;
    let k = alpha.len() as u64;
    // non-empty sequences only (an empty list produces no stream at all)
    let len = seq_count(k, max_len) - 1;
    let dom = domain();
    let alpha2 = alpha.clone();
    let run = move |idx: u64, l: &mut Local| {
        let seq: Vec<E> = seq_unrank(idx + 1, k, max_len).iter().map(|&d| alpha[d as usize]).collect();
        let mut d = SynthMinidump::with_endian(Endian::Little);
        let mut maps = String::new();
        let ends: Vec<(u64, u64)> = seq.iter().map(|e| (e.base, e.base.wrapping_add(e.size).wrapping_sub(1))).collect();
        let unloaded_ok = seq.iter().all(|e| excl(e.base, e.size).is_some());
        for (i, e) in seq.iter().enumerate() {
            let name = DumpString::new(&format!("{i}"), Endian::Little);
            d = d.add_module(SynthModule::new(Endian::Little, e.base, e.size as u32, &name, 0, 0, None));
            if unloaded_ok {
                // the unloaded-module *reader* refuses a stream holding a size-0 / overflowing entry
                // (an Err, documented with a TODO); only streams it accepts reach the table builder
                d = d.add_unloaded_module(UnloadedModule::new(Endian::Little, e.base, e.size as u32, &name, 0, 0));
            }
            d = d.add(name);
            d = d.add_memory_info(MemoryInfo::new(Endian::Little, e.base, i as u64, 0, e.size, 0, 0, 0));
            maps += &format!("{:x}-{:x} r-xp 00000000 00:00 {i} /m\n", ends[i].0, ends[i].1);
        }
        d = d.set_linux_maps(maps.as_bytes());
        let mut bytes = d.finish().expect("synth dump");
        // every other sequence: the module entries WITHOUT a range (size 0, or running past the address space)
        // also have no readable name - such an entry is left out, it does not take the list down with it
        if idx % 2 == 1 {
            let rd = |b: &[u8], o: usize| u32::from_le_bytes(b[o..o + 4].try_into().unwrap()) as usize;
            let (count, dir) = (rd(&bytes, 8), rd(&bytes, 12));
            let ml = (0..count).map(|k| dir + 12 * k).find(|&e| rd(&bytes, e) == 4).map(|e| rd(&bytes, e + 8)).expect("c08 generator: module list stream");
            assert_eq!(rd(&bytes, ml), seq.len(), "c08 generator: module count");
            for (i, e) in seq.iter().enumerate() {
                if excl(e.base, e.size).is_none() {
                    let name_rva = ml + 4 + 108 * i + 20;
                    bytes[name_rva..name_rva + 4].copy_from_slice(&0xffff_fff0u32.to_le_bytes());
                }
            }
        }
        let obs = guard(|| {
            let dump = Minidump::read(&bytes[..]).expect("c08 generator: dump rejected");
            let ml = match dump.get_stream::<MinidumpModuleList>() {
                Ok(ml) => ml,
                Err(e) => return Err(format!("{e:?}")),
            };
            let item = |m: &MinidumpModule| Item { own: natural(m.base_address(), m.size()), key: (m.base_address(), m.size(), m.name.parse().expect("name")) };
            let t_mod = Table {
                inputs: seq.iter().enumerate().map(|(i, e)| Item { own: excl(e.base, e.size), key: (e.base, e.size, i as u64) }).collect(),
                by_addr: ml.by_addr().map(item).collect(),
                at: dom.iter().map(|&a| (a, ml.module_at_address(a).map(item))).collect(),
            };
            let t_info = if seq.is_empty() {
                None
            } else {
                let il = dump.get_stream::<MinidumpMemoryInfoList>().expect("c08 generator: memory info list");
                let item = |m: &MinidumpMemoryInfo| Item { own: natural(m.raw.base_address, m.raw.region_size), key: (m.raw.base_address, m.raw.region_size, m.raw.allocation_base) };
                Some(Table {
                    inputs: seq.iter().enumerate().map(|(i, e)| Item { own: excl(e.base, e.size), key: (e.base, e.size, i as u64) }).collect(),
                    by_addr: il.by_addr().map(item).collect(),
                    at: dom.iter().map(|&a| (a, il.memory_info_at_address(a).map(item))).collect(),
                })
            };
            let lm = dump.get_stream::<MinidumpLinuxMaps>().expect("c08 generator: maps");
            let own = |a0: u64, a1: u64| if a0 <= a1 { Some((a0, a1)) } else { None };
            let item = |m: &MinidumpLinuxMapInfo| Item { own: own(m.map.address.0, m.map.address.1), key: (m.map.address.0, m.map.address.1, m.map.inode) };
            let t_maps = Table {
                inputs: ends.iter().enumerate().map(|(i, &(a0, a1))| Item { own: own(a0, a1), key: (a0, a1, i as u64) }).collect(),
                by_addr: lm.by_addr().map(item).collect(),
                at: dom.iter().map(|&a| (a, lm.memory_info_at_address(a).map(item))).collect(),
            };
            let unl = if unloaded_ok && !seq.is_empty() {
                let ul = dump.get_stream::<MinidumpUnloadedModuleList>().expect("c08 generator: unloaded list");
                Some(dom.iter().map(|&a| ul.modules_at_address(a).map(|m| (m.base_address(), m.size(), m.name.parse::<u64>().expect("name"))).collect::<Vec<_>>()).collect::<Vec<_>>())
            } else {
                None
            };
            Ok((t_mod, t_info, t_maps, unl))
        });
        match obs {
            Ok(Err(e)) => {
                l.eval();
                fail(l, "dump-modules", "module-list-rejected", format!("the module list stream is rejected ({e}) although every entry is well-formed or merely has no range"), &seq);
            }
            Ok(Ok((t_mod, t_info, t_maps, unl))) => {
                check_table(l, "dump-modules", false, &seq, &t_mod);
                if let Some(t) = t_info {
                    check_table(l, "dump-memory-info", false, &seq, &t);
                }
                check_table(l, "dump-linux-maps", false, &seq, &t_maps);
                if let Some(at) = unl {
                    for (k, &a) in dom.iter().enumerate() {
                        l.eval();
                        let mut got = at[k].clone();
                        got.sort();
                        let mut exp: Vec<(u64, u64, u64)> = seq.iter().enumerate().filter(|(_, e)| excl(e.base, e.size).is_some_and(|r| contains(r, a))).map(|(i, e)| (e.base, e.size, i as u64)).collect();
                        exp.sort();
                        if got != exp {
                            fail(l, "dump-unloaded", "modules_at_address-differs-from-filter", format!("modules_at_address({a:#x}) = {got:x?}, entries covering it = {exp:x?}"), &seq);
                        }
                    }
                    l.outcome("dump-unloaded:stream-accepted");
                } else {
                    l.outcome("dump-unloaded:not-generated-or-reader-would-refuse");
                }
            }
            Err(p) => {
                if p.file.starts_with("src/") {
                    panic!("harness: {} ({}:{})", p.msg, p.file, p.line);
                }
                l.panic_violation(&p, json!({"builder": "dump", "sequence": format!("{seq:x?}")}))
            }
        }
    };
    let desc = move |idx: u64| {
        let seq: Vec<E> = seq_unrank(idx + 1, k, max_len).iter().map(|&d| alpha2[d as usize]).collect();
        json!({"builder": "dump", "class": "dump", "entries": seq.iter().map(|e| json!({"base": format!("{:#x}", e.base), "size": format!("{:#x}", e.size)})).collect::<Vec<_>>()})
    };
    Space::new("dump", len, run, desc)
}

const ALL: [B; 12] = [B::Generic, B::SymFunc, B::SymLine, B::SymCfi, B::SymWin4, B::SymWin0, B::Modules, B::Memory, B::Memory64, B::MemoryInfo, B::LinuxMaps, B::Unloaded];

fn main() {
    run_check("C08", |ctx| {
        let mut def = CheckDef::new(
            "C08",
            "exploration",
            "bounded-exhaustive: every input-ordered sequence of <= L (base,size,value) entries over the alphabet {bases 0..5, 2^64-4..2^64-1} x {size 0,1,2,3, all-ones of the size field} x {value a shared by all a-entries, value b distinct per position} (index-valued builders: one value per position) through each of 12 table builders (plus, for sequences of <= 2 (thorough 3), the module / memory-info / Linux-maps / unloaded tables obtained by Minidump::read of a synthesized dump); every table is queried at 35 addresses (0..9, 2^32-4..2^32+6, 2^64-8..2^64-1) and iterated; oracle = brute force over the input list: lookup result contains the address and is an input entry, iteration sorted and pairwise disjoint, an entry intersecting no other entry is returned at each of its addresses and iterated, unloaded lookup == filter over all entries. evaluations = lookups. distinct_nontrivial = distinct (builder, resulting table, input range pattern) among sequences with >= 2 valid entries.",
        );
        def.assumptions = vec![
            "an entry's own range is the one its type documents through memory_range(): size != 0 and base+size representable for modules, unloaded modules, memory regions, memory info, FUNC, STACK CFI INIT, STACK WIN (so an entry ending exactly at 2^64 has NO range and is never expected back); size != 0 and last byte representable for line records and the generic builder; [first,last] inclusive with first <= last for Linux maps (adjacent maps therefore intersect)".into(),
            "STACK WIN: the parser documents that an entry overlapped by a later-starting one is cut back to end where the next starts; a returned entry therefore counts as an input entry if base and value match and its size is <= the written size".into(),
            "completeness is only required of entries that intersect no other valid entry of the list (as the statement says); which of several intersecting entries survives is not checked".into(),
            "memory info and Linux maps entries have private fields: they are built by MinidumpStream::read from hand-assembled stream bytes (well-formed by construction; a rejected stream is a harness error); reading a whole dump (directory, module name strings) is C01/C02 territory".into(),
        ];
        let thorough = ctx.tier == Tier::Thorough;
        def.extra.insert("max_sequence_length".into(), json!(if thorough { "3 over the full alphabet + exactly 4 over the reduced alphabet (bases 0..2, 2^64-3..2^64-1)" } else { "3" }));
        def.extra.insert("builders".into(), json!(ALL.iter().map(|b| b.name()).collect::<Vec<_>>()));
        for b in ALL {
            def.spaces.push(space_for(b, b.name(), alphabet(b.huge(), b.tags(), false), 0, 3));
        }
        def.spaces.push(space_dump(alphabet(u32::MAX as u64, 1, false), if thorough { 3 } else { 2 }));
        if thorough {
            for b in ALL {
                def.spaces.push(space_for(b, &format!("{}-len4", b.name()), alphabet(b.huge(), b.tags(), true), 4, 4));
            }
        }
        def
    })
}
