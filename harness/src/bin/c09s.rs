//! C09 part (d) — the growth / discard-to-newline recovery machinery of SymbolFile::parse, driven
//! exhaustively in the scaled build (cfg rust_minidump_verif_smallbuf: INITIAL 16 / MAX 256) with
//! inputs of tens of bytes instead of hundreds of kilobytes. Spawned by the `scaled-buffer`
//! space of c09 (stock build); can also be run on its own.
use breakpad_symbols::SymbolFile;
use std::cell::Cell;
use std::io::Read;
use std::sync::Arc;
use vh::*;

#[cfg(not(rust_minidump_verif_smallbuf))]
compile_error!("c09s must be built with --cfg rust_minidump_verif_smallbuf (see /verif/check)");

const MAX: usize = 256;

/// line i of exactly `l` bytes incl. terminator: blank for l<=2, else `PUBLIC <addr> 0 nnn…`
fn line(i: usize, l: usize, crlf: bool) -> Vec<u8> {
    if l == 1 {
        return b"\n".to_vec();
    }
    if l == 2 {
        return b"\r\n".to_vec();
    }
    let mut v = format!("PUBLIC {:x} 0 ", 0x1000 * (i + 1)).into_bytes();
    let term = if crlf { 2 } else { 1 };
    assert!(l >= v.len() + 1 + term, "line too short for a PUBLIC record: {l}");
    v.resize(l - term, b'n');
    if crlf {
        v.push(b'\r');
    }
    v.push(b'\n');
    v
}

#[derive(Clone, Debug)]
struct Case {
    lens: Vec<usize>,
    nofinal: bool,
    crlf: bool,
}
impl Case {
    fn bytes(&self) -> Vec<u8> {
        let mut d = b"MODULE a b c d\n".to_vec();
        for (i, &l) in self.lens.iter().enumerate() {
            d.extend(line(i, l, self.crlf));
        }
        if self.nofinal {
            d.pop();
            if self.crlf && d.last() == Some(&b'\r') {
                d.pop();
            }
        }
        d
    }
    fn json(&self) -> Value {
        json!({"class": "scaled", "line_lengths": self.lens, "final_newline": !self.nofinal, "crlf": self.crlf})
    }
}

struct CountingReader<'a> {
    d: &'a [u8],
    chunk: usize,
    first: Option<usize>,
    read_total: &'a Cell<usize>,
    cb_total: &'a Cell<usize>,
    worst: &'a Cell<usize>,
}
impl Read for CountingReader<'_> {
    fn read(&mut self, b: &mut [u8]) -> std::io::Result<usize> {
        let held = self.read_total.get() - self.cb_total.get();
        self.worst.set(self.worst.get().max(held));
        let lim = if !b.is_empty() { self.first.take().unwrap_or(self.chunk) } else { self.chunk };
        let n = b.len().min(lim).min(self.d.len());
        b[..n].copy_from_slice(&self.d[..n]);
        self.d = &self.d[n..];
        self.read_total.set(self.read_total.get() + n);
        Ok(n)
    }
}

fn check_case(c: &Case, l: &mut Local) {
    let data = c.bytes();
    let schedules: &[(usize, Option<usize>)] = &[(usize::MAX, None), (1, None), (3, None), (16, None), (17, None), (100, None), (255, None), (256, None), (257, None), (usize::MAX, Some(1)), (usize::MAX, Some(15))];
    for &(chunk, first) in schedules {
        let (rt, ct, worst) = (Cell::new(0), Cell::new(0), Cell::new(0));
        let mut cb_ok = true;
        let res = guard(|| {
            let r = CountingReader { d: &data, chunk, first, read_total: &rt, cb_total: &ct, worst: &worst };
            SymbolFile::parse(r, |b| {
                if !data[ct.get()..].starts_with(b) {
                    cb_ok = false;
                }
                ct.set(ct.get() + b.len())
            })
        });
        l.eval();
        let sched = json!({"chunk": if chunk == usize::MAX { -1 } else { chunk as i64 }, "first_read": first});
        let res = match res {
            Ok(r) => r,
            Err(p) => {
                l.panic_violation(&p, json!({"case": c.json(), "schedule": sched}));
                continue;
            }
        };
        if worst.get() > MAX {
            l.violation("c09:unparsed-window-exceeds-cap", format!("{} bytes read but not yet handed to the callback (cap {MAX})", worst.get()), json!({"case": c.json(), "schedule": sched}));
        }
        if !cb_ok {
            l.violation("c09:callback-not-input-prefix", "callback bytes are not a prefix of the input", json!({"case": c.json(), "schedule": sched}));
        }
        let n_over = c.lens.iter().filter(|&&x| x > MAX).count();
        l.outcome(&format!("{} overlong={} final_newline={}", if res.is_ok() { "Ok" } else { "Err" }, n_over.min(2), !c.nofinal));
        match res {
            Ok(t) => {
                l.distinct(&(&c.lens, c.nofinal, t.publics.len()));
                // every line up to MAX/2 must have been parsed, every line over MAX dropped; the fuzzy zone may go either way
                let last = c.lens.len() - 1;
                for (i, &len) in c.lens.iter().enumerate() {
                    if len <= 2 {
                        continue;
                    }
                    let addr = 0x1000 * (i as u64 + 1);
                    let present = t.publics.iter().any(|p| p.address == addr);
                    let unterminated = c.nofinal && i == last;
                    if unterminated {
                        if present {
                            l.violation("c09:unterminated-line-parsed", "a last line without terminator shows up in the table", json!({"case": c.json(), "schedule": sched}));
                        }
                    } else if len <= MAX / 2 && !present {
                        l.violation("c09:short-line-lost", format!("line {i} of {len} bytes (<= MAX/2) is missing from the table after a successful parse"), json!({"case": c.json(), "schedule": sched}));
                    } else if len > MAX && present {
                        l.violation("c09:overlong-line-kept", format!("line {i} of {len} bytes (> MAX) was parsed although it cannot fit the window"), json!({"case": c.json(), "schedule": sched}));
                    }
                }
            }
            Err(_) => {
                l.distinct(&(&c.lens, c.nofinal, "err"));
                // with a final newline, over-long lines are dropped and nothing else is wrong with the file: must be Ok
                if !c.nofinal {
                    l.violation(
                        "c09:parse-fails-on-well-formed-lines",
                        format!("file of well-formed lines (lengths {:?}, longest dropped as corrupt if > {MAX}) fails to parse", c.lens),
                        json!({"case": c.json(), "schedule": sched}),
                    );
                }
            }
        }
    }
}

fn main() {
    run_check("C09", |ctx| {
        let thorough = ctx.tier == Tier::Thorough;
        let mut def = CheckDef::new(
            "C09",
            "exploration",
            "scaled build (INITIAL 16 / MAX 256): MODULE line + every single PUBLIC line length 17..=700 [thorough 1200], all pairs / triples / quadruples over threshold menus (16..MAX*2.5, every doubling +-1), x {LF, CRLF} x {final newline, none}; each under 11 reader schedules (whole, 1-byte trickle, chunk sizes around the thresholds, short first read). Oracle: no panic / hang, read-but-not-yet-consumed bytes <= MAX at every read, callback bytes a prefix of the input, lines <= MAX/2 present in the table, lines > MAX dropped with the parse still Ok. distinct_nontrivial = distinct (line lengths, final newline, number of PUBLICs parsed | err).",
        );
        let mut cases: Vec<Case> = vec![];
        for crlf in [false, true] {
            for nofinal in [false, true] {
                for l1 in 17..=(if thorough { 1200 } else { 700 }) {
                    cases.push(Case { lens: vec![l1], nofinal, crlf });
                }
                let l2: &[usize] = &[1, 2, 17, 18, 31, 32, 33, 63, 64, 65, 127, 128, 129, 200, 240, 255, 256, 257, 258, 300, 511, 512, 513, 640];
                for &a in l2 {
                    for &b in l2 {
                        cases.push(Case { lens: vec![a, b], nofinal, crlf });
                    }
                }
                // every first-line length x a menu of second lines (the second line sees every buffer phase)
                for a in 17..=(if thorough { 600 } else { 300 }) {
                    for &b in &[1usize, 17, 64, 128, 129, 200, 256, 257, 300] {
                        cases.push(Case { lens: vec![a, b], nofinal, crlf });
                    }
                }
                let l3: &[usize] = if thorough { &[1, 17, 33, 64, 127, 128, 129, 200, 255, 256, 257, 300, 513] } else { &[1, 17, 64, 128, 129, 255, 257, 300, 513] };
                for &a in l3 {
                    for &b in l3 {
                        for &d in l3 {
                            cases.push(Case { lens: vec![a, b, d], nofinal, crlf });
                        }
                    }
                }
                let l4: &[usize] = if thorough { &[2, 17, 100, 128, 129, 256, 257, 400] } else { &[17, 128, 129, 257, 400] };
                for &a in l4 {
                    for &b in l4 {
                        for &d in l4 {
                            for &e in l4 {
                                cases.push(Case { lens: vec![a, b, d, e], nofinal, crlf });
                            }
                        }
                    }
                }
            }
        }
        let cs = Arc::new(cases);
        let (c1, c2) = (cs.clone(), cs.clone());
        def.spaces.push(Space::new("scaled-lines", cs.len() as u64, move |i, l| check_case(&c1[i as usize], l), move |i| c2[i as usize].json()).wall(30_000));
        def.finish = Some(Box::new(|total, extra| {
            extra.insert("all_violations".into(), json!(total.violations.iter().map(|v| json!({"signature": v.sig, "what": v.what, "cases": v.count, "detail": v.detail, "index": v.idx})).collect::<Vec<_>>()));
        }));
        def
    })
}
