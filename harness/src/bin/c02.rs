//! C02 — parsed streams reproduce exactly what the dump encodes, in either byte order.
//!
//! Every case is a `DumpModel` (vh::dumpgen). It is serialised four times — {LE, BE} x
//! {MemoryList, Memory64List} — through minidump-synth, read back with the real
//! `Minidump::read` / `get_stream`, and
//!  * compared field by field, in file order, with the model (the last stream of a type is the
//!    one expected to be served);
//!  * every region is looked up by address (`memory_at_address`, `get_memory_at_address::<u8>`);
//!  * `debug_identifier`, `code_identifier`, `debug_file`, `version` are compared with an
//!    independent re-implementation of the documented derivations (`ref_*` below);
//!  * a structural dump of everything observed is compared across the four parses.
use minidump::system_info::{Cpu, Os};
use minidump::*;
use std::fmt::Debug;
use test_assembler::Endian;
use vh::dumpgen::*;
use vh::*;

// ---------------------------------------------------------------------------------------------
// independent reference derivations (written from the documentation, not from the parser)

#[derive(Clone, Copy, Debug, PartialEq, Eq)]
enum ROs {
    Windows,
    Mac,
    Ios,
    Linux,
    Solaris,
    Android,
    Ps3,
    NaCl,
    Unknown,
    /// platform ids whose mapping the documentation leaves open (Win32s, WinCE, generic Unix)
    Open,
}
fn ref_os(id: u32) -> ROs {
    match id {
        2 | 3 => ROs::Windows,
        0x8101 => ROs::Mac,
        0x8102 => ROs::Ios,
        0x8201 => ROs::Linux,
        0x8202 => ROs::Solaris,
        0x8203 => ROs::Android,
        0x8204 => ROs::Ps3,
        0x8205 => ROs::NaCl,
        1 | 4 | 0x8000 => ROs::Open,
        _ => ROs::Unknown,
    }
}
fn os_matches(r: ROs, os: Os, id: u32) -> bool {
    match (r, os) {
        (ROs::Windows, Os::Windows) | (ROs::Mac, Os::MacOs) | (ROs::Ios, Os::Ios) | (ROs::Linux, Os::Linux) | (ROs::Solaris, Os::Solaris) | (ROs::Android, Os::Android) | (ROs::Ps3, Os::Ps3) | (ROs::NaCl, Os::NaCl) => true,
        (ROs::Unknown, Os::Unknown(x)) => x == id,
        (ROs::Open, _) => true,
        _ => false,
    }
}
fn cpu_matches(arch: u16, cpu: Cpu) -> bool {
    match (arch, cpu) {
        (0, Cpu::X86) | (10, Cpu::X86) | (9, Cpu::X86_64) | (3, Cpu::Ppc) | (0x8002, Cpu::Ppc64) | (0x8001, Cpu::Sparc) | (5, Cpu::Arm) | (12, Cpu::Arm64) | (0x8003, Cpu::Arm64) | (1, Cpu::Mips) | (0x8004, Cpu::Mips64) => true,
        (0 | 10 | 9 | 3 | 0x8002 | 0x8001 | 5 | 12 | 0x8003 | 1 | 0x8004, _) => false,
        (a, Cpu::Unknown(x)) => a == x,
        _ => false,
    }
}
fn hex(b: &[u8], upper: bool) -> String {
    b.iter().map(|x| if upper { format!("{x:02X}") } else { format!("{x:02x}") }).collect()
}
fn guid_upper(g: &GuidM) -> String {
    format!("{:08X}{:04X}{:04X}{}", g.0, g.1, g.2, hex(&g.3, true))
}
/// Breakpad form of the debug id: GUID fields upper-hex, then the age lower-hex.
fn ref_debug_id(cv: &Cv, be: bool) -> Option<String> {
    match cv {
        // an all-zero GUID identifies nothing ("empty or trivial")
        Cv::Pdb70 { guid, age, .. } => (*guid != (0, 0, 0, [0; 8])).then(|| format!("{}{:x}", guid_upper(guid), age)),
        Cv::Pdb20 { signature, age, .. } => Some(format!("{signature:08X}{age:x}")),
        Cv::Elf { id } => {
            if id.iter().all(|b| *b == 0) {
                return None;
            }
            // "treat build_id as if the first 16 bytes were a GUID", zero padded; a GUID in a
            // (little-endian) minidump is u32, u16, u16 little-endian followed by 8 bytes
            let mut p = [0u8; 16];
            for (i, b) in id.iter().take(16).enumerate() {
                p[i] = *b;
            }
            // (known finding F18: in a big-endian dump the same bytes are read as a big-endian GUID, so the id
            // differs from the little-endian one; each byte order is still held to ITS documented reading, so
            // that the LE/BE difference — reported separately, once — does not hide any other error here)
            let g: GuidM = if be {
                (u32::from_be_bytes([p[0], p[1], p[2], p[3]]), u16::from_be_bytes([p[4], p[5]]), u16::from_be_bytes([p[6], p[7]]), [p[8], p[9], p[10], p[11], p[12], p[13], p[14], p[15]])
            } else {
                (u32::from_le_bytes([p[0], p[1], p[2], p[3]]), u16::from_le_bytes([p[4], p[5]]), u16::from_le_bytes([p[6], p[7]]), [p[8], p[9], p[10], p[11], p[12], p[13], p[14], p[15]])
            };
            Some(format!("{}0", guid_upper(&g)))
        }
        _ => None,
    }
}
/// Code id, in the normalised (lower-case hex) form `debugid::CodeId` documents.
fn ref_code_id(m: &ModuleM, os: ROs) -> Option<String> {
    let ts_size = format!("{:08X}{:x}", m.timestamp, m.size).to_lowercase();
    match &m.cv {
        Cv::Pdb70 { guid, .. } if matches!(os, ROs::Mac | ROs::Ios) => Some(guid_upper(guid).to_lowercase()),
        Cv::Pdb70 { .. } | Cv::Pdb20 { .. } => Some(ts_size),
        Cv::Elf { id } => (!id.iter().all(|b| *b == 0)).then(|| hex(id, false)),
        Cv::None if os == ROs::Windows => Some(ts_size),
        _ => None,
    }
}
fn ref_debug_file(m: &ModuleM) -> Option<String> {
    match &m.cv {
        Cv::Pdb70 { file, .. } | Cv::Pdb20 { file, .. } => Some(String::from_utf8_lossy(file.split(|b| *b == 0).next().unwrap_or(&[])).into_owned()),
        Cv::Elf { .. } => Some(m.name.clone()),
        _ => None,
    }
}
fn ref_version(m: &ModuleM, os: ROs) -> Option<String> {
    let v = &m.version;
    if v[0] != VS_SIGNATURE || v[1] != VS_STRUCVERSION {
        return None;
    }
    Some(if matches!(os, ROs::Windows | ROs::Mac | ROs::Ios) {
        format!("{}.{}.{}.{}", v[2] >> 16, v[2] & 0xffff, v[3] >> 16, v[3] & 0xffff)
    } else {
        format!("{}.{}.{}.{}", v[2], v[3], v[4], v[5])
    })
}

// ---------------------------------------------------------------------------------------------
// comparison of one parse with the model

type Obs = Vec<(String, String)>;

struct V<'a> {
    l: &'a mut Local,
    tag: &'static str,
    obs: Obs,
}
impl V<'_> {
    fn bad(&mut self, point: &str, what: String) {
        self.l.violation(format!("c02:{point}"), format!("{what} [{}]", self.tag), json!({"variant": self.tag}));
    }
    fn eq<T: PartialEq + Debug>(&mut self, point: &str, got: T, want: T) {
        if got != want {
            self.bad(point, format!("{point}: parsed {got:?}, model {want:?}"));
        }
    }
    fn ob(&mut self, path: String, val: String) {
        self.obs.push((path, val));
    }
    /// presence of a stream; returns the parsed stream when both sides have it
    fn present<T>(&mut self, kind: &str, want: bool, got: Result<T, Error>) -> Option<T> {
        self.ob(format!("{kind}.present"), format!("{}", got.is_ok()));
        match (want, got) {
            (true, Ok(s)) => Some(s),
            (false, Err(Error::StreamNotFound)) => None,
            (false, Err(e)) => {
                self.bad(&format!("absent-error:{kind}"), format!("stream {kind} is not in the dump, yet get_stream fails with {e:?} instead of StreamNotFound"));
                None
            }
            (false, Ok(_)) => {
                self.bad(&format!("phantom:{kind}"), format!("stream {kind} is not in the model but was served"));
                None
            }
            (true, Err(e)) => {
                self.bad(&format!("stream-error:{kind}"), format!("stream {kind} of a well-formed dump does not parse: {e:?}"));
                None
            }
        }
    }
}

fn disjoint(mut r: Vec<(u64, u64)>) -> bool {
    // (first, last) inclusive ranges
    r.sort();
    r.windows(2).all(|w| w[0].1 < w[1].0)
}
fn incl(base: u64, size: u64) -> Option<(u64, u64)> {
    if size == 0 {
        return None;
    }
    base.checked_add(size).map(|end| (base, end - 1))
}
fn sample_offsets(len: usize) -> Vec<usize> {
    if len <= 4096 {
        (0..len).collect()
    } else {
        let mut v: Vec<usize> = (0..64).chain(len - 64..len).chain((64..len - 64).step_by(251)).collect();
        v.sort();
        v
    }
}

/// Which entry of the part-flag menu the low byte of `context_flags` is (evidence only).
fn low_flags_class(c: &ContextM) -> &'static str {
    let parts = c.kind.part_flags();
    let all = parts.iter().fold(0u8, |a, b| a | b);
    match c.low_flags {
        0 => "none (CPU bit alone)",
        0xff => "every bit below the CPU mask",
        0x40 if matches!(c.kind, CpuKind::X86 | CpuKind::Amd64) => "xstate alone (0x40)",
        x if parts.contains(&x) => "one documented part",
        x if x == all => "all documented parts",
        x if x == c.kind.default_low_flags() => "writer default",
        x if x & 0x40 != 0 && matches!(c.kind, CpuKind::X86 | CpuKind::Amd64) => "other combination with xstate (0x40)",
        _ => "other combination",
    }
}

fn check_context(v: &mut V, point: &str, path: &str, cm: &Option<ContextM>, si_arch: Option<u16>, got: Option<std::borrow::Cow<MinidumpContext>>) {
    match cm {
        None => {
            v.ob(format!("{path}.context"), format!("{}", got.is_some()));
            if got.is_some() {
                v.bad(&format!("{point}.context-phantom"), format!("{path}: a context was read although the record has none"));
            }
        }
        Some(c) => {
            if si_arch.and_then(CpuKind::from_arch) != Some(c.kind) {
                v.ob(format!("{path}.context"), format!("foreign:{}", got.is_some()));
                return; // context of another CPU than the system info announces: not defined
            }
            match got {
                None => v.bad(&format!("{point}.context-unreadable:{}", c.kind.name()), format!("{path}: context does not parse (cpu {})", c.kind.name())),
                Some(g) => {
                    let (k, le) = raw_context_le(&g.raw);
                    v.l.outcome(&format!("context read: {}", c.kind.name()));
                    if !c.via_synth {
                        v.l.outcome(&format!("context read with part flags: {}", low_flags_class(c)));
                    }
                    v.ob(format!("{path}.context"), format!("{k:?}:{:016x}:ip={:x}:sp={:x}", hash_of(&le), g.get_instruction_pointer(), g.get_stack_pointer()));
                    if k != c.kind {
                        v.bad(&format!("{point}.context-kind"), format!("{path}: context layout {k:?}, model {:?}", c.kind));
                    } else if le != c.bytes(Endian::Little) {
                        let want = c.bytes(Endian::Little);
                        let at = le.iter().zip(&want).position(|(a, b)| a != b);
                        v.bad(&format!("{point}.context-bytes:{}", c.kind.name()), format!("{path}: context fields differ from the model, first at byte {at:?} of the little-endian image"));
                    }
                    v.eq(&format!("{point}.context-ip:{}", c.kind.name()), g.get_instruction_pointer(), c.ip);
                    v.eq(&format!("{point}.context-sp:{}", c.kind.name()), g.get_stack_pointer(), c.sp);
                    if !matches!(g.valid, MinidumpContextValidity::All) {
                        v.bad(&format!("{point}.context-validity"), format!("{path}: a context read from a dump is not fully valid"));
                    }
                }
            }
        }
    }
}

fn guid_of(g: &minidump::format::GUID) -> GuidM {
    (g.data1, g.data2, g.data3, g.data4)
}

/// Parse `bytes` and compare with `m`. Returns the structural dump (None if the header failed).
fn verify(m: &DumpModel, bytes: &[u8], be: bool, mem64: bool, tag: &'static str, l: &mut Local) -> Option<Obs> {
    let mut v = V { l, tag, obs: vec![] };
    let d = match Minidump::read(bytes) {
        Ok(d) => d,
        Err(e) => {
            v.bad("read:error", format!("Minidump::read fails on a well-formed dump: {e:?}"));
            return None;
        }
    };
    v.eq("header.endian", d.endian == scroll::BE, be);
    v.eq("header.stream_count", d.header.stream_count as usize, m.streams.len());
    let sim = m.served_system_info();
    let os = sim.map(|s| ref_os(s.platform_id)).unwrap_or(ROs::Unknown);
    let si_arch = sim.map(|s| s.arch);

    // ---- system info
    let si = v.present("system_info", sim.is_some(), d.get_stream::<MinidumpSystemInfo>());
    if let (Some(s), Some(sm)) = (&si, sim) {
        let r = &s.raw;
        v.eq("system_info.processor_architecture", r.processor_architecture, sm.arch);
        v.eq("system_info.processor_level", r.processor_level, sm.level);
        v.eq("system_info.processor_revision", r.processor_revision, sm.revision);
        v.eq("system_info.number_of_processors", r.number_of_processors, sm.nproc);
        v.eq("system_info.product_type", r.product_type, sm.product_type);
        v.eq("system_info.major_version", r.major_version, sm.major);
        v.eq("system_info.minor_version", r.minor_version, sm.minor);
        v.eq("system_info.build_number", r.build_number, sm.build);
        v.eq("system_info.platform_id", r.platform_id, sm.platform_id);
        v.eq("system_info.suite_mask", r.suite_mask, sm.suite_mask);
        v.eq("system_info.reserved2", r.reserved2, sm.reserved2);
        v.eq("system_info.csd_version", s.csd_version().map(|c| c.into_owned()), sm.csd.clone());
        if !os_matches(ref_os(sm.platform_id), s.os, sm.platform_id) {
            v.bad("system_info.os", format!("platform id {:#x} mapped to {:?}", sm.platform_id, s.os));
        }
        if !cpu_matches(sm.arch, s.cpu) {
            v.bad("system_info.cpu", format!("processor architecture {:#x} mapped to {:?}", sm.arch, s.cpu));
        }
        v.ob("system_info".into(), format!("{:?} {:?} {:?} {:?} {:?}", s.os, s.cpu, s.csd_version(), s.cpu_info(), (r.processor_level, r.processor_revision, r.number_of_processors, r.product_type, r.major_version, r.minor_version, r.build_number, r.suite_mask)));
    }

    // ---- misc info
    let mm = match m.served("misc") {
        Some(StreamM::Misc(x)) => Some(x),
        _ => None,
    };
    let misc = v.present("misc", mm.is_some(), d.get_stream::<MinidumpMiscInfo>());
    if let (Some(p), Some(mm)) = (&misc, mm) {
        let r = &p.raw;
        let ver = match r {
            RawMiscInfo::MiscInfo(_) => 1,
            RawMiscInfo::MiscInfo2(_) => 2,
            RawMiscInfo::MiscInfo3(_) => 3,
            RawMiscInfo::MiscInfo4(_) => 4,
            RawMiscInfo::MiscInfo5(_) => 5,
        };
        v.l.outcome(&format!("misc info revision {ver}"));
        v.eq("misc.revision", ver, mm.version());
        v.eq("misc.process_id", r.process_id().copied(), mm.process_id);
        v.eq("misc.process_times", r.process_create_time().map(|a| [*a, *r.process_user_time().unwrap_or(&0), *r.process_kernel_time().unwrap_or(&0)]), mm.times);
        v.eq(
            "misc.power_info",
            r.processor_max_mhz().map(|a| [*a, *r.processor_current_mhz().unwrap_or(&0), *r.processor_mhz_limit().unwrap_or(&0), *r.processor_max_idle_state().unwrap_or(&0), *r.processor_current_idle_state().unwrap_or(&0)]),
            mm.power,
        );
        v.eq("misc.process_integrity_level", r.process_integrity_level().copied(), mm.integrity);
        v.eq("misc.process_execute_flags", r.process_execute_flags().copied(), mm.execute_flags);
        v.eq("misc.protected_process", r.protected_process().copied(), mm.protected);
        let st = |s: &minidump::format::SYSTEMTIME| [s.year, s.month, s.day_of_week, s.day, s.hour, s.minute, s.second, s.milliseconds];
        let tz = r.time_zone().map(|t| TzM {
            id: r.time_zone_id().copied().unwrap_or(0),
            bias: t.bias,
            std_name: t.standard_name,
            std_date: st(&t.standard_date),
            std_bias: t.standard_bias,
            dl_name: t.daylight_name,
            dl_date: st(&t.daylight_date),
            dl_bias: t.daylight_bias,
        });
        v.eq("misc.time_zone", tz.clone(), mm.tz.clone());
        let z = |a: &[u16], n: usize| {
            let mut x = a.to_vec();
            x.resize(n, 0);
            x
        };
        let bs = r.build_string().map(|a| (a.to_vec(), r.dbg_bld_str().map(|b| b.to_vec()).unwrap_or_default()));
        v.eq("misc.build_strings", bs.clone(), mm.build.as_ref().map(|(a, b)| (z(a, 260), z(b, 40))));
        match (&mm.misc5, r.xstate_data()) {
            (Some(x), Some(p)) => {
                v.eq("misc.xstate.size_of_info", p.size_of_info, 528);
                v.eq("misc.xstate.context_size", p.context_size, x.context_size);
                v.eq("misc.xstate.enabled_features", p.enabled_features, x.enabled_features);
                let got: Vec<(u32, u32)> = p.features.iter().map(|f| (f.offset, f.size)).collect();
                v.eq("misc.xstate.features", got, (0..64).map(|i| x.feature(i)).collect());
                v.eq("misc.process_cookie", r.process_cookie().copied(), x.cookie);
            }
            (None, None) => {}
            (a, b) => v.bad("misc.xstate-presence", format!("xstate data: model {}, parsed {}", a.is_some(), b.is_some())),
        }
        v.ob("misc".into(), format!("{ver} {:?} {:?} {:?} {:?} {:?} {:?} {:016x} {:016x} {:?}", r.flags1(), r.process_id(), r.process_create_time(), r.processor_max_mhz(), r.process_integrity_level(), r.protected_process(), hash_of(&tz), hash_of(&bs), r.process_cookie()));
    }

    // ---- memory
    let rm = m.served_regions();
    let mem = d.get_memory();
    v.ob("memory.present".into(), format!("{}", mem.is_some()));
    let mem_disjoint = rm.map(|r| disjoint(r.iter().filter_map(|x| incl(x.base, x.bytes.len() as u64)).collect())).unwrap_or(true);
    match (rm, &mem) {
        (None, None) => {}
        (None, Some(_)) => v.bad("phantom:memory", "a memory list was served although the model has none".into()),
        (Some(_), None) => {
            let e = if mem64 { d.get_stream::<MinidumpMemory64List>().err() } else { d.get_stream::<MinidumpMemoryList>().err() };
            v.bad("stream-error:memory", format!("the memory list of a well-formed dump does not parse: {e:?}"));
        }
        (Some(regions), Some(ml)) => {
            v.eq("memory.list-kind-64", matches!(ml, UnifiedMemoryList::Memory64(_)), mem64);
            // a MemoryList drops descriptors without data (documented), a Memory64List keeps them
            let want: Vec<&RegionM> = regions.iter().filter(|r| !r.bytes.is_empty()).collect();
            let got: Vec<UnifiedMemory> = ml.iter().filter(|r| r.size() != 0).collect();
            v.eq("memory.count", got.len(), want.len());
            if got.len() == want.len() {
                for (i, (g, w)) in got.iter().zip(&want).enumerate() {
                    v.eq("memory.base_address", g.base_address(), w.base);
                    v.eq("memory.size", g.size(), w.bytes.len() as u64);
                    if g.bytes() != &w.bytes[..] {
                        v.bad("memory.bytes", format!("region {i} at {:#x}: bytes differ from the model", w.base));
                    }
                    // the region itself answers for each of its own addresses - also the one that ends at 2^64 - and for
                    // none outside (first byte, last byte, the byte before / after)
                    let len = w.bytes.len() as u64;
                    for (k, a) in [(0u64, w.base), (len - 1, w.base.wrapping_add(len - 1))] {
                        if g.get_memory_at_address::<u8>(a) != Some(w.bytes[k as usize]) {
                            v.bad("memory.region-own-byte", format!("region {:#x}+{len:#x}: get_memory_at_address::<u8>({a:#x}) = {:?}, model byte {:#x}", w.base, g.get_memory_at_address::<u8>(a), w.bytes[k as usize]));
                        }
                    }
                    for a in [w.base.checked_sub(1), w.base.checked_add(len)].into_iter().flatten() {
                        if g.get_memory_at_address::<u8>(a).is_some() {
                            v.bad("memory.region-own-byte-outside", format!("region {:#x}+{len:#x} answers for {a:#x}", w.base));
                        }
                    }
                    v.ob(format!("memory[{i}]"), format!("{:x}+{:x}:{:016x}", g.base_address(), g.size(), hash_of(&g.bytes())));
                }
            }
            if mem_disjoint {
                for w in &want {
                    let len = w.bytes.len();
                    if incl(w.base, len as u64).is_none() {
                        v.l.outcome("region reaching 2^64: listed, lookup not asserted");
                        continue;
                    }
                    let offs = sample_offsets(len);
                    v.l.outcome(if offs.len() == len { "region: every address looked up" } else { "region: boundaries + stride looked up" });
                    v.l.count("address_lookups", offs.len() as u64);
                    for k in offs {
                        let a = w.base + k as u64;
                        match ml.memory_at_address(a) {
                            Some(r) if r.base_address() == w.base && r.size() == len as u64 => {
                                if r.get_memory_at_address::<u8>(a) != Some(w.bytes[k]) {
                                    v.bad("memory.byte-at-address", format!("get_memory_at_address::<u8>({a:#x}) = {:?}, model byte {:#x} (region {:#x}+{len:#x})", r.get_memory_at_address::<u8>(a), w.bytes[k], w.base));
                                    break;
                                }
                            }
                            other => {
                                v.bad("memory.region-at-address", format!("memory_at_address({a:#x}) = {:?}, expected the region {:#x}+{len:#x}", other.map(|r| (r.base_address(), r.size())), w.base));
                                break;
                            }
                        }
                    }
                    for a in [w.base.checked_sub(1), w.base.checked_add(len as u64)].into_iter().flatten() {
                        if ml.memory_at_address(a).map(|r| r.base_address()) == Some(w.base) {
                            v.bad("memory.region-too-wide", format!("memory_at_address({a:#x}) returns the region {:#x}+{len:#x}", w.base));
                        }
                    }
                }
            }
        }
    }
    let mem_or_default = mem.unwrap_or_default();

    // ---- threads
    let tm = match m.served("threads") {
        Some(StreamM::Threads { items, .. }) => Some(items),
        _ => None,
    };
    let tl = v.present("threads", tm.is_some(), d.get_stream::<MinidumpThreadList>());
    if let (Some(tl), Some(tm)) = (&tl, tm) {
        v.eq("thread.count", tl.threads.len(), tm.len());
        if tl.threads.len() == tm.len() {
            for (i, (g, w)) in tl.threads.iter().zip(tm).enumerate() {
                v.eq("thread.thread_id", g.raw.thread_id, w.id);
                v.eq("thread.suspend_count", g.raw.suspend_count, w.suspend_count);
                v.eq("thread.priority_class", g.raw.priority_class, w.priority_class);
                v.eq("thread.priority", g.raw.priority, w.priority);
                v.eq("thread.teb", g.raw.teb, w.teb);
                v.eq("thread.stack.start_of_memory_range", g.raw.stack.start_of_memory_range, w.stack_base);
                v.eq("thread.stack.data_size", g.raw.stack.memory.data_size as usize, w.stack.len());
                v.eq("thread.context.data_size", g.raw.thread_context.data_size as usize, w.context.as_ref().map(|c| c.bytes(Endian::Little).len()).unwrap_or(0));
                let st = g.stack_memory(&mem_or_default);
                v.ob(format!("thread[{i}]"), format!("{:x} {} {} {} {:x} stack={:?}", g.raw.thread_id, g.raw.suspend_count, g.raw.priority_class, g.raw.priority, g.raw.teb, st.map(|s| (s.base_address(), s.size(), hash_of(&s.bytes())))));
                if !w.stack.is_empty() {
                    v.l.outcome("thread stack: own descriptor");
                    match st {
                        Some(s) => {
                            v.eq("thread.stack.base", s.base_address(), w.stack_base);
                            if s.bytes() != &w.stack[..] {
                                v.bad("thread.stack.bytes", format!("thread {i}: stack bytes differ from the model"));
                            }
                        }
                        None => v.bad("thread.stack.missing", format!("thread {i}: stack_memory() is None")),
                    }
                } else if mem_disjoint {
                    // null descriptor: documented fallback through the memory list
                    let hit = rm.and_then(|r| r.iter().find(|x| incl(x.base, x.bytes.len() as u64).map_or(false, |(a, b)| a <= w.stack_base && w.stack_base <= b)));
                    v.l.outcome(if hit.is_some() { "thread stack: fallback to the memory list" } else { "thread stack: none" });
                    match (hit, st) {
                        (Some(h), Some(s)) => {
                            v.eq("thread.stack-fallback.base", s.base_address(), h.base);
                            if s.bytes() != &h.bytes[..] {
                                v.bad("thread.stack-fallback.bytes", format!("thread {i}: fallback stack bytes differ from the region"));
                            }
                        }
                        (None, None) => {}
                        (h, s) => v.bad("thread.stack-fallback.presence", format!("thread {i}: memory-list fallback for {:#x}: model {}, parsed {}", w.stack_base, h.is_some(), s.is_some())),
                    }
                }
                if let Some(s) = &si {
                    check_context(&mut v, "thread", &format!("thread[{i}]"), &w.context, si_arch, g.context(s, misc.as_ref()));
                }
                if tm.iter().filter(|t| t.id == w.id).count() == 1 {
                    if tl.get_thread(w.id).map(|t| t.raw.teb) != Some(w.teb) {
                        v.bad("thread.get_thread", format!("get_thread({:#x}) does not return thread {i}", w.id));
                    }
                }
            }
        }
    }

    // ---- thread names
    let nm = match m.served("thread_names") {
        Some(StreamM::ThreadNames { items, .. }) => Some(items),
        _ => None,
    };
    if let (Some(p), Some(nm)) = (v.present("thread_names", nm.is_some(), d.get_stream::<MinidumpThreadNames>()), nm) {
        for (i, (id, name)) in nm.iter().enumerate() {
            let got = p.get_name(*id).map(|c| c.into_owned());
            v.ob(format!("thread_name[{i}]"), format!("{got:?}"));
            if nm.iter().filter(|x| x.0 == *id).count() == 1 {
                v.eq("thread_name.name", got, Some(name.clone()));
            }
        }
    }

    // ---- modules
    let mo = match m.served("modules") {
        Some(StreamM::Modules { items, .. }) => Some(items),
        _ => None,
    };
    if let (Some(p), Some(mo)) = (v.present("modules", mo.is_some(), d.get_stream::<MinidumpModuleList>()), mo) {
        let got: Vec<&MinidumpModule> = p.iter().collect();
        v.eq("module.count", got.len(), mo.len());
        let dis = disjoint(mo.iter().filter_map(|x| incl(x.base, x.size as u64)).collect());
        if got.len() == mo.len() {
            for (i, (g, w)) in got.iter().zip(mo).enumerate() {
                let cvk = w.cv.kind();
                v.eq("module.base_of_image", g.raw.base_of_image, w.base);
                v.eq("module.size_of_image", g.raw.size_of_image, w.size);
                v.eq("module.checksum", g.raw.checksum, w.checksum);
                v.eq("module.time_date_stamp", g.raw.time_date_stamp, w.timestamp);
                let vi = &g.raw.version_info;
                v.eq("module.version_info", [vi.signature, vi.struct_version, vi.file_version_hi, vi.file_version_lo, vi.product_version_hi, vi.product_version_lo, vi.file_flags_mask, vi.file_flags, vi.file_os, vi.file_type, vi.file_subtype, vi.file_date_hi, vi.file_date_lo], w.version);
                v.eq("module.cv_record.data_size", g.raw.cv_record.data_size as usize, w.cv.len());
                v.eq("module.misc_record.data_size", g.raw.misc_record.data_size, 0);
                v.eq("module.base_address()", g.base_address(), w.base);
                v.eq("module.size()", g.size(), w.size as u64);
                v.eq("module.code_file", g.code_file().into_owned(), w.name.clone());
                let cv_seen = match &g.codeview_info {
                    None => "none",
                    Some(CodeView::Pdb70(_)) => "PDB70",
                    Some(CodeView::Pdb20(_)) => "PDB20",
                    Some(CodeView::Elf(_)) => "ELF",
                    Some(CodeView::Unknown(_)) => "unknown",
                };
                v.eq("module.codeview-kind", cv_seen, cvk);
                match (&g.codeview_info, &w.cv) {
                    (Some(CodeView::Pdb70(r)), Cv::Pdb70 { guid, age, file }) => {
                        v.eq("module.cv.pdb70.signature", guid_of(&r.signature), *guid);
                        v.eq("module.cv.pdb70.age", r.age, *age);
                        v.eq("module.cv.pdb70.pdb_file_name", r.pdb_file_name.clone(), file.clone());
                    }
                    (Some(CodeView::Pdb20(r)), Cv::Pdb20 { offset, signature, age, file }) => {
                        v.eq("module.cv.pdb20.fields", (r.cv_offset, r.signature, r.age), (*offset, *signature, *age));
                        v.eq("module.cv.pdb20.pdb_file_name", r.pdb_file_name.clone(), file.clone());
                    }
                    (Some(CodeView::Elf(r)), Cv::Elf { id }) => v.eq("module.cv.elf.build_id", r.build_id.clone(), id.clone()),
                    (Some(CodeView::Unknown(r)), Cv::Unknown { signature, data }) => {
                        v.eq("module.cv.unknown.bytes", r.get(4..).map(|x| x.to_vec()), Some(data.clone()));
                        let s = r.get(..4).map(|b| if be { u32::from_be_bytes([b[0], b[1], b[2], b[3]]) } else { u32::from_le_bytes([b[0], b[1], b[2], b[3]]) });
                        v.eq("module.cv.unknown.signature", s, Some(*signature));
                    }
                    _ => {}
                }
                // derived identifiers against the independent derivations
                let di = g.debug_identifier().map(|x| x.breakpad().to_string());
                let ci = g.code_identifier().map(|c| c.to_string());
                let df = g.debug_file().map(|c| c.into_owned());
                let ve = g.version().map(|c| c.into_owned());
                v.l.outcome(&format!("debug_identifier cv={cvk}: {}", if di.is_some() { "Some" } else { "None" }));
                v.l.outcome(&format!("code_identifier: {}", if ci.is_some() { "Some" } else { "None" }));
                v.l.outcome(&format!("version: {}", if ve.is_some() { "Some" } else { "None" }));
                // F18: for an ELF build id in a big-endian dump the mismatch is reported once, as an
                // LE/BE difference (below), not a second time as a derivation mismatch
                v.eq(&format!("derivation:module.debug_identifier:cv={cvk}"), di.clone(), ref_debug_id(&w.cv, be));
                if os != ROs::Open {
                    v.eq(&format!("derivation:module.code_identifier:cv={cvk}"), ci.clone(), ref_code_id(w, os));
                    v.eq("derivation:module.version", ve.clone(), ref_version(w, os));
                }
                v.eq(&format!("derivation:module.debug_file:cv={cvk}"), df.clone(), ref_debug_file(w));
                v.ob(format!("module[{i}].debug_identifier:cv={cvk}"), format!("{di:?}"));
                v.ob(format!("module[{i}].code_identifier:cv={cvk}"), format!("{ci:?}"));
                v.ob(format!("module[{i}].debug_file:cv={cvk}"), format!("{df:?}"));
                v.ob(format!("module[{i}].version"), format!("{ve:?}"));
                v.ob(format!("module[{i}].raw"), format!("{:x} {:x} {:x} {:x} {:?} {:?}", g.raw.base_of_image, g.raw.size_of_image, g.raw.checksum, g.raw.time_date_stamp, g.name, (vi.file_flags_mask, vi.file_flags, vi.file_os, vi.file_type, vi.file_subtype, vi.file_date_hi, vi.file_date_lo)));
                if dis {
                    if let Some((a, b)) = incl(w.base, w.size as u64) {
                        for x in [a, b] {
                            if p.module_at_address(x).map(|q| q.raw.base_of_image) != Some(w.base) {
                                v.bad("module.module_at_address", format!("module_at_address({x:#x}) does not return module {i} ({:#x}+{:#x})", w.base, w.size));
                            }
                        }
                        for x in [a.checked_sub(1), b.checked_add(1)].into_iter().flatten() {
                            if p.module_at_address(x).map(|q| q.raw.base_of_image) == Some(w.base) {
                                v.bad("module.range-too-wide", format!("module_at_address({x:#x}) returns module {i} ({:#x}+{:#x})", w.base, w.size));
                            }
                        }
                    }
                }
            }
            if let Some(w) = mo.first() {
                v.eq("module.main_module", p.main_module().map(|q| q.raw.base_of_image), Some(w.base));
            }
        }
    }

    // ---- unloaded modules
    let um = match m.served("unloaded") {
        Some(StreamM::Unloaded { items, .. }) => Some(items),
        _ => None,
    };
    if let (Some(p), Some(um)) = (v.present("unloaded", um.is_some(), d.get_stream::<MinidumpUnloadedModuleList>()), um) {
        let got: Vec<&MinidumpUnloadedModule> = p.iter().collect();
        v.eq("unloaded.count", got.len(), um.len());
        if got.len() == um.len() {
            for (i, (g, w)) in got.iter().zip(um).enumerate() {
                v.eq("unloaded.base_of_image", g.raw.base_of_image, w.base);
                v.eq("unloaded.size_of_image", g.raw.size_of_image, w.size);
                v.eq("unloaded.checksum", g.raw.checksum, w.checksum);
                v.eq("unloaded.time_date_stamp", g.raw.time_date_stamp, w.timestamp);
                v.eq("unloaded.code_file", g.code_file().into_owned(), w.name.clone());
                let ci = g.code_identifier().map(|c| c.to_string());
                v.eq("derivation:unloaded.code_identifier", ci.clone(), Some(format!("{:08X}{:x}", w.timestamp, w.size).to_lowercase()));
                v.ob(format!("unloaded[{i}]"), format!("{:x} {:x} {:x} {:x} {:?} {ci:?}", g.raw.base_of_image, g.raw.size_of_image, g.raw.checksum, g.raw.time_date_stamp, g.name));
                if !p.modules_at_address(w.base).any(|q| q.raw.base_of_image == w.base && q.name == w.name) {
                    v.bad("unloaded.modules_at_address", format!("modules_at_address({:#x}) does not yield unloaded module {i}", w.base));
                }
            }
        }
    }

    // ---- memory info
    let im = match m.served("memory_info") {
        Some(StreamM::MemoryInfo { items, .. }) => Some(items),
        _ => None,
    };
    if let (Some(p), Some(im)) = (v.present("memory_info", im.is_some(), d.get_stream::<MinidumpMemoryInfoList>()), im) {
        let got: Vec<&MinidumpMemoryInfo> = p.iter().collect();
        v.eq("memory_info.count", got.len(), im.len());
        let dis = disjoint(im.iter().filter_map(|x| incl(x.base, x.size)).collect());
        if got.len() == im.len() {
            for (i, (g, w)) in got.iter().zip(im).enumerate() {
                let r = &g.raw;
                v.eq("memory_info.base_address", r.base_address, w.base);
                v.eq("memory_info.allocation_base", r.allocation_base, w.alloc_base);
                v.eq("memory_info.allocation_protection", r.allocation_protection, w.alloc_protection);
                v.eq("memory_info.region_size", r.region_size, w.size);
                v.eq("memory_info.state", r.state, w.state);
                v.eq("memory_info.protection", r.protection, w.protection);
                v.eq("memory_info.type", r._type, w.ty);
                v.ob(format!("memory_info[{i}]"), format!("{:x} {:x} {:x} {:x} {:?} {:?} {:?} {:?}", r.base_address, r.allocation_base, r.region_size, r.allocation_protection, g.state, g.protection, g.ty, (g.is_readable(), g.is_writable(), g.is_executable())));
                if dis {
                    if let Some((a, b)) = incl(w.base, w.size) {
                        for x in [a, b] {
                            if p.memory_info_at_address(x).map(|q| q.raw.base_address) != Some(w.base) {
                                v.bad("memory_info.at_address", format!("memory_info_at_address({x:#x}) does not return entry {i}"));
                            }
                        }
                    }
                }
            }
        }
    }

    // ---- exception
    let xm = match m.served("exception") {
        Some(StreamM::Exception(x)) => Some(x),
        _ => None,
    };
    if let (Some(p), Some(xm)) = (v.present("exception", xm.is_some(), d.get_stream::<MinidumpException>()), xm) {
        let r = &p.raw.exception_record;
        v.eq("exception.thread_id", p.raw.thread_id, xm.thread_id);
        v.eq("exception.get_crashing_thread_id", p.get_crashing_thread_id(), xm.thread_id);
        v.eq("exception.exception_code", r.exception_code, xm.code);
        v.eq("exception.exception_flags", r.exception_flags, xm.flags);
        v.eq("exception.exception_record", r.exception_record, xm.record);
        v.eq("exception.exception_address", r.exception_address, xm.address);
        v.eq("exception.number_parameters", r.number_parameters, xm.nparams);
        v.eq("exception.exception_information", r.exception_information, xm.info);
        v.ob("exception".into(), format!("{:x} {:x} {:x} {:x} {:x} {} {:?}", p.raw.thread_id, r.exception_code, r.exception_flags, r.exception_record, r.exception_address, r.number_parameters, r.exception_information));
        if let Some(s) = &si {
            check_context(&mut v, "exception", "exception", &xm.context, si_arch, p.context(s, misc.as_ref()));
        }
    }

    // ---- linux maps
    let lm = match m.served("linux_maps") {
        Some(StreamM::LinuxMaps(x)) => Some(x),
        _ => None,
    };
    if let (Some(p), Some(lm)) = (v.present("linux_maps", lm.is_some(), d.get_stream::<MinidumpLinuxMaps>()), lm) {
        let got: Vec<&MinidumpLinuxMapInfo> = p.iter().collect();
        v.eq("linux_maps.count", got.len(), lm.len());
        v.eq("linux_maps.memory_map_count", p.memory_map_count(), lm.len());
        if got.len() == lm.len() {
            for (i, (g, w)) in got.iter().zip(lm).enumerate() {
                let q = &g.map;
                v.eq("linux_maps.address", q.address, (w.start, w.end));
                v.eq("linux_maps.perms", q.perms.as_str().to_string(), w.perms.clone());
                v.eq("linux_maps.offset", q.offset, w.offset);
                v.eq("linux_maps.dev", (q.dev.0 as i64, q.dev.1 as i64), (w.dev.0 as i64, w.dev.1 as i64));
                v.eq("linux_maps.inode", q.inode, w.inode);
                let want = match w.path.as_str() {
                    "" => "Anonymous".to_string(),
                    "[heap]" => "Heap".to_string(),
                    "[stack]" => "Stack".to_string(),
                    "[vdso]" => "Vdso".to_string(),
                    x => format!("Path({x:?})"),
                };
                v.eq("linux_maps.pathname", format!("{:?}", q.pathname), want);
                v.eq("linux_maps.access", (g.is_readable(), g.is_writable(), g.is_executable()), (w.perms.contains('r'), w.perms.contains('w'), w.perms.contains('x')));
                v.ob(format!("linux_maps[{i}]"), format!("{:?} {} {:x} {:?} {} {:?}", q.address, q.perms.as_str(), q.offset, q.dev, q.inode, q.pathname));
            }
        }
    }

    // ---- handles
    let hm = match m.served("handles") {
        Some(StreamM::Handles(x)) => Some(x),
        _ => None,
    };
    if let (Some(p), Some(hm)) = (v.present("handles", hm.is_some(), d.get_stream::<MinidumpHandleDataStream>()), hm) {
        let got: Vec<&MinidumpHandleDescriptor> = p.iter().collect();
        v.eq("handle.count", got.len(), hm.len());
        if got.len() == hm.len() {
            for (i, (g, w)) in got.iter().zip(hm).enumerate() {
                let r = &g.raw;
                v.eq("handle.handle", r.handle().copied(), Some(w.handle));
                v.eq("handle.attributes", r.attributes().copied(), Some(w.attributes));
                v.eq("handle.granted_access", r.granted_access().copied(), Some(w.granted_access));
                v.eq("handle.handle_count", r.handle_count().copied(), Some(w.handle_count));
                v.eq("handle.pointer_count", r.pointer_count().copied(), Some(w.pointer_count));
                v.eq("handle.type_name", g.type_name.clone(), w.type_name.clone());
                v.eq("handle.object_name", g.object_name.clone(), w.object_name.clone());
                v.eq("handle.object_infos", g.object_infos.len(), 0);
                v.ob(format!("handle[{i}]"), format!("{:?} {:?} {:?} {:?} {:?} {:?} {:?}", r.handle(), r.attributes(), r.granted_access(), r.handle_count(), r.pointer_count(), g.type_name, g.object_name));
            }
        }
    }

    // ---- crashpad info
    let cm = match m.served("crashpad") {
        Some(StreamM::Crashpad(x)) => Some(x),
        _ => None,
    };
    if let (Some(p), Some(cm)) = (v.present("crashpad", cm.is_some(), d.get_stream::<MinidumpCrashpadInfo>()), cm) {
        v.eq("crashpad.version", p.raw.version, 1);
        v.eq("crashpad.report_id", guid_of(&p.raw.report_id), cm.report_id);
        v.eq("crashpad.client_id", guid_of(&p.raw.client_id), cm.client_id);
        let as_map = |x: &Vec<(String, String)>| x.iter().cloned().collect::<std::collections::BTreeMap<String, String>>();
        v.eq("crashpad.simple_annotations", p.simple_annotations.clone(), as_map(&cm.simple));
        v.eq("crashpad.module_count", p.module_list.len(), cm.modules.len());
        v.ob("crashpad".into(), format!("{} {} {:?}", p.raw.report_id, p.raw.client_id, p.simple_annotations));
        if p.module_list.len() == cm.modules.len() {
            for (i, (g, w)) in p.module_list.iter().zip(&cm.modules).enumerate() {
                v.eq("crashpad.module.index", g.module_index, w.index as usize);
                v.eq("crashpad.module.version", g.raw.version, 1);
                v.eq("crashpad.module.list_annotations", g.list_annotations.clone(), w.list.clone());
                v.eq("crashpad.module.simple_annotations", g.simple_annotations.clone(), as_map(&w.simple));
                let got: Vec<(String, String)> = g
                    .annotation_objects
                    .iter()
                    .map(|(k, a)| {
                        (
                            k.clone(),
                            match a {
                                MinidumpAnnotation::Invalid => "invalid".to_string(),
                                MinidumpAnnotation::String(s) => format!("string:{s}"),
                                MinidumpAnnotation::UserDefined(r) => format!("user:{:#x}", r.ty),
                                MinidumpAnnotation::Unsupported(r) => format!("unsupported:{:#x}", r.ty),
                                _ => "?".to_string(),
                            },
                        )
                    })
                    .collect();
                let mut want: Vec<(String, String)> = w
                    .objects
                    .iter()
                    .map(|(k, a)| {
                        (
                            k.clone(),
                            match a {
                                AnnM::Invalid => "invalid".to_string(),
                                AnnM::Str(s) => format!("string:{s}"),
                                AnnM::Custom(t, _) if *t >= 0x8000 => format!("user:{t:#x}"),
                                AnnM::Custom(t, _) => format!("unsupported:{t:#x}"),
                            },
                        )
                    })
                    .collect();
                want.sort();
                v.eq("crashpad.module.annotation_objects", got.clone(), want);
                v.ob(format!("crashpad.module[{i}]"), format!("{} {:?} {:?} {got:?}", g.module_index, g.list_annotations, g.simple_annotations));
            }
        }
    }
    Some(v.obs)
}

fn strip_indices(p: &str) -> String {
    let mut out = String::new();
    let mut skip = false;
    for c in p.chars() {
        match c {
            '[' => skip = true,
            ']' => skip = false,
            _ if !skip => out.push(c),
            _ => {}
        }
    }
    out
}

/// Compare two structural dumps of the same model; `what` names the axis (le-be / list-kind).
fn compare_obs(l: &mut Local, axis: &str, names: (&str, &str), a: &Obs, b: &Obs) {
    if a.len() != b.len() || a.iter().zip(b).any(|(x, y)| x.0 != y.0) {
        l.violation(format!("c02:{axis}-differ:shape"), format!("the {} and {} parses of one model expose different sets of items", names.0, names.1), json!({}));
        return;
    }
    for (x, y) in a.iter().zip(b) {
        if x.1 != y.1 {
            l.violation(format!("c02:{axis}-differ:{}", strip_indices(&x.0)), format!("{}: {} parse gives {}, {} parse gives {}", x.0, names.0, x.1, names.1, y.1), json!({"item": x.0, names.0: x.1, names.1: y.1}));
        }
    }
}

/// The whole oracle for one model.
fn check_model(space: &str, m: &DumpModel, l: &mut Local) {
    const VARIANTS: [(bool, bool, &str); 4] = [(false, false, "LE/MemoryList"), (false, true, "LE/Memory64List"), (true, false, "BE/MemoryList"), (true, true, "BE/Memory64List")];
    let mut obs: Vec<Option<Obs>> = vec![];
    for (be, mem64, tag) in VARIANTS {
        let bytes = m.serialize(if be { Endian::Big } else { Endian::Little }, mem64);
        l.eval();
        l.count("dump_bytes", bytes.len() as u64);
        obs.push(verify(m, &bytes, be, mem64, tag, l));
    }
    if obs.iter().all(|o| o.is_some()) {
        l.distinct(&(space, m));
        let o: Vec<&Obs> = obs.iter().map(|o| o.as_ref().unwrap()).collect();
        compare_obs(l, "le-be", ("LE", "BE"), o[0], o[2]);
        compare_obs(l, "le-be", ("LE", "BE"), o[1], o[3]);
        compare_obs(l, "list-kind", ("MemoryList", "Memory64List"), o[0], o[1]);
        compare_obs(l, "list-kind", ("MemoryList", "Memory64List"), o[2], o[3]);
    }
}

// ---------------------------------------------------------------------------------------------
// menus and item builders

use std::sync::Arc;

// the last four start like a byte-order mark in one byte order or the other (U+FEFF, its mirror U+FFFE, and units
// whose bytes spell the UTF-8 mark EF BB BF little- / big-endian): a name is data, nothing in it is a mark
const NAMES: [&str; 10] = ["", "\u{1F600}\u{10FFFF}x\u{e9}\u{4e2d}", "with\0nul.dll", "libfoo.so.6", "caf\u{e9} \u{4e2d}\u{6587}.dll", "C:\\Program Files\\x y.exe", "\u{feff}bom.dll", "\u{fffe}worker", "\u{bbef}\u{bf}pool", "\u{efbb}\u{bf00}pool"];
const TOP: u64 = u64::MAX;
const MID: u64 = 0x1_0000_0000;

fn take<T: Clone>(tier: Tier, q: usize, full: &[T]) -> Vec<T> {
    match tier {
        Tier::Quick => full[..q.min(full.len())].to_vec(),
        Tier::Thorough => full.to_vec(),
    }
}
fn pat32(i: usize, p: usize) -> u32 {
    [0x1234_5678u32.wrapping_add((i as u32).wrapping_mul(0x0101_0101)), 0, u32::MAX, 1, 0x8000_0000][(i + p) % 5]
}
fn pat64(i: usize, p: usize) -> u64 {
    [0x0123_4567_89ab_cdefu64.wrapping_add((i as u64).wrapping_mul(0x0101_0101_0101_0101)), 0, u64::MAX, 1, 0x8000_0000_0000_0000][(i + p) % 5]
}
const GUIDS: [GuidM; 3] = [(0x0a0b_0c0d, 0x0102, 0x0304, [5, 6, 7, 8, 9, 10, 11, 12]), (0, 0, 0, [0; 8]), (u32::MAX, u16::MAX, u16::MAX, [0xff; 8])];
const AGES: [u32; 3] = [0x17, 0, u32::MAX];
fn versions() -> Vec<VersionM> {
    let good = [VS_SIGNATURE, VS_STRUCVERSION, 0x0001_0002, 0x0003_0004, 0x0005_0006, 0x0007_0008, 0x3f, 1, 0x4_0004, 1, 0, 0x11, 0x22];
    let mut bad_sig = good;
    bad_sig[0] = 0;
    let mut bad_ver = good;
    bad_ver[1] = 0x0001_0001;
    let mut max = [u32::MAX; 13];
    max[0] = VS_SIGNATURE;
    max[1] = VS_STRUCVERSION;
    vec![good, bad_sig, [0; 13], bad_ver, max]
}
fn elf_id(len: usize, content: usize) -> Vec<u8> {
    match content {
        0 => (0..len).map(|k| k as u8 + 1).collect(),
        1 => vec![0; len],
        2 => vec![0xff; len],
        _ => {
            let mut v = vec![0; len];
            if let Some(x) = v.last_mut() {
                *x = 0x80;
            }
            v
        }
    }
}
const ELF_LENS: [usize; 8] = [0, 1, 15, 16, 17, 20, 32, 64];
fn cv_menu(tier: Tier) -> Vec<Cv> {
    let files: Vec<&[u8]> = take(tier, 3, &[&b"c:\\x\\foo.pdb\0"[..], &b"a\0trailing\0"[..], &b"nonul.pdb"[..], &b""[..]]);
    let mut v = vec![Cv::None];
    for g in GUIDS {
        for a in AGES {
            for f in &files {
                v.push(Cv::Pdb70 { guid: g, age: a, file: f.to_vec() });
            }
        }
    }
    for s in [0x5566_7788u32, 0, u32::MAX] {
        for a in AGES {
            for f in &files {
                v.push(Cv::Pdb20 { offset: 0x99, signature: s, age: a, file: f.to_vec() });
            }
        }
    }
    for len in ELF_LENS {
        for c in 0..(if len == 0 { 1 } else { 4 }) {
            v.push(Cv::Elf { id: elf_id(len, c) });
        }
    }
    v.push(Cv::Unknown { signature: 0x1234_5678, data: b"junk".to_vec() });
    v.push(Cv::Unknown { signature: 0x3930_424e, data: vec![] }); // 'NB09': a known signature without a reader
    v
}
fn sysinfo(arch: u16, platform: u32) -> StreamM {
    StreamM::SystemInfo(SysInfoM::new(arch, platform))
}
fn mk_context(kind: CpuKind, i: usize, p: usize, sp: u64) -> ContextM {
    if (i + p) % 4 == 3 && matches!(kind, CpuKind::X86 | CpuKind::Amd64 | CpuKind::Arm64) {
        ContextM::synth(kind, 0x40_1000 + i as u64, sp)
    } else {
        // the part flags walk through the CPU's menu (none, each documented part, all, every low bit)
        let menu = kind.low_flags_menu();
        ContextM::new(kind, ((i + p) % 3) as u8, pat64(i, p + 1), sp).with_low_flags(menu[(i + 2 * p + 1) % menu.len()])
    }
}
fn mk_thread(i: usize, p: usize, kind: CpuKind) -> ThreadM {
    let base = 0x7000_0000 + 0x1_0000 * i as u64;
    let len = [32usize, 1, 200][(i + p) % 3];
    ThreadM {
        id: 100 + 3 * i as u32 + p as u32,
        suspend_count: pat32(i, p),
        priority_class: pat32(i, p + 1),
        priority: pat32(i, p + 2),
        teb: pat64(i, p),
        stack_base: base,
        stack: (0..len).map(|k| (k * 5 + i + 1) as u8).collect(),
        context: Some(mk_context(kind, i, p, base)),
    }
}
fn mk_module(i: usize, p: usize, n: usize, cvs: &[Cv]) -> ModuleM {
    let size = [0x1_0000u32, 1, 0xf_ffff, 0x1000][(i + p) % 4];
    ModuleM {
        base: if i + 1 == n && n > 3 { TOP - size as u64 } else { MID + 0x10_0000 * i as u64 },
        size,
        checksum: pat32(i, p + 3),
        timestamp: pat32(i, p),
        name: format!("{}{i}", NAMES[(i + p) % NAMES.len()]),
        version: versions()[(i + p) % 5],
        cv: cvs[(i * 7 + p) % cvs.len()].clone(),
    }
}
fn mk_unloaded(i: usize, p: usize) -> UnloadedM {
    UnloadedM { base: 0x2_0000_0000 + 0x1000 * i as u64, size: [0x1800u32, 1, u32::MAX][(i + p) % 3], checksum: pat32(i, p + 1), timestamp: pat32(i, p), name: format!("{}u{i}", NAMES[(i + p + 1) % NAMES.len()]) }
}
fn mk_region(i: usize, p: usize) -> RegionM {
    let len = [1usize, 17, 256, 4096][(i + p) % 4];
    RegionM { base: 0x9000_0000 + 0x10_0000 * i as u64, bytes: (0..len).map(|k| (k * 7 + i) as u8).collect() }
}
fn mk_meminfo(i: usize, p: usize) -> MemInfoM {
    MemInfoM { base: 0x9000_0000 + 0x10_0000 * i as u64, alloc_base: pat64(i, p), alloc_protection: pat32(i, p), size: [0x1000u64, 1, 0xf_ffff][(i + p) % 3], state: [0x1000u32, 0x2000, 0x10000, u32::MAX][(i + p) % 4], protection: [4u32, 0x20, 0x40, 1, 0, u32::MAX][(i + p) % 6], ty: [0x2_0000u32, 0x4_0000, 0x100_0000, 0][(i + p) % 4] }
}
fn mk_mapline(i: usize, p: usize) -> MapLineM {
    let start = 0x5555_0000_0000 + 0x10_0000 * i as u64;
    MapLineM {
        start,
        end: start + [0x1000u64, 0x2_1000, 1][(i + p) % 3],
        perms: ["r-xp", "rw-p", "---p", "r--s", "rwxp"][(i + p) % 5].to_string(),
        offset: [0u64, 0x1000, 0xffff_f000][(i + p) % 3],
        dev: ([(0u32, 0u32), (8, 1), (0xfd, 0x10)])[(i + p) % 3],
        inode: [0u64, 1321, 4_294_967_296][(i + p) % 3],
        path: ["/usr/lib/libc.so.6", "[heap]", "", "[stack]", "/tmp/with space/x", "[vdso]"][(i + p) % 6].to_string(),
    }
}
fn mk_handle(i: usize, p: usize) -> HandleM {
    HandleM {
        handle: pat64(i, p),
        type_name: [Some("File"), None, Some("")][(i + p) % 3].map(|s| s.to_string()),
        object_name: [None, Some(NAMES[(i + p) % NAMES.len()])][(i + p / 2) % 2].map(|s| format!("{s}{i}")),
        attributes: pat32(i, p),
        granted_access: pat32(i, p + 1),
        handle_count: pat32(i, p + 2),
        pointer_count: pat32(i, p + 3),
    }
}
fn mk_crashpad(nsimple: usize, nmods: usize, p: usize) -> CrashpadM {
    let txt = ["v", "", "caf\u{e9} \u{1F600}", "a=b\nc"];
    CrashpadM {
        report_id: GUIDS[p % 3],
        client_id: GUIDS[(p + 1) % 3],
        simple: (0..nsimple).map(|i| (format!("k{i}"), format!("{}{i}", txt[(i + p) % 4]))).collect(),
        modules: (0..nmods)
            .map(|i| CrashpadModuleM {
                index: pat32(i, p + 3),
                list: (0..(i + p) % 3).map(|k| format!("{}l{k}", txt[(k + i) % 4])).collect(),
                simple: (0..(i + p + 1) % 3).map(|k| (format!("mk{k}"), txt[(k + p) % 4].to_string())).collect(),
                objects: (0..(i + p + 2) % 4)
                    .map(|k| (format!("o{k}"), [AnnM::Str(txt[(k + i) % 4].to_string()), AnnM::Invalid, AnnM::Custom(0x8000 + k as u16, vec![1, 2, 3]), AnnM::Custom(2, vec![9])][(k + p) % 4].clone()))
                    .collect(),
            })
            .collect(),
    }
}
fn mk_exception(v: usize, ctx: Option<ContextM>) -> ExceptionM {
    let mut info = [0u64; 15];
    for (k, x) in info.iter_mut().enumerate() {
        *x = pat64(k, v);
    }
    ExceptionM { thread_id: 100 + v as u32, code: [0xC000_0005u32, 0, u32::MAX][v % 3], flags: pat32(v, 1), record: pat64(v, 2), address: pat64(v, 0), nparams: [2u32, 0, 15][v % 3], info, context: ctx }
}
fn mk_misc(bits: u32, v: usize) -> MiscM {
    let x = |k: u32| [0u32, u32::MAX, 0x0102_0304u32.wrapping_mul(k + 1)][v % 3];
    let on = |b: u32| bits & (1 << b) != 0;
    let name = |k: u16| -> [u16; 32] {
        let mut a = [[0u16; 32], [0xffff; 32], [0; 32]][v % 3];
        if v % 3 == 2 {
            for (i, c) in "Pacific Standard \u{e9}".encode_utf16().enumerate() {
                a[i] = c + k;
            }
        }
        a
    };
    let date = |k: u16| [[0u16; 8], [0xffff; 8], [2024 + k, 11, 0, 3, 2, 0, 0, 500]][v % 3];
    MiscM {
        process_id: on(0).then(|| x(0)),
        times: on(1).then(|| [x(1), x(2), x(3)]),
        power: on(2).then(|| [x(4), x(5), x(6), x(7), x(8)]),
        integrity: on(3).then(|| x(9)),
        execute_flags: on(4).then(|| x(10)),
        protected: on(5).then(|| x(11)),
        tz: on(6).then(|| TzM { id: x(12), bias: [0i32, -1, 480][v % 3], std_name: name(0), std_date: date(0), std_bias: [0i32, i32::MIN, -60][v % 3], dl_name: name(1), dl_date: date(1), dl_bias: [0i32, i32::MAX, 60][v % 3] }),
        build: on(7).then(|| [(vec![], vec![]), (vec![0xffff; 260], vec![0xffff; 40]), ("19041.1.amd64fre.vb\u{e9}\u{1F600}".encode_utf16().collect(), "dbg".encode_utf16().collect())][v % 3].clone()),
        misc5: on(8).then(|| Misc5M { context_size: x(13), enabled_features: [0u64, u64::MAX, 0x8000_0000_0000_0007][v % 3], feature_seed: x(14), cookie: on(9).then(|| x(15)) }),
    }
}

/// A small instance of stream `kind` (index into STREAM_KINDS); `v` in 0..3 gives distinct payloads.
fn small(kind: usize, v: usize, cpu: CpuKind, cvs: &[Cv]) -> StreamM {
    match STREAM_KINDS[kind] {
        "system_info" => {
            let mut s = SysInfoM::new(cpu.arch(), [3u32, 0x8201, 0x8101][v % 3]);
            s.csd = Some(format!("csd {v}"));
            s.build = 100 + v as u32;
            StreamM::SystemInfo(s)
        }
        "threads" => StreamM::Threads { items: (0..v + 1).map(|i| mk_thread(i, v, cpu)).collect(), pad4: v == 1 },
        "thread_names" => StreamM::ThreadNames { items: (0..v + 1).map(|i| (100 + i as u32, format!("{}{v}", NAMES[(i + v) % NAMES.len()]))).collect(), pad4: v == 2 },
        "modules" => StreamM::Modules { items: (0..v + 2).map(|i| mk_module(i, v, v + 2, cvs)).collect(), pad4: v == 1 },
        "unloaded" => StreamM::Unloaded { items: (0..v + 1).map(|i| mk_unloaded(i, v)).collect(), header: 12 },
        "memory" => StreamM::Memory { items: (0..v + 1).map(|i| mk_region(i, v)).collect(), pad4: v == 2 },
        "memory_info" => StreamM::MemoryInfo { items: (0..v + 1).map(|i| mk_meminfo(i, v)).collect(), header: 12 },
        "exception" => StreamM::Exception(mk_exception(v, Some(mk_context(cpu, v, 1, 0x7000_0000)))),
        "misc" => StreamM::Misc(mk_misc([0b11, 0b111, 0b11_0000_0001][v % 3], v)),
        "linux_maps" => StreamM::LinuxMaps((0..v + 1).map(|i| mk_mapline(i, v)).collect()),
        "handles" => StreamM::Handles((0..v + 1).map(|i| mk_handle(i, v)).collect()),
        "crashpad" => StreamM::Crashpad(mk_crashpad(v + 1, v, v)),
        _ => unreachable!(),
    }
}

// ---------------------------------------------------------------------------------------------
// case spaces

fn space(name: &'static str, len: u64, gen: impl Fn(u64) -> (DumpModel, Value) + Send + Sync + Clone + 'static) -> Space {
    let g2 = gen.clone();
    Space::new(
        name,
        len,
        move |i, l| {
            let (m, _) = gen(i);
            l.outcome(&format!("cases of space {name}"));
            check_model(name, &m, l)
        },
        move |i| {
            let (m, p) = g2(i);
            json!({"class": name, "params": p, "streams": m.summary()})
        },
    )
}

fn space_modules(tier: Tier) -> Space {
    let cvs = Arc::new(cv_menu(tier));
    let places: Vec<(u64, u32)> = take(tier, 3, &[(MID, 0x1_0000), (0, 1), (TOP - 0x1000, 0x1000), (1, u32::MAX), (TOP - 1, 1)]);
    let names = take(tier, 3, &[NAMES[0], NAMES[1], NAMES[7], NAMES[2], NAMES[3], NAMES[4], NAMES[5], NAMES[6], NAMES[8], NAMES[9]]);
    let oses: Vec<Option<u32>> = take(tier, 4, &[Some(3), Some(0x8201), Some(0x8101), None, Some(0x8102), Some(0x8203), Some(2), Some(0), Some(0x8202), Some(0x8204), Some(0x8205), Some(u32::MAX)]);
    let vers = take(tier, 3, &versions());
    let stamps = [0x5000_0001u32, 0, u32::MAX];
    let rad = [cvs.len() as u64, places.len() as u64, names.len() as u64, oses.len() as u64, vers.len() as u64, 3, 2];
    space("module-product", product(&rad), move |idx| {
        let d = unrank(idx, &rad);
        let (base, size) = places[d[1] as usize];
        let m = ModuleM { base, size, checksum: pat32(d[5] as usize, 3), timestamp: stamps[d[5] as usize], name: names[d[2] as usize].to_string(), version: vers[d[4] as usize], cv: cvs[d[0] as usize].clone() };
        let mut streams = vec![];
        if let Some(p) = oses[d[3] as usize] {
            streams.push(sysinfo(9, p));
        }
        let par = json!({"cv": format!("{:?}", m.cv), "base": format!("{base:#x}"), "size": size, "name": m.name, "platform_id": oses[d[3] as usize], "version_info": m.version[..6], "timestamp": m.timestamp, "pad4": d[6] == 1});
        streams.push(StreamM::Modules { items: vec![m], pad4: d[6] == 1 });
        (DumpModel { streams }, par)
    })
}

fn space_threads() -> Space {
    // 9 layouts written with scroll, 3 more through synth's own writers
    let ctxs: Vec<(CpuKind, bool)> = CpuKind::ALL.iter().map(|k| (*k, false)).chain([(CpuKind::X86, true), (CpuKind::Amd64, true), (CpuKind::Arm64, true)]).collect();
    let rad = [ctxs.len() as u64, 3, 3, 6, 3, 2];
    space("thread-product", product(&rad), move |idx| {
        let d = unrank(idx, &rad);
        let (kind, via) = ctxs[d[0] as usize];
        let (fill, pv, sv, fv) = (d[1] as u8, d[2] as usize, d[3] as usize, d[4] as usize);
        let (ip, sp) = [(0x40_1000u64, 0x7000_0010u64), (0, 0), (u64::MAX, u64::MAX)][pv];
        let ctx = if via { ContextM::synth(kind, ip, sp) } else { ContextM::new(kind, fill, ip, sp) };
        let region = RegionM { base: 0x7000_0000, bytes: (0..64u8).map(|k| k ^ 0x5a).collect() };
        let (stack_base, stack, regions): (u64, Vec<u8>, Option<Vec<RegionM>>) = match sv {
            0 => (0x7000_0000, vec![0xab; 32], None),
            1 => (0, vec![7], None),
            2 => (TOP - 4096, (0..4096).map(|k| (k % 251) as u8).collect(), None),
            3 => (0x7000_0010, vec![], Some(vec![region])), // null descriptor, resolved through the memory list
            4 => (0x7000_0010, vec![], None),               // null descriptor, nothing to resolve it
            _ => (0x7000_0000, vec![0xcd; 16], Some(vec![region])), // own bytes win over a region at the same address
        };
        let t = ThreadM { id: [1u32, 0, u32::MAX][fv], suspend_count: pat32(fv, 0), priority_class: pat32(fv, 1), priority: pat32(fv, 2), teb: pat64(fv, 0), stack_base, stack, context: Some(ctx) };
        let mut streams = vec![sysinfo(kind.arch(), 0x8201)];
        if let Some(r) = regions {
            streams.push(StreamM::Memory { items: r, pad4: false });
        }
        let par = json!({"cpu": kind.name(), "via_synth": via, "fill": fill, "ip": format!("{ip:#x}"), "stack_variant": sv, "fields": fv, "pad4": d[5] == 1});
        streams.push(StreamM::Threads { items: vec![t], pad4: d[5] == 1 });
        (DumpModel { streams }, par)
    })
}

fn space_memory(tier: Tier) -> Space {
    // (size, base selector): base selectors are resolved against the size
    let sizes = [1usize, 17, 4096, 65536];
    // mid, 0, top (last byte at 2^64-2), directly behind a 64 KiB region at 0, reaching 2^64 exactly
    let nbase = 5usize;
    let opts = (sizes.len() * nbase) as u64;
    let nmax = 3usize;
    let mut total = 0u64;
    let mut starts = vec![];
    for n in 1..=nmax {
        starts.push(total);
        total += opts.pow(n as u32) * 2;
    }
    let extra = 0u64;
    let _ = tier;
    let st2 = starts.clone();
    space("memory-product", total + extra, move |idx| {
        let region = |o: u64, k: usize| {
            let size = sizes[(o as usize) % sizes.len()];
            let base = match (o as usize) / sizes.len() {
                0 => MID + 0x10_0000 * k as u64,
                1 => 0,
                2 => TOP - size as u64,
                3 => 0x1_0000,
                _ => TOP - size as u64 + 1,
            };
            RegionM { base, bytes: (0..size).map(|j| (j * 7 + k * 3 + size) as u8).collect() }
        };
        let (items, pad4): (Vec<RegionM>, bool) = if idx >= total {
            let j = idx - total;
            ((0..3).map(|k| region((j / 2 + 7 * k as u64) % opts, k)).collect(), j % 2 == 1)
        } else {
            let n = (1..=nmax).rev().find(|n| idx >= st2[n - 1]).unwrap();
            let j = idx - st2[n - 1];
            let mut o = j / 2;
            let mut v = vec![];
            for k in 0..n {
                v.push(region(o % opts, k));
                o /= opts;
            }
            (v, j % 2 == 1)
        };
        let par = json!({"regions": items.iter().map(|r| format!("{:#x}+{:#x}", r.base, r.bytes.len())).collect::<Vec<_>>(), "pad4": pad4});
        (DumpModel { streams: vec![StreamM::Memory { items, pad4 }] }, par)
    })
}

fn space_sysinfo(tier: Tier) -> Space {
    let plats = [3u32, 0x8201, 0x8101, 2, 1, 4, 0x8000, 0x8102, 0x8202, 0x8203, 0x8204, 0x8205, 0, 5, u32::MAX];
    let archs = [9u16, 0, 5, 1, 2, 3, 4, 6, 7, 8, 10, 11, 12, 13, 0x8001, 0x8002, 0x8003, 0x8004, 0x8005, 0xffff];
    let csds: Vec<Option<&'static str>> = take(tier, 4, &[None, Some(NAMES[0]), Some(NAMES[1]), Some(NAMES[2]), Some(NAMES[3]), Some(NAMES[4]), Some("Linux 5.15.0-91-generic #101-Ubuntu SMP x86_64 GNU/Linux")]);
    let rad = [plats.len() as u64, archs.len() as u64, csds.len() as u64, 3];
    space("system-info-product", product(&rad), move |idx| {
        let d = unrank(idx, &rad);
        let mut s = SysInfoM::new(archs[d[1] as usize], plats[d[0] as usize]);
        s.csd = csds[d[2] as usize].map(|x| x.to_string());
        match d[3] {
            1 => s = SysInfoM { level: 0, revision: 0, nproc: 0, product_type: 0, major: 0, minor: 0, build: 0, suite_mask: 0, reserved2: 0, cpu_words: [0; 6], ..s },
            2 => s = SysInfoM { level: u16::MAX, revision: u16::MAX, nproc: u8::MAX, product_type: u8::MAX, major: u32::MAX, minor: u32::MAX, build: u32::MAX, suite_mask: u16::MAX, reserved2: u16::MAX, cpu_words: [u32::MAX; 6], ..s },
            _ => {}
        }
        let par = json!({"platform_id": s.platform_id, "arch": s.arch, "csd": s.csd, "numbers": d[3]});
        (DumpModel { streams: vec![StreamM::SystemInfo(s)] }, par)
    })
}

fn space_misc() -> Space {
    space("misc-info-product", 1024 * 3, move |idx| {
        let (bits, v) = ((idx / 3) as u32, (idx % 3) as usize);
        let m = mk_misc(bits, v);
        let par = json!({"field_groups": format!("{bits:#012b}"), "values": v, "revision": m.version()});
        (DumpModel { streams: vec![StreamM::Misc(m)] }, par)
    })
}

fn space_exception() -> Space {
    let nparams = [0u32, 1, 2, 15, 16, u32::MAX];
    let rad = [9, 4, 3, 3, nparams.len() as u64, 2];
    space("exception-product", product(&rad), move |idx| {
        let d = unrank(idx, &rad);
        let kind = CpuKind::ALL[d[0] as usize];
        let ctx = (d[1] > 0).then(|| ContextM::new(kind, d[1] as u8 - 1, [0x40_1000u64, 0, u64::MAX][d[3] as usize], 0x7000_0000));
        let mut x = mk_exception(d[2] as usize, ctx);
        x.address = [0u64, MID, u64::MAX][d[3] as usize];
        x.nparams = nparams[d[4] as usize];
        if d[5] == 1 {
            x.info = [u64::MAX; 15];
        }
        let par = json!({"cpu": kind.name(), "context": d[1], "code": x.code, "address": format!("{:#x}", x.address), "number_parameters": x.nparams});
        (DumpModel { streams: vec![sysinfo(kind.arch(), 3), StreamM::Exception(x)] }, par)
    })
}

/// Every CPU layout x part flags in `context_flags` (the bits below the documented CPU mask 0xffffff00):
/// one thread and the exception record of one dump carry a context with the same flags.
fn space_context_flags(tier: Tier) -> Space {
    // (layout, processor_architecture announcing it): the nine layouts, and x86 under IA32_ON_WIN64
    let layouts: Vec<(CpuKind, u16)> = CpuKind::ALL.iter().map(|k| (*k, k.arch())).chain([(CpuKind::X86, 10u16)]).collect();
    let mut pairs: Vec<(CpuKind, u16, u8)> = vec![];
    for (k, arch) in layouts {
        let lows: Vec<u8> = match tier {
            Tier::Quick => k.low_flags_menu(),
            Tier::Thorough => (0..=255u8).collect(),
        };
        pairs.extend(lows.into_iter().map(|l| (k, arch, l)));
    }
    let rad = [pairs.len() as u64, 3, 3];
    space("context-flags-product", product(&rad), move |idx| {
        let d = unrank(idx, &rad);
        let (kind, arch, low) = pairs[d[0] as usize];
        let (fill, pv) = (d[1] as u8, d[2] as usize);
        let (ip, sp) = [(0x40_1000u64, 0x7000_0010u64), (0, 0), (u64::MAX, u64::MAX)][pv];
        let tctx = ContextM::new(kind, fill, ip, sp).with_low_flags(low);
        let xctx = ContextM::new(kind, (fill + 1) % 3, sp, ip).with_low_flags(low);
        let t = ThreadM { id: 7, suspend_count: 1, priority_class: 0x20, priority: 2, teb: pat64(pv, 0), stack_base: 0x7000_0000, stack: vec![0xab; 32], context: Some(tctx) };
        let par = json!({"cpu": kind.name(), "processor_architecture": arch, "context_flags": format!("{:#x}", kind.cpu_flag() | low as u32), "fill": fill, "ip": format!("{ip:#x}")});
        let streams = vec![sysinfo(arch, [3u32, 0x8201, 0x8101][pv]), StreamM::Threads { items: vec![t], pad4: false }, StreamM::Exception(mk_exception(pv, Some(xctx)))];
        (DumpModel { streams }, par)
    })
}

const LIST_KINDS: [&str; 10] = ["threads", "thread_names", "modules", "unloaded", "memory", "memory_info", "linux_maps", "handles", "crashpad-simple", "crashpad-modules"];

fn space_lengths(tier: Tier) -> Space {
    let lens: Vec<usize> = match tier {
        Tier::Quick => vec![0, 1, 2, 3, 40],
        Tier::Thorough => (0..=40).collect(),
    };
    let cvs = Arc::new(cv_menu(Tier::Quick));
    let rad = [LIST_KINDS.len() as u64, lens.len() as u64, 2, 3];
    space("list-lengths", product(&rad), move |idx| {
        let d = unrank(idx, &rad);
        let (n, alt, p) = (lens[d[1] as usize], d[2] == 1, d[3] as usize);
        let cpu = CpuKind::ALL[(n + 3 * p) % 9];
        let header = if alt { 32 } else { 12 };
        let s = match LIST_KINDS[d[0] as usize] {
            "threads" => StreamM::Threads { items: (0..n).map(|i| mk_thread(i, p, cpu)).collect(), pad4: alt },
            "thread_names" => StreamM::ThreadNames { items: (0..n).map(|i| (if i % 2 == 0 { i as u32 } else { u32::MAX - i as u32 }, format!("{}{i}", NAMES[(i + p) % NAMES.len()]))).collect(), pad4: alt },
            "modules" => StreamM::Modules { items: (0..n).map(|i| mk_module(i, p, n, &cvs)).collect(), pad4: alt },
            "unloaded" => StreamM::Unloaded { items: (0..n).map(|i| mk_unloaded(i, p)).collect(), header },
            "memory" => StreamM::Memory { items: (0..n).map(|i| mk_region(i, p)).collect(), pad4: alt },
            "memory_info" => StreamM::MemoryInfo { items: (0..n).map(|i| mk_meminfo(i, p)).collect(), header },
            "linux_maps" => StreamM::LinuxMaps((0..n).map(|i| mk_mapline(i, p + alt as usize)).collect()),
            "handles" => StreamM::Handles((0..n).map(|i| mk_handle(i, p + alt as usize)).collect()),
            "crashpad-simple" => StreamM::Crashpad(mk_crashpad(n, alt as usize, p)),
            _ => StreamM::Crashpad(mk_crashpad(alt as usize, n, p)),
        };
        let par = json!({"list": LIST_KINDS[d[0] as usize], "length": n, "padding_or_header_variant": alt, "phase": p, "cpu": cpu.name()});
        (DumpModel { streams: vec![sysinfo(cpu.arch(), [3u32, 0x8201, 0x8101][p]), s] }, par)
    })
}

fn space_presence() -> Space {
    let masks: Vec<u32> = (0..1u32 << 12).filter(|m| m.count_ones() <= 2 || m.count_ones() >= 10).collect();
    let cvs = Arc::new(cv_menu(Tier::Quick));
    space("stream-presence", masks.len() as u64 * 2, move |idx| {
        let (mask, rev) = (masks[(idx / 2) as usize], idx % 2 == 1);
        let mut streams: Vec<StreamM> = (0..12).filter(|k| mask & (1 << k) != 0).map(|k| small(k, k % 3, CpuKind::Amd64, &cvs)).collect();
        if rev {
            streams.reverse();
        }
        let par = json!({"present": (0..12).filter(|k| mask & (1 << k) != 0).map(|k| STREAM_KINDS[k]).collect::<Vec<_>>(), "directory_reversed": rev});
        (DumpModel { streams }, par)
    })
}

fn space_duplicates() -> Space {
    let shapes: [(usize, usize); 5] = [(2, 0), (2, 1), (3, 0), (3, 1), (3, 2)];
    let cpus = [CpuKind::Amd64, CpuKind::X86, CpuKind::Arm64];
    let cvs = Arc::new(cv_menu(Tier::Quick));
    let rad = [12, 5, 2];
    space("duplicate-directory-entries", product(&rad), move |idx| {
        let d = unrank(idx, &rad);
        let (dup, (copies, rot), layout) = (d[0] as usize, shapes[d[1] as usize], d[2]);
        let order: Vec<usize> = (0..copies).map(|k| (k + rot) % copies).collect(); // payload variants in directory order
        // the CPU every context in the dump is written for is the one of the system info served last
        let cpu = if STREAM_KINDS[dup] == "system_info" { cpus[*order.last().unwrap()] } else { cpus[0] };
        let mk = |k: usize, v: usize| if STREAM_KINDS[k] == "system_info" { small(k, v, cpus[v], &cvs) } else { small(k, v, cpu, &cvs) };
        let singles: Vec<StreamM> = (0..12).filter(|k| *k != dup).map(|k| mk(k, 0)).collect();
        let mut copies_v: Vec<StreamM> = order.iter().map(|v| mk(dup, *v)).collect();
        // the text stream can be EMPTY (a directory entry of size 0): as the last copy it is the one served
        if STREAM_KINDS[dup] == "linux_maps" && rot == 0 {
            *copies_v.last_mut().unwrap() = StreamM::LinuxMaps(vec![]);
        }
        let mut streams = vec![];
        if layout == 0 {
            // earlier copies first, the served one at the very end
            streams.extend(copies_v[..copies - 1].iter().cloned());
            streams.extend(singles);
            streams.push(copies_v[copies - 1].clone());
        } else {
            // all copies adjacent in the middle of the directory
            streams.extend(singles[..6].iter().cloned());
            streams.extend(copies_v);
            streams.extend(singles[6..].iter().cloned());
        }
        let par = json!({"duplicated": STREAM_KINDS[dup], "copies": copies, "payload_order": order, "layout": if layout == 0 { "spread" } else { "adjacent" }});
        (DumpModel { streams }, par)
    })
}

fn main() {
    run_check("C02", |ctx| {
        let t = ctx.tier;
        let mut def = CheckDef::new(
            "C02",
            "exploration",
            "bounded-exhaustive round trip: every model of ten product spaces (one stream's value menus in full product, every CPU context layout x the part flags of context_flags below the CPU mask 0xffffff00, list lengths, all stream-presence sets of size <=2 / >=10, 2 and 3 directory entries of one type) is serialised through minidump-synth as {LE,BE} x {MemoryList,Memory64List}, parsed with Minidump::read/get_stream and compared field by field in file order with the model, every region address looked up (all addresses up to 4 KiB, boundaries + stride 251 above), identifiers compared with an independent derivation, and a structural dump of the four parses compared pairwise. evaluations = dumps parsed; distinct_nontrivial = distinct models (by content) whose four dumps all passed Minidump::read.",
        );
        def.assumptions = vec![
            "modules / unloaded modules with size 0 or base+size > 2^64 are documented as dropped and are not generated; regions, modules and memory-info entries never overlap (overlap handling is C08)".into(),
            "a memory region whose last byte is 2^64-1 (base+size = 2^64) is only required to be listed with its bytes; lookup by address is not asserted for it".into(),
            "zero-length regions are not generated (a MemoryList documents dropping descriptors without data)".into(),
            "names are valid Unicode (unpaired surrogates are not representable in the model; C01 covers them); thread ids and annotation keys are distinct within one stream".into(),
            "PDB70 with an all-zero GUID is expected to give no debug id (treated like the documented empty ELF id); CodeId is compared in its normalised lower-case form".into(),
            "platform ids 1 (Win32s), 4 (WinCE) and 0x8000 (Unix) have no documented Os mapping: raw fields are compared, the Os mapping and OS-dependent module identifiers are not".into(),
            "a thread/exception context is compared only when the served system info announces the CPU it was written for; context comparison is the little-endian image of all fields (scroll derive symmetry trusted, cross-checked by minidump-synth's independent writers for x86/amd64/arm64)".into(),
            "context_flags = the CPU's identifying bit (inside the documented CONTEXT_CPU_MASK 0xffffff00) | part flags in the low byte; the low byte takes: 0, each documented part bit alone (x86/amd64: control, integer, segments, floating point, debug, extended registers, 0x40 xstate = CONTEXT_HAS_XSTATE; arm/arm64/arm64_old/ppc/ppc64/sparc/mips: their winnt.h / Breakpad part bits), all documented parts, the writer default, and 0xff (thorough tier: all 256 values); the documentation makes only the masked bits CPU-identifying, so every such context must read back as a context of its CPU with all fields (including context_flags) as written. x86 is also announced as IA32_ON_WIN64 (10)".into(),
            "ELF build-id debug ids are compared with the reference in little-endian dumps only; in big-endian dumps the field is judged by the LE/BE comparison (known finding F18)".into(),
            "linux maps lines are restricted to the six-column form with paths procfs-core maps to Path/Heap/Stack/Vdso/Anonymous".into(),
        ];
        def.extra.insert("bounds".into(), json!({
            "list_lengths": if t == Tier::Quick { json!([0, 1, 2, 3, 40]) } else { json!("0..=40") },
            "elf_build_id_lengths": ELF_LENS,
            "codeview_menu": cv_menu(t).len(),
            "context_low_flag_bytes_per_cpu": if t == Tier::Quick { json!(CpuKind::ALL.iter().map(|k| (k.name(), k.low_flags_menu())).collect::<std::collections::BTreeMap<_, _>>()) } else { json!("0..=255") },
            "menus": if t == Tier::Quick { "first <=3 (OS: 4) values of each menu" } else { "full menus" },
            "regions_per_memory_product_case": "1..3, full product of 4 sizes x 5 placements per region",
            "region_sizes": [1, 17, 4096, 65536],
            "variants_per_model": ["LE/MemoryList", "LE/Memory64List", "BE/MemoryList", "BE/Memory64List"],
        }));
        def.spaces = vec![space_modules(t), space_threads(), space_memory(t), space_sysinfo(t), space_misc(), space_exception(), space_context_flags(t), space_lengths(t), space_presence(), space_duplicates()];
        def
    })
}
