use minidump::*;
fn main() {
    for (name, bytes) in vh::seeds::synthetic_seeds() {
        if !name.starts_with("linux-blank") { continue; }
        let d = Minidump::read(&bytes[..]).expect("read");
        println!("{name}: lsb={:?}", d.get_stream::<MinidumpLinuxLsbRelease>().map(|s| s.iter().map(|(k,v)| (k.to_string_lossy().to_string(), v.to_string_lossy().to_string())).collect::<Vec<_>>()));
        println!("{name}: cpu={:?}", d.get_stream::<MinidumpLinuxCpuInfo>().map(|s| s.iter().map(|(k,v)| (k.to_string_lossy().to_string(), v.to_string_lossy().to_string())).collect::<Vec<_>>()));
        println!("{name}: status={:?}", d.get_stream::<MinidumpLinuxProcStatus>().map(|s| s.iter().map(|(k,v)| (k.to_string_lossy().to_string(), v.to_string_lossy().to_string())).collect::<Vec<_>>()));
    }
}
