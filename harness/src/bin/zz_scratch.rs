use breakpad_symbols::*;
fn main() {
    let base = reqwest::Url::parse("https://symbols.example.org/symbols/").unwrap();
    for name in ["https:evil", "%2e%2e", "%2E%2e", ".%2e", "a%2fb", "https://evil.com/x", "javascript:x", "//evil.com", "\\\\evil.com", "x:y", "ab:cd", "?q", "#f", "a?b"] {
        let id: debugid::DebugId = "07070707-0707-0707-0707-070707070707-3".parse().unwrap();
        let m = SimpleModule::from_basic_info(Some(name.into()), Some(id), Some(name.into()), None);
        match breakpad_sym_lookup(&m) {
            Some(l) => {
                let j = base.join(&l.server_rel);
                println!("{name:?}: server_rel={:?} joined={:?}", l.server_rel, j.map(|u| u.to_string()));
            }
            None => println!("{name:?}: no lookup"),
        }
    }
}
