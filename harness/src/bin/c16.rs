//! C16 — the on-disk symbol cache only ever holds complete, parseable files.
//! Engine E4: fault enumeration. The REAL `HttpSymbolSupplier` runs on a current-thread tokio
//! runtime against a scripted loopback HTTP/1.1 server that performs one event per command
//! (status line + headers, body slice, close, stall); every (framing, cut point, split point,
//! corruption, cancellation point, history) of a short download history is enumerated, and the
//! file system under cache/ and tmp/ is inspected after each run.
use breakpad_symbols::*;
use std::future::Future;
use std::io::{Read, Write};
use std::path::{Path, PathBuf};
use std::str::FromStr;
use std::sync::atomic::{AtomicU64, Ordering::SeqCst};
use std::sync::{mpsc, Arc, Mutex};
use std::time::Duration;
use vh::*;

const BODY: &[u8] = b"MODULE Linux x86 ABCD1234ABCD1234ABCDABCD12345678a foo\nFILE 1 foo.c\nFUNC 1000 30 10 some func\n1000 30 100 1\nPUBLIC 2000 0 pub\nSTACK CFI INIT 1000 30 .cfa: $esp 4 + .ra: .cfa 4 - ^\n";
const DEBUG_ID: &str = "abcd1234-abcd-1234-abcd-abcd12345678-a";
const REL: &str = "foo.pdb/ABCD1234ABCD1234ABCDABCD12345678a/foo.sym";
const BLOB: &[u8] = b"\x7fELF-not-really-a-binary-but-64-bytes-of-opaque-content-0123456789";

#[derive(Debug, Clone)]
enum Ev {
    Send(Vec<u8>),
    /// let what was sent so far reach the client as a chunk of its own before going on
    Pause(u64),
    /// create the supplier's tmp directory now (it did not exist when the download began)
    MakeTmpDir,
    Close,
}

/// One scripted server = one listener; serves connections one after the other, each with the
/// next script from `scripts` (extra connections are closed at once).
struct Server {
    port: u16,
    tx: mpsc::Sender<Ev>,
    log: Arc<Mutex<Vec<String>>>,
}
/// tmp directory of the supplier talking to the server on this port (for `Ev::MakeTmpDir`)
static TMP_DIRS: Mutex<std::collections::BTreeMap<u16, PathBuf>> = Mutex::new(std::collections::BTreeMap::new());

fn start_server() -> Server {
    let l = std::net::TcpListener::bind("127.0.0.1:0").expect("bind loopback");
    let port = l.local_addr().unwrap().port();
    let (tx, rx) = mpsc::channel::<Ev>();
    let log: Arc<Mutex<Vec<String>>> = Default::default();
    let log2 = log.clone();
    std::thread::spawn(move || {
        // the thread ends when the command channel is dropped
        l.set_nonblocking(false).ok();
        'conn: loop {
            let (mut c, _) = match l.accept() {
                Ok(x) => x,
                Err(_) => break,
            };
            let _ = c.set_read_timeout(Some(Duration::from_secs(5)));
            let mut head = vec![];
            let mut buf = [0u8; 2048];
            while !head.windows(4).any(|w| w == b"\r\n\r\n") {
                match c.read(&mut buf) {
                    Ok(0) | Err(_) => continue 'conn,
                    Ok(n) => head.extend_from_slice(&buf[..n]),
                }
            }
            log2.lock().unwrap().push(String::from_utf8_lossy(&head).lines().next().unwrap_or("").to_string());
            loop {
                match rx.recv() {
                    Ok(Ev::Send(b)) => {
                        let _ = c.write_all(&b);
                        let _ = c.flush();
                    }
                    Ok(Ev::Pause(ms)) => std::thread::sleep(Duration::from_millis(ms)),
                    Ok(Ev::MakeTmpDir) => {
                        if let Some(p) = TMP_DIRS.lock().unwrap().get(&port) {
                            let _ = std::fs::create_dir_all(p);
                        }
                    }
                    Ok(Ev::Close) => break,
                    Err(_) => break 'conn,
                }
            }
            let _ = c.shutdown(std::net::Shutdown::Both);
        }
    });
    Server { port, tx, log }
}
impl Server {
    fn url(&self) -> String {
        format!("http://127.0.0.1:{}/", self.port)
    }
    /// unblock accept() so the thread can observe the dropped channel
    fn stop(self) {
        let port = self.port;
        drop(self.tx);
        let _ = std::net::TcpStream::connect(("127.0.0.1", port));
    }
}

fn files(p: &Path) -> Vec<(String, Vec<u8>)> {
    fn rec(root: &Path, p: &Path, v: &mut Vec<(String, Vec<u8>)>) {
        if let Ok(rd) = std::fs::read_dir(p) {
            for e in rd.flatten() {
                let pp = e.path();
                if pp.is_dir() {
                    rec(root, &pp, v)
                } else {
                    v.push((pp.strip_prefix(root).unwrap_or(&pp).display().to_string(), std::fs::read(&pp).unwrap_or_default()))
                }
            }
        }
    }
    let mut v = vec![];
    rec(p, p, &mut v);
    v.sort();
    v
}

fn head_cl(n: usize) -> Vec<u8> {
    format!("HTTP/1.1 200 OK\r\nContent-Length: {n}\r\n\r\n").into_bytes()
}
fn head_close() -> Vec<u8> {
    b"HTTP/1.1 200 OK\r\nConnection: close\r\n\r\n".to_vec()
}
fn head_chunked() -> Vec<u8> {
    b"HTTP/1.1 200 OK\r\nTransfer-Encoding: chunked\r\n\r\n".to_vec()
}
fn chunk_frame(b: &[u8]) -> Vec<u8> {
    let mut v = format!("{:x}\r\n", b.len()).into_bytes();
    v.extend_from_slice(b);
    v.extend_from_slice(b"\r\n");
    v
}

#[derive(Debug, Clone, PartialEq)]
enum Kind {
    Symbols,
    File(FileKind),
}

/// What one request's server does, and what the client is expected to have downloaded.
#[derive(Debug, Clone)]
struct Script {
    label: String,
    events: Vec<Ev>,
    /// bytes the server delivers as the complete HTTP body when the transfer is well-formed
    /// (`None`: the transfer is broken / an error status, nothing may be cached)
    delivered: Option<Vec<u8>>,
}

#[derive(Debug, Clone)]
struct Scenario {
    class: String,
    kind: Kind,
    /// one script per URL of the supplier (servers are tried in order)
    scripts: Vec<Script>,
    /// drop the client future after the first server performed this many events
    cancel_after: Option<usize>,
    /// a cache entry that exists before the run
    preexisting: Option<Vec<u8>>,
    /// 0 normal; 1 cache root below a regular file (ENOTDIR); 2 tmp dir does not exist
    broken_dirs: u8,
    /// a second run (fresh supplier, same dirs) with this script afterwards
    then: Option<Script>,
    timeout_ms: u64,
    /// no file of this process may grow beyond this many bytes while the download runs (RLIMIT_FSIZE with
    /// SIGXFSZ ignored: the write that would cross the limit is cut short / fails with EFBIG, like a full disk or
    /// an exhausted quota). Only used in the sandboxed `disk-quota` space (one worker process per chunk).
    fsize_limit: Option<u64>,
    /// a DIRECTORY already sits where the cache entry would go: the download succeeds, nothing can be cached
    dir_at_cache_path: bool,
}
impl Scenario {
    fn json(&self) -> Value {
        json!({"class": self.class, "kind": format!("{:?}", self.kind), "servers": self.scripts.iter().map(|s| s.label.clone()).collect::<Vec<_>>(),
               "cancel_after_event": self.cancel_after, "preexisting_cache_entry": self.preexisting.is_some(), "broken_dirs": self.broken_dirs,
               "then": self.then.as_ref().map(|s| s.label.clone()), "file_size_quota": self.fsize_limit})
    }
}

fn script_full(framing: &str, body: &[u8]) -> Script {
    let events = match framing {
        "content-length" => vec![Ev::Send(head_cl(body.len())), Ev::Send(body.to_vec()), Ev::Close],
        "chunked" => vec![Ev::Send(head_chunked()), Ev::Send(chunk_frame(body)), Ev::Send(b"0\r\n\r\n".to_vec()), Ev::Close],
        _ => vec![Ev::Send(head_close()), Ev::Send(body.to_vec()), Ev::Close],
    };
    Script { label: format!("200 {framing} full ({} bytes)", body.len()), events, delivered: Some(body.to_vec()) }
}
fn script_cut(framing: &str, body: &[u8], k: usize) -> Script {
    let part = &body[..k];
    let (events, delivered) = match framing {
        "content-length" => (vec![Ev::Send(head_cl(body.len())), Ev::Send(part.to_vec()), Ev::Close], if k == body.len() { Some(body.to_vec()) } else { None }),
        "chunked" => {
            let mut e = vec![Ev::Send(head_chunked())];
            if k > 0 {
                e.push(Ev::Send(chunk_frame(part)));
            }
            if k == body.len() {
                e.push(Ev::Send(b"0\r\n\r\n".to_vec()));
            }
            e.push(Ev::Close);
            (e, if k == body.len() { Some(body.to_vec()) } else { None })
        }
        // close-delimited: a cut is indistinguishable from a complete, shorter body
        _ => (vec![Ev::Send(head_close()), Ev::Send(part.to_vec()), Ev::Close], Some(part.to_vec())),
    };
    Script { label: format!("200 {framing} cut after {k} of {} body bytes", body.len()), events, delivered }
}
fn script_split(body: &[u8], points: &[usize], chunked: bool) -> Script {
    let mut events = vec![Ev::Send(if chunked { head_chunked() } else { head_cl(body.len()) })];
    let mut prev = 0;
    for &p in points.iter().chain(std::iter::once(&body.len())) {
        if p > prev {
            events.push(Ev::Send(if chunked { chunk_frame(&body[prev..p]) } else { body[prev..p].to_vec() }));
        }
        prev = p;
    }
    if chunked {
        events.push(Ev::Send(b"0\r\n\r\n".to_vec()));
    }
    events.push(Ev::Close);
    Script { label: format!("200 {} split at {points:?}", if chunked { "chunked" } else { "content-length" }), events, delivered: Some(body.to_vec()) }
}
fn script_status(st: u16) -> Script {
    let extra = if st == 301 || st == 302 { "Location: /elsewhere/foo.sym\r\n" } else { "" };
    Script { label: format!("status {st}"), events: vec![Ev::Send(format!("HTTP/1.1 {st} X\r\n{extra}Content-Length: 0\r\n\r\n").into_bytes()), Ev::Close], delivered: None }
}
fn corrupt(body: &[u8], j: usize) -> Vec<u8> {
    let mut b = body.to_vec();
    let starts: Vec<usize> = std::iter::once(0).chain(b.iter().enumerate().filter(|x| *x.1 == b'\n').map(|x| x.0 + 1)).filter(|&s| s < b.len()).collect();
    b[starts[j]] = b'@';
    b
}
fn n_lines(body: &[u8]) -> usize {
    body.iter().filter(|&&c| c == b'\n').count()
}

fn scenarios(tier: Tier) -> Vec<Scenario> {
    let mut v: Vec<Scenario> = vec![];
    let base = |class: &str, kind: Kind, scripts: Vec<Script>| Scenario { class: class.into(), kind, scripts, cancel_after: None, preexisting: None, broken_dirs: 0, then: None, timeout_ms: 60_000, fsize_limit: None, dir_at_cache_path: false };
    let bodies: Vec<Vec<u8>> = if tier == Tier::Thorough {
        vec![BODY.to_vec(), BODY.iter().map(|&b| b).chain(b"FUNC 3000 10 0 other\n3000 10 7 1\n".iter().copied()).collect(), b"MODULE a b c d\nPUBLIC 10 0 x\n".to_vec()]
    } else {
        vec![BODY.to_vec()]
    };
    for body in &bodies {
        for framing in ["content-length", "chunked", "close-delimited"] {
            // the connection is cut after every byte count
            for k in 0..=body.len() {
                v.push(base(&format!("cut:{framing}"), Kind::Symbols, vec![script_cut(framing, body, k)]));
            }
        }
        // every two-chunk split, both framings; 1-byte and 7-byte chunk trickles
        for k in 1..body.len() {
            v.push(base("split:content-length", Kind::Symbols, vec![script_split(body, &[k], false)]));
            v.push(base("split:chunked", Kind::Symbols, vec![script_split(body, &[k], true)]));
        }
        let every: Vec<usize> = (1..body.len()).collect();
        v.push(base("trickle:1-byte-chunks", Kind::Symbols, vec![script_split(body, &every, true)]));
        let sevens: Vec<usize> = (1..body.len()).filter(|x| x % 7 == 0).collect();
        v.push(base("trickle:7-byte-writes", Kind::Symbols, vec![script_split(body, &sevens, false)]));
        // corruption of each line, each framing; missing final newline
        for j in 0..n_lines(body) {
            for framing in ["content-length", "chunked", "close-delimited"] {
                let mut s = script_full(framing, &corrupt(body, j));
                s.label = format!("{} with line {j} corrupt", s.label);
                v.push(base("corrupt-line", Kind::Symbols, vec![s]));
            }
        }
        // the body arrives as whole lines, then (after a pause, as a chunk of its own) part of the next line, then the
        // connection closes: a truncated file whatever the framing says
        let line_ends: Vec<usize> = body.iter().enumerate().filter(|(_, b)| **b == b'\n').map(|(i, _)| i + 1).filter(|e| *e < body.len()).collect();
        for &b0 in &line_ends {
            let next_end = body[b0..].iter().position(|c| *c == b'\n').map(|i| b0 + i + 1).unwrap_or(body.len());
            for k in [b0 + 1, (b0 + next_end) / 2, next_end - 1] {
                if k <= b0 || k >= next_end {
                    continue;
                }
                for framing in ["close-delimited", "content-length"] {
                    let head = if framing == "close-delimited" { head_close() } else { head_cl(body.len()) };
                    let events = vec![Ev::Send(head), Ev::Send(body[..b0].to_vec()), Ev::Pause(25), Ev::Send(body[b0..k].to_vec()), Ev::Pause(25), Ev::Close];
                    // close-delimited: by HTTP's rules a complete (shorter) body, which does not parse: never a winner
                    let delivered = if framing == "close-delimited" { Some(body[..k].to_vec()) } else { None };
                    v.push(base(&format!("lines-then-partial-line:{framing}"), Kind::Symbols, vec![Script { label: format!("200 {framing}, {b0} bytes of whole lines, pause, {} bytes of the next line, close", k - b0), events, delivered }]));
                }
            }
        }
        let nofinal = &body[..body.len() - 1];
        for framing in ["content-length", "chunked", "close-delimited"] {
            v.push(base("no-final-newline", Kind::Symbols, vec![script_full(framing, nofinal)]));
        }
        // cancellation: drop the client after each server event of a 3-part transfer, at several split points
        let stride = if tier == Tier::Thorough { 1 } else { 4 };
        for k in (1..body.len()).step_by(stride) {
            for chunked in [false, true] {
                let s = script_split(body, &[k, (k + body.len()) / 2], chunked);
                for c in 0..s.events.len() - 1 {
                    let mut sc = base("cancel", Kind::Symbols, vec![s.clone()]);
                    sc.cancel_after = Some(c);
                    v.push(sc);
                }
            }
        }
    }
    // a body that already carries an INFO URL line of its own (a mirror filled from another cache): the
    // cached copy gets a second note and a later cache-only lookup must still report the download's URL
    {
        let with_url: Vec<u8> = [BODY, b"INFO URL https://upstream.example.org/foo.sym\nPUBLIC 7000 0 after_url\n"].concat();
        for framing in ["content-length", "chunked"] {
            v.push(base("body-with-info-url", Kind::Symbols, vec![script_full(framing, &with_url)]));
        }
    }
    // a line longer than the parser's window (> 160 KiB) in the middle of the body: it is discarded by the
    // parser but every byte of it still belongs in the cache file
    {
        let mut long = BODY.to_vec();
        long.extend_from_slice(b"PUBLIC 8000 0 ");
        long.extend(std::iter::repeat(b'x').take(170 * 1024));
        long.extend_from_slice(b"\nPUBLIC 9000 0 after_long_line\n");
        v.push(base("over-long-line", Kind::Symbols, vec![script_full("content-length", &long)]));
        v.push(base("over-long-line", Kind::Symbols, vec![script_split(&long, &[BODY.len() + 5000, BODY.len() + 100_000], true)]));
        // the same line as the LAST line of the body, unterminated: whatever the download decides, the cached
        // copy must reload to the same table and URL
        let tail_long: Vec<u8> = long[..BODY.len() + 14 + 170 * 1024].to_vec();
        v.push(base("over-long-last-line-unterminated", Kind::Symbols, vec![script_full("content-length", &tail_long)]));
        v.push(base("over-long-last-line-unterminated", Kind::Symbols, vec![script_split(&tail_long, &[BODY.len() + 5000, BODY.len() + 100_000], true)]));
    }
    // a redirect that IS followed (same server, second connection): the URL reported for the download and the
    // URL noted in the cache entry must agree (a cache-only lookup later reports the noted one)
    for st in [301u16, 302, 307] {
        let mut sfull = script_full("content-length", BODY);
        let mut events = vec![Ev::Send(format!("HTTP/1.1 {st} X\r\nLocation: /mirror/elsewhere/foo.sym\r\nContent-Length: 0\r\nConnection: close\r\n\r\n").into_bytes()), Ev::Close];
        events.append(&mut sfull.events);
        v.push(base("followed-redirect", Kind::Symbols, vec![Script { label: format!("{st} to another path on the same server, then 200 content-length full"), events, delivered: Some(BODY.to_vec()) }]));
    }
    // error statuses and empty bodies
    for st in [404u16, 500, 503, 301, 302, 204] {
        let mut sc = base("status", Kind::Symbols, vec![script_status(st)]);
        if st == 301 || st == 302 {
            sc.timeout_ms = 400; // the redirect target is never served: the client gives up by its own timeout
        }
        v.push(sc);
    }
    v.push(base("empty-body", Kind::Symbols, vec![script_full("content-length", b"")]));
    v.push(base("empty-body", Kind::Symbols, vec![script_full("chunked", b"")]));
    // stalled server: headers + half the body, then nothing until the client's own timeout
    {
        let mut s = script_cut("content-length", BODY, BODY.len() / 2);
        s.events.pop(); // never close
        s.label = "200 content-length, half the body, then stall".into();
        let mut sc = base("stall", Kind::Symbols, vec![s]);
        sc.timeout_ms = 300;
        v.push(sc);
    }
    // pre-existing cache entry: served without any request
    for pre in [BODY.to_vec(), [BODY, b"INFO URL http://elsewhere.example/foo.sym\n"].concat()] {
        let mut sc = base("preexisting-entry", Kind::Symbols, vec![script_full("content-length", b"MODULE a b c d\nPUBLIC 1 0 wrong\n")]);
        sc.preexisting = Some(pre);
        v.push(sc);
    }
    // unusable cache / tmp directories: the download must still succeed, nothing may be left behind
    for broken in [1u8, 2] {
        for framing in ["content-length", "chunked"] {
            let mut sc = base("broken-dirs", Kind::Symbols, vec![script_full(framing, BODY)]);
            sc.broken_dirs = broken;
            v.push(sc);
        }
    }
    // the tmp directory does not exist when the download begins and appears in the middle of it: caching was given up
    // at the start, so nothing may be cached (never a part of the file)
    for k in [1usize, BODY.len() / 2, BODY.len() - 1] {
        for framing in ["content-length", "chunked"] {
            let head = if framing == "chunked" { head_chunked() } else { head_cl(BODY.len()) };
            let part = |b: &[u8]| if framing == "chunked" { chunk_frame(b) } else { b.to_vec() };
            let mut events = vec![Ev::Send(head), Ev::Send(part(&BODY[..k])), Ev::Pause(25), Ev::MakeTmpDir, Ev::Pause(5), Ev::Send(part(&BODY[k..]))];
            if framing == "chunked" {
                events.push(Ev::Send(b"0\r\n\r\n".to_vec()));
            }
            events.push(Ev::Close);
            let mut sc = base("tmp-dir-appears-mid-download", Kind::Symbols, vec![Script { label: format!("200 {framing}, {k} bytes, pause, the tmp directory is created, the rest"), events, delivered: Some(BODY.to_vec()) }]);
            sc.broken_dirs = 2;
            v.push(sc);
        }
    }
    // a directory sits at the path of the cache entry: nothing can be cached, nothing may be left in tmp
    for framing in ["content-length", "chunked"] {
        let mut sc = base("directory-at-the-cache-path", Kind::Symbols, vec![script_full(framing, BODY)]);
        sc.dir_at_cache_path = true;
        v.push(sc);
    }
    // two servers: the first fails in some way, the second delivers
    let second_body: Vec<u8> = [BODY, b"PUBLIC 9000 0 from_second_server\n"].concat();
    let firsts: Vec<Script> = vec![script_status(404), script_status(500), script_cut("content-length", BODY, 60), script_cut("chunked", BODY, 100), {
        let mut s = script_full("content-length", &corrupt(BODY, 2));
        s.label += " (line 2 corrupt)";
        s
    }];
    for f in firsts {
        v.push(base("two-servers", Kind::Symbols, vec![f, script_full("content-length", &second_body)]));
    }
    // histories: a failed download followed by a successful one (fresh supplier, same directories)
    for k in [0usize, 1, 57, 100, BODY.len() - 1] {
        for framing in ["content-length", "chunked"] {
            let mut sc = base("history:fail-then-succeed", Kind::Symbols, vec![script_cut(framing, BODY, k)]);
            sc.then = Some(script_full("content-length", &second_body));
            v.push(sc);
        }
    }
    {
        let mut sc = base("history:cancel-then-succeed", Kind::Symbols, vec![script_split(BODY, &[50, 120], false)]);
        sc.cancel_after = Some(2);
        sc.then = Some(script_full("chunked", &second_body));
        v.push(sc);
    }
    // opaque file downloads (binary / extra debug info): every cut point, splits, cancellation
    for fk in [FileKind::Binary, FileKind::ExtraDebugInfo] {
        for framing in ["content-length", "chunked", "close-delimited"] {
            for k in 0..=BLOB.len() {
                v.push(base(&format!("file-cut:{framing}"), Kind::File(fk), vec![script_cut(framing, BLOB, k)]));
            }
        }
        for k in (1..BLOB.len()).step_by(9) {
            let s = script_split(BLOB, &[k], false);
            for c in 0..s.events.len() - 1 {
                let mut sc = base("file-cancel", Kind::File(fk), vec![s.clone()]);
                sc.cancel_after = Some(c);
                v.push(sc);
            }
        }
        for st in [404u16, 500] {
            v.push(base("file-status", Kind::File(fk), vec![script_status(st)]));
        }
    }
    v
}

fn module() -> SimpleModule {
    SimpleModule::from_basic_info(Some("foo.pdb".into()), Some(debugid::DebugId::from_str(DEBUG_ID).unwrap()), Some("foo.dll".into()), Some(debugid::CodeId::new("5A9832E5287241C1".into())))
}

thread_local! {
    static RT: tokio::runtime::Runtime = tokio::runtime::Builder::new_current_thread().enable_all().build().expect("tokio runtime");
}

enum RunResult {
    Symbols(Result<LocateSymbolsResult, SymbolError>),
    File(Result<PathBuf, FileError>),
    Cancelled,
}
impl RunResult {
    fn is_ok(&self) -> bool {
        matches!(self, RunResult::Symbols(Ok(_)) | RunResult::File(Ok(_)))
    }
    fn label(&self) -> &'static str {
        match self {
            RunResult::Symbols(Ok(_)) | RunResult::File(Ok(_)) => "Ok",
            RunResult::Cancelled => "cancelled",
            _ => "Err",
        }
    }
}

/// run one request against freshly started servers; returns the result and the request log of each server
fn run_once(kind: &Kind, scripts: &[Script], cancel_after: Option<usize>, cache: &Path, tmp: &Path, timeout_ms: u64) -> (RunResult, Vec<Vec<String>>, Vec<String>) {
    let servers: Vec<Server> = scripts.iter().map(|_| start_server()).collect();
    let urls: Vec<String> = servers.iter().map(|s| s.url()).collect();
    for s in &servers {
        TMP_DIRS.lock().unwrap().insert(s.port, tmp.to_path_buf());
    }
    let supplier = Arc::new(HttpSymbolSupplier::new(urls.clone(), cache.to_path_buf(), tmp.to_path_buf(), vec![], Duration::from_millis(timeout_ms)));
    let polls = Arc::new(AtomicU64::new(0));
    let res = RT.with(|rt| {
        rt.block_on(async {
            // servers other than the first get their whole script up front (they only act once connected)
            for (s, sc) in servers.iter().zip(scripts).skip(if cancel_after.is_some() { 1 } else { 0 }) {
                for e in &sc.events {
                    let _ = s.tx.send(e.clone());
                }
            }
            // the client runs as its own task, so it is polled only when IT is woken
            let (sup, kind2, polls2) = (supplier.clone(), kind.clone(), polls.clone());
            let task = tokio::spawn(async move {
                let m = module();
                let fut = async {
                    match kind2 {
                        Kind::Symbols => RunResult::Symbols(sup.locate_symbols(&m).await),
                        Kind::File(fk) => RunResult::File(sup.locate_file(&m, fk).await),
                    }
                };
                let mut fut = std::pin::pin!(fut);
                std::future::poll_fn(|cx| {
                    polls2.fetch_add(1, SeqCst);
                    fut.as_mut().poll(cx)
                })
                .await
            });
            match cancel_after {
                None => task.await.expect("client task"),
                Some(c) => {
                    for e in &scripts[0].events[..=c] {
                        let _ = servers[0].tx.send(e.clone());
                    }
                    // let the client reach quiescence (not polled during 4 consecutive 5 ms ticks), then abandon it
                    let mut last = u64::MAX;
                    let mut same = 0;
                    while !task.is_finished() {
                        tokio::time::sleep(Duration::from_millis(5)).await;
                        let p = polls.load(SeqCst);
                        if p == last && p > 0 {
                            same += 1;
                            if same >= 4 {
                                break;
                            }
                        } else {
                            same = 0;
                            last = p;
                        }
                    }
                    task.abort();
                    match task.await {
                        Ok(r) => r,
                        Err(e) if e.is_cancelled() => RunResult::Cancelled,
                        Err(e) => std::panic::resume_unwind(e.into_panic()),
                    }
                }
            }
        })
    });
    drop(supplier);
    let logs: Vec<Vec<String>> = servers.iter().map(|s| s.log.lock().unwrap().clone()).collect();
    for s in servers {
        TMP_DIRS.lock().unwrap().remove(&s.port);
        s.stop();
    }
    (res, logs, urls)
}

fn check_scenario(sc: &Scenario, l: &mut Local) {
    let t0 = std::time::Instant::now();
    check_scenario_inner(sc, l);
    if std::env::var("C16_TIMING").is_ok() {
        l.count(&format!("ms:{}", sc.class), t0.elapsed().as_millis() as u64);
        l.count(&format!("n:{}", sc.class), 1);
    }
}
fn check_scenario_inner(sc: &Scenario, l: &mut Local) {
    let dir = tempfile::tempdir().expect("tempdir");
    let (cache, tmp) = match sc.broken_dirs {
        1 => {
            std::fs::write(dir.path().join("afile"), b"x").unwrap();
            let t = dir.path().join("tmp");
            std::fs::create_dir_all(&t).unwrap();
            (dir.path().join("afile").join("cache"), t)
        }
        2 => {
            let c = dir.path().join("cache");
            std::fs::create_dir_all(&c).unwrap();
            (c, dir.path().join("no-such-dir").join("tmp"))
        }
        _ => {
            let (c, t) = (dir.path().join("cache"), dir.path().join("tmp"));
            std::fs::create_dir_all(&c).unwrap();
            std::fs::create_dir_all(&t).unwrap();
            (c, t)
        }
    };
    let rel = match &sc.kind {
        Kind::Symbols => REL.to_string(),
        Kind::File(FileKind::Binary) => "foo.pdb/ABCD1234ABCD1234ABCDABCD12345678a/foo.dll".to_string(),
        Kind::File(_) => "foo.pdb/ABCD1234ABCD1234ABCDABCD12345678a/foo.pdb".to_string(),
    };
    if sc.dir_at_cache_path {
        std::fs::create_dir_all(cache.join(&rel)).unwrap();
    }
    if let Some(pre) = &sc.preexisting {
        let p = cache.join(&rel);
        std::fs::create_dir_all(p.parent().unwrap()).unwrap();
        std::fs::write(&p, pre).unwrap();
    }
    let fail = |l: &mut Local, sig: &str, what: String| l.violation(format!("c16:{sig}"), what, json!({"scenario": sc.json()}));

    let mut steps: Vec<(&[Script], Option<usize>)> = vec![(&sc.scripts, sc.cancel_after)];
    let then_vec: Vec<Script> = sc.then.iter().cloned().collect();
    if sc.then.is_some() {
        steps.push((&then_vec, None));
    }
    let mut last_ok: Option<(LocateSymbolsResult, Vec<u8>)> = None;
    for (scripts, cancel) in steps {
        let restore = sc.fsize_limit.map(set_file_size_limit);
        let ran = guard(|| run_once(&sc.kind, scripts, cancel, &cache, &tmp, sc.timeout_ms));
        if let Some(old) = restore {
            set_file_size_limit(old);
        }
        let (res, logs, urls) = match ran {
            Ok(x) => x,
            Err(p) => {
                l.panic_violation(&p, json!({"scenario": sc.json()}));
                return;
            }
        };
        l.eval();
        l.outcome(&format!("{} -> {}", sc.class.split(':').next().unwrap_or(""), res.label()));
        let cf = if cache.exists() { files(&cache) } else { vec![] };
        let tf = if tmp.exists() { files(&tmp) } else { vec![] };
        l.distinct(&(&sc.class, res.label(), cf.len(), tf.len(), cf.first().map(|f| f.1.len())));
        if !tf.is_empty() {
            fail(l, "stray-temp-file", format!("{} file(s) left in the tmp directory after a run that ended {}", tf.len(), res.label()));
        }
        // which server delivered (the first whose transfer was well-formed and whose content parses)
        let winner = scripts.iter().position(|s| s.delivered.as_ref().is_some_and(|b| sc.kind != Kind::Symbols || SymbolFile::from_bytes(b).is_ok()));
        if sc.preexisting.is_some() {
            // must be served from the cache with zero requests and left untouched
            if logs.iter().any(|l| !l.is_empty()) {
                fail(l, "request-despite-cache-entry", format!("server saw requests {:?} although the cache already holds the entry", logs));
            }
            if cf.len() != 1 || &cf[0].1 != sc.preexisting.as_ref().unwrap() {
                fail(l, "cache-entry-modified", "the pre-existing cache entry was changed or joined by other files".into());
            }
            match &res {
                RunResult::Symbols(Ok(r)) => {
                    let want = SymbolFile::from_bytes(sc.preexisting.as_ref().unwrap()).expect("preexisting parses");
                    if r.symbols != want {
                        fail(l, "cache-hit-differs", "lookup served from the cache differs from parsing the cached file".into());
                    }
                }
                _ => fail(l, "cache-hit-failed", format!("lookup with a valid cache entry ended {}", res.label())),
            }
            continue;
        }
        if sc.broken_dirs != 0 {
            if !cf.is_empty() {
                fail(l, "file-in-unusable-cache", format!("{} file(s) under an unusable cache root", cf.len()));
            }
            match (&sc.kind, &res) {
                (Kind::Symbols, RunResult::Symbols(Ok(r))) => {
                    if r.symbols.url.is_none() {
                        fail(l, "url-missing", "downloaded symbols carry no url".into());
                    }
                }
                (Kind::Symbols, _) => fail(l, "download-fails-when-cache-unusable", "caching is optional, yet the lookup failed because the cache/tmp directory is unusable".into()),
                _ => {}
            }
            continue;
        }
        match &res {
            RunResult::Symbols(Ok(_)) | RunResult::File(Ok(_)) => {
                let Some(w) = winner else {
                    fail(l, "ok-without-complete-download", format!("lookup ended Ok although no server delivered a complete, parseable file ({:?})", scripts.iter().map(|s| &s.label).collect::<Vec<_>>()));
                    continue;
                };
                // expected URL: base + request target the winning server saw
                let target = logs[w].first().and_then(|l| l.split_whitespace().nth(1)).unwrap_or("").to_string();
                let url = format!("{}{}", urls[w].trim_end_matches('/'), target);
                let mut want = scripts[w].delivered.clone().unwrap();
                // the note follows the downloaded bytes; after an unterminated last line it may start on a line
                // of its own (what it must do for the reload below to see it) or directly
                let mut want_sep: Option<Vec<u8>> = None;
                if sc.kind == Kind::Symbols {
                    if want.last().is_some_and(|b| *b != b'\n') {
                        want_sep = Some([&want[..], format!("\nINFO URL {url}\n").as_bytes()].concat());
                    }
                    want.extend_from_slice(format!("INFO URL {url}\n").as_bytes());
                }
                if (sc.fsize_limit.is_some() || sc.dir_at_cache_path) && cf.is_empty() {
                    // the quota cut the cache copy: caching is optional, the download itself must still succeed
                    l.outcome("disk-quota: no cache entry");
                } else if cf.len() != 1 || cf[0].0 != rel {
                    fail(l, "cache-entry-count-or-path", format!("after an Ok run the cache holds {:?}, expected exactly [{rel}]", cf.iter().map(|f| &f.0).collect::<Vec<_>>()));
                } else if cf[0].1 != want && Some(&cf[0].1) != want_sep.as_ref() {
                    fail(l, "cache-content", format!("cache file ({} bytes) is not the downloaded bytes{} ({} bytes)", cf[0].1.len(), if sc.kind == Kind::Symbols { " followed by the INFO URL note" } else { "" }, want.len()));
                }
                match res {
                    RunResult::Symbols(Ok(r)) => {
                        if r.symbols.url.as_deref() != Some(url.as_str()) {
                            fail(l, "url", format!("SymbolFile.url = {:?}, the request went to {url}", r.symbols.url));
                        }
                        let mut direct = SymbolFile::from_bytes(scripts[w].delivered.as_ref().unwrap()).expect("winner parses");
                        direct.url = r.symbols.url.clone();
                        if direct != r.symbols {
                            fail(l, "downloaded-table-differs", "symbol table from the download differs from parsing the same bytes at once".into());
                        }
                        if !cf.is_empty() {
                            last_ok = Some((r, cf.first().map(|f| f.1.clone()).unwrap_or_default()));
                        }
                    }
                    RunResult::File(Ok(p)) => {
                        if p != cache.join(&rel) {
                            fail(l, "file-path", format!("locate_file returned {p:?}, expected {:?}", cache.join(&rel)));
                        }
                    }
                    _ => {}
                }
            }
            _ => {
                if !cf.is_empty() {
                    fail(l, "entry-after-failed-or-abandoned-download", format!("run ended {} yet the cache holds {:?}", res.label(), cf.iter().map(|f| (&f.0, f.1.len())).collect::<Vec<_>>()));
                }
                // a complete well-formed delivery of a parseable file must succeed (unless abandoned)
                if sc.fsize_limit.is_some() && matches!(sc.kind, Kind::File(_)) {
                    // the product of an opaque download IS the cache file: with no room for it the lookup fails
                    l.outcome("disk-quota: file lookup fails");
                } else if cancel.is_none() {
                    if let Some(w) = winner {
                        let complete_valid = sc.kind != Kind::Symbols || scripts[w].delivered.as_ref().is_some_and(|b| b.last() == Some(&b'\n'));
                        if complete_valid {
                            fail(l, "complete-download-fails", format!("server {w} delivered a complete parseable file but the lookup failed"));
                        }
                    }
                }
            }
        }
    }
    // later lookup served from the cache without network access
    if let Some((orig, cached_bytes)) = last_ok {
        let s2 = HttpSymbolSupplier::new(vec!["http://127.0.0.1:1/".into()], cache.clone(), tmp.clone(), vec![], Duration::from_millis(500));
        let m = module();
        match guard(|| RT.with(|rt| rt.block_on(s2.locate_symbols(&m)))) {
            Ok(Ok(r2)) => {
                l.eval();
                if r2.symbols != orig.symbols {
                    fail(l, "cached-reload-differs", format!("offline reload differs from the original download (url {:?} vs {:?})", r2.symbols.url, orig.symbols.url));
                }
                if files(&cache).first().map(|f| &f.1) != Some(&cached_bytes) {
                    fail(l, "cache-changed-by-reload", "the offline reload modified the cache entry".into());
                }
            }
            Ok(Err(e)) => fail(l, "cached-reload-fails", format!("offline reload of a cached entry fails: {e}")),
            Err(p) => l.panic_violation(&p, json!({"scenario": sc.json(), "step": "offline reload"})),
        }
    }
}

/// Sets the soft RLIMIT_FSIZE of this process (SIGXFSZ ignored) and returns the previous soft limit.
fn set_file_size_limit(limit: u64) -> u64 {
    unsafe {
        libc::signal(libc::SIGXFSZ, libc::SIG_IGN);
        let mut cur = libc::rlimit { rlim_cur: 0, rlim_max: 0 };
        assert_eq!(libc::getrlimit(libc::RLIMIT_FSIZE, &mut cur), 0, "harness: getrlimit");
        let old = cur.rlim_cur;
        cur.rlim_cur = limit.min(cur.rlim_max);
        assert_eq!(libc::setrlimit(libc::RLIMIT_FSIZE, &cur), 0, "harness: setrlimit");
        old
    }
}

/// disk-quota scenarios: the whole body is delivered, but no file may grow past `limit` bytes: every limit from 0
/// to body + note (the cut falls inside the body copy, exactly at its end, at every byte of the note, or nowhere)
fn quota_scenarios() -> Vec<Scenario> {
    let note_len = 160u64; // longer than any note written here ("INFO URL http://127.0.0.1:<port>/<rel>?code_file=..&code_id=..")
    let mut v = vec![];
    let mut limits: Vec<u64> = vec![0, 1, BODY.len() as u64 / 2, BODY.len() as u64 - 1];
    limits.extend((0..=note_len).map(|k| BODY.len() as u64 + k));
    for limit in limits {
        for framing in ["content-length", "chunked"] {
            v.push(Scenario { class: "disk-quota".into(), kind: Kind::Symbols, scripts: vec![script_full(framing, BODY)], cancel_after: None, preexisting: None, broken_dirs: 0, then: None, timeout_ms: 60_000, fsize_limit: Some(limit), dir_at_cache_path: false });
        }
    }
    // opaque downloads: every limit from 0 to one past the file (a short write of the last piece must not be
    // taken for a complete file), whole and in two pieces
    for fk in [FileKind::Binary, FileKind::ExtraDebugInfo] {
        for limit in 0..=BLOB.len() as u64 + 1 {
            for script in [script_full("content-length", BLOB), script_full("chunked", BLOB), script_split(BLOB, &[BLOB.len() / 2], false)] {
                v.push(Scenario { class: "disk-quota-file".into(), kind: Kind::File(fk), scripts: vec![script], cancel_after: None, preexisting: None, broken_dirs: 0, then: None, timeout_ms: 60_000, fsize_limit: Some(limit), dir_at_cache_path: false });
            }
        }
    }
    v
}

/// A module whose debug file carries one of the extensions the lookups rewrite (`foo.sym`, `foo.pdb`, `foo.dll`): first
/// the debug file itself is fetched (an opaque download into the cache), then the symbols are looked up. The opaque
/// download is no symbol file: the symbol lookup must download and parse the real one (which the server has), and a
/// cache-only reload must give the same table.
fn check_name_collision(which: u64, l: &mut Local) {
    let dir = tempfile::tempdir().expect("tempdir");
    let (cache, tmp) = (dir.path().join("cache"), dir.path().join("tmp"));
    std::fs::create_dir_all(&cache).unwrap();
    std::fs::create_dir_all(&tmp).unwrap();
    let name = ["foo.sym", "foo.pdb", "foo.dll", "foo"][which as usize];
    let id = debugid::DebugId::from_str(DEBUG_ID).expect("id");
    let m = SimpleModule::from_basic_info(Some(name.into()), Some(id), Some(name.into()), Some(debugid::CodeId::new("5a9832e5287241c1".into())));
    let server = start_server();
    // one connection per request (the scripted server closes after each answer and says so)
    for body in [BLOB, BODY] {
        let head = format!("HTTP/1.1 200 OK\r\nContent-Length: {}\r\nConnection: close\r\n\r\n", body.len()).into_bytes();
        for e in [Ev::Send(head), Ev::Send(body.to_vec()), Ev::Close] {
            let _ = server.tx.send(e);
        }
    }
    let supplier = HttpSymbolSupplier::new(vec![server.url()], cache.clone(), tmp.clone(), vec![], Duration::from_millis(60_000));
    let res = guard(|| {
        RT.with(|rt| {
            rt.block_on(async {
                let f = supplier.locate_file(&m, FileKind::ExtraDebugInfo).await;
                let s = supplier.locate_symbols(&m).await;
                (f, s)
            })
        })
    });
    l.eval();
    let log = server.log.lock().unwrap().clone();
    server.stop();
    let detail = json!({"debug_file": name, "requests": log});
    match res {
        Ok((f, s)) => {
            l.outcome(&format!("name collision: file {} symbols {}", if f.is_ok() { "Ok" } else { "Err" }, if s.is_ok() { "Ok" } else { "Err" }));
            l.distinct(&("collision", which, f.is_ok(), s.is_ok()));
            if f.is_err() {
                l.violation("c16:name-collision:file-download-fails", format!("the opaque download of the debug file {name} fails: {:?}", f.err()), detail.clone());
            }
            match s {
                Ok(r) => {
                    let mut direct = SymbolFile::from_bytes(BODY).expect("body parses");
                    direct.url = r.symbols.url.clone();
                    if direct != r.symbols {
                        l.violation("c16:name-collision:symbols-differ", format!("symbols of a module whose debug file is {name}: the table differs from the served symbol file"), detail.clone());
                    }
                    // cache-only reload
                    let s2 = HttpSymbolSupplier::new(vec!["http://127.0.0.1:1/".into()], cache.clone(), tmp.clone(), vec![], Duration::from_millis(500));
                    match guard(|| RT.with(|rt| rt.block_on(s2.locate_symbols(&m)))) {
                        Ok(Ok(r2)) if r2.symbols == r.symbols => {}
                        Ok(other) => l.violation("c16:cached-reload-differs", format!("debug file {name}: the offline reload gives {} where the download gave the served table", if other.is_ok() { "another table" } else { "an error" }), detail),
                        Err(p) => l.panic_violation(&p, detail),
                    }
                }
                Err(e) => l.violation("c16:name-collision:symbols-fail", format!("the server has the symbol file, but after the debug file {name} was fetched the symbol lookup fails: {e}"), detail),
            }
        }
        Err(p) => l.panic_violation(&p, detail),
    }
}

/// one supplier, the same file asked for twice: the second answer is the first (memoised), whether the first
/// was a download or a failure after which the file appeared in the cache directory
fn check_file_memo(which: u64, l: &mut Local) {
    let dir = tempfile::tempdir().expect("tempdir");
    let (cache, tmp) = (dir.path().join("cache"), dir.path().join("tmp"));
    std::fs::create_dir_all(&cache).unwrap();
    std::fs::create_dir_all(&tmp).unwrap();
    let fk = if which % 2 == 0 { FileKind::Binary } else { FileKind::ExtraDebugInfo };
    let fail_first = which / 2 == 1;
    let rel = if which % 2 == 0 { "foo.pdb/ABCD1234ABCD1234ABCDABCD12345678a/foo.dll" } else { "foo.pdb/ABCD1234ABCD1234ABCDABCD12345678a/foo.pdb" };
    let server = start_server();
    let script = if fail_first { script_status(404) } else { script_full("content-length", BLOB) };
    for e in &script.events {
        let _ = server.tx.send(e.clone());
    }
    let supplier = HttpSymbolSupplier::new(vec![server.url()], cache.clone(), tmp.clone(), vec![], Duration::from_millis(60_000));
    let m = module();
    let res = guard(|| {
        RT.with(|rt| {
            rt.block_on(async {
                let r1 = supplier.locate_file_internal(&m, fk).await;
                if fail_first {
                    // the file shows up in the shared cache directory (another process put it there)
                    let p = cache.join(rel);
                    std::fs::create_dir_all(p.parent().unwrap()).unwrap();
                    std::fs::write(&p, BLOB).unwrap();
                }
                let r2 = supplier.locate_file_internal(&m, fk).await;
                (r1, r2)
            })
        })
    });
    l.eval();
    server.stop();
    let detail = json!({"file_kind": format!("{fk:?}"), "first_request": if fail_first { "404, then the file appears in the cache directory" } else { "200 full download" }});
    match res {
        Ok((r1, r2)) => {
            let show = |r: &Result<(PathBuf, Option<reqwest::Url>), FileError>| match r {
                Ok((p, u)) => format!("Ok({}, {:?})", p.strip_prefix(&cache).unwrap_or(p).display(), u.as_ref().map(|u| u.path().to_string())),
                Err(e) => format!("Err({e:?})"),
            };
            l.outcome(&format!("file memo: first {} second {}", if r1.is_ok() { "Ok" } else { "Err" }, if r2.is_ok() { "Ok" } else { "Err" }));
            l.distinct(&("memo", which, r1.is_ok(), r2.is_ok()));
            if show(&r1) != show(&r2) {
                l.violation("c16:file-lookup-not-memoised", format!("two lookups of one file on one supplier observed different outcomes: {} then {}", show(&r1), show(&r2)), detail);
            }
        }
        Err(p) => l.panic_violation(&p, detail),
    }
}

fn main() {
    run_check("C16", |ctx| {
        let scs = Arc::new(scenarios(ctx.tier));
        let mut def = CheckDef::new(
            "C16",
            "fault_enumeration",
            "every scenario of a finite script space is run against the real HttpSymbolSupplier over loopback TCP: connection cut after EVERY byte count of the body under content-length / chunked / close-delimited framing; every two-chunk split; 1-byte and 7-byte trickles; each line corrupted; missing final newline; whole lines, a pause, part of the next line, close (the partial line arrives as a chunk of its own); a body with its own INFO URL line; a line longer than the parser window; error and redirect statuses; stall until the client timeout; client future dropped after each server event (at several split points) once the client has quiesced; pre-existing cache entry; unusable cache / tmp directories; a tmp directory that appears in the middle of the download; two servers (first fails in 5 ways); failure-then-success histories; a file-size quota (RLIMIT_FSIZE in sandboxed workers) that cuts the cache copy at every byte from 0 to body + note (inside the body, exactly at its end, inside the note); the same cuts and cancellations for opaque file downloads (binary, extra debug info). After each run cache/ and tmp/ are walked; after each success a fresh supplier with a dead server reloads from the cache. distinct_nontrivial = distinct (scenario class, outcome, cache file count, tmp file count, cached size).",
        );
        def.assumptions = vec![
            "poll boundaries inside hyper/tokio are owned by the runtime and are not enumerated; cancellation points are 'after each server event, once the client made no progress for 20 ms' (the awaits of fetch_symbol_file: send(), each chunk())".into(),
            "running as root: chmod cannot make directories unwritable, so ENOTDIR (cache below a regular file) and a non-existent tmp directory stand in for unusable directories".into(),
            "a process kill (SIGKILL) mid-download is not enumerated (it may leave a temp file in tmp/, never in cache/)".into(),
            "close-delimited bodies cut at byte k are complete shorter bodies by HTTP's rules; whether they are cached is decided by whether they parse".into(),
        ];
        let (s1, s2) = (scs.clone(), scs.clone());
        def.spaces.push(Space::new("scenarios", scs.len() as u64, move |i, l| check_scenario(&s1[i as usize], l), move |i| s2[i as usize].json()).chunked(4).wall(60_000));
        let qs = Arc::new(quota_scenarios());
        let (q1, q2) = (qs.clone(), qs.clone());
        def.spaces.push(Space::new("disk-quota", qs.len() as u64, move |i, l| check_scenario(&q1[i as usize], l), move |i| q2[i as usize].json()).sandboxed(Sandbox { wall_ms: 60_000, hard_cap: 1 << 30, chunk: 32 }));
        def.spaces.push(Space::new("debug-file-name-collisions", 4, check_name_collision, |i| json!({"debug_file": (["foo.sym", "foo.pdb", "foo.dll", "foo"][i as usize])})).chunked(1).wall(120_000));
        def.spaces.push(Space::new("file-memo", 4, check_file_memo, |i| json!({"file_kind": (if i % 2 == 0 { "Binary" } else { "ExtraDebugInfo" }), "first_request_fails": i / 2 == 1})).chunked(1).wall(120_000));
        def
    })
}
