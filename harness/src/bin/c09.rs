//! C09 — parsing a symbol file is total and bounded (normal build: real buffer constants,
//! INITIAL 10 KiB / MAX 160 KiB). Part (d) of DESIGN §3 C09 (scaled small-buffer build) lives in
//! a separate binary.
//!
//! Every case is parsed through `SymbolFile::parse(reader, callback)` with a counting reader /
//! callback pair that asserts, at every read, `bytes_read - bytes_passed_to_callback <=
//! MAX_BUFFER_CAPACITY` (the "fixed-size window"), under a panic guard, inside sandbox workers
//! (hang and runaway allocation become verdicts). Spaces:
//!  * `bytes3`   every byte string of length <= 3, alone and after a valid MODULE line;
//!  * `fields`   one line of every record kind, 0 / 1 / 2 fields replaced by boundary tokens,
//!               4 line terminators;
//!  * `seqs`     every sequence of <= 3 (thorough: 5) lines over 39 record shapes;
//!  * `corrupt`  a valid file with every record kind: every byte replaced by every value, every
//!               byte deleted;
//!  * `longline` real-constant long lines: lengths around every buffer threshold
//!               (10/20/40/80/160 KiB -2..+1) and far over MAX, 6 line kinds, 4 prefixes,
//!               5 suffixes (incl. data without a final newline after the long line), LF/CRLF,
//!               3 read chunkings; a line longer than MAX must be dropped: `Ok` and equal to the
//!               parse of the file without that line.
use breakpad_symbols::{SymbolError, SymbolFile};
use std::cell::Cell;
use std::io::Read;
use std::rc::Rc;
use vh::alloc;
use vh::*;

const MAX: usize = 160 * 1024;
const WALL_MS: u64 = 5_000;
/// consecutive zero-byte reads after which the counting reader declares a livelock (a correct parser
/// polls an exhausted / full reader at most a handful of times before it grows, recovers or returns)
const ZERO_READ_LIMIT: usize = 1_000;
const HARD_CAP: usize = 256 << 20;
const MODULE: &[u8] = b"MODULE Linux x86 000102030405060708090a0b0c0d0e0f0 m\n";

// ---------------------------------------------------------------------------------------------
// counting reader / callback

#[derive(Default)]
struct Counts {
    read: Cell<usize>,
    cb: Cell<usize>,
    worst_gap: Cell<usize>,
    reads: Cell<u64>,
    largest_request: Cell<usize>,
    cb_overrun: Cell<bool>,
    livelock: Cell<bool>,
}
impl Counts {
    fn gap(&self) {
        match self.read.get().checked_sub(self.cb.get()) {
            Some(g) => self.worst_gap.set(self.worst_gap.get().max(g)),
            None => self.cb_overrun.set(true),
        }
    }
}
struct CountingReader<'a> {
    data: &'a [u8],
    pos: usize,
    chunk: usize,
    zero_streak: usize,
    c: Rc<Counts>,
}
impl Read for CountingReader<'_> {
    fn read(&mut self, buf: &mut [u8]) -> std::io::Result<usize> {
        let c = &self.c;
        c.reads.set(c.reads.get() + 1);
        c.largest_request.set(c.largest_request.get().max(buf.len()));
        c.gap();
        let n = buf.len().min(self.chunk).min(self.data.len() - self.pos);
        if n == 0 {
            self.zero_streak += 1;
            if self.zero_streak > ZERO_READ_LIMIT {
                // deterministic, load-independent hang verdict: end the parse through an I/O error
                c.livelock.set(true);
                return Err(std::io::Error::other("verif: reader polled without progress"));
            }
        } else {
            self.zero_streak = 0;
        }
        buf[..n].copy_from_slice(&self.data[self.pos..self.pos + n]);
        self.pos += n;
        c.read.set(c.read.get() + n);
        c.gap();
        Ok(n)
    }
}

/// Parse `input` through the counting pair; report panics and window violations. None = panicked.
fn parse_checked(input: &[u8], chunk: usize, l: &mut Local, point: &str) -> Option<Result<SymbolFile, SymbolError>> {
    let c = Rc::new(Counts::default());
    let c2 = c.clone();
    let reader = CountingReader { data: input, pos: 0, chunk: chunk.max(1), zero_streak: 0, c: c.clone() };
    l.eval();
    let r = guard(move || {
        SymbolFile::parse(reader, move |b: &[u8]| {
            c2.cb.set(c2.cb.get() + b.len());
            c2.gap();
        })
    });
    l.count("reads", c.reads.get());
    if c.worst_gap.get() > MAX || c.largest_request.get() > MAX {
        l.violation(
            format!("window@{point}: unparsed bytes held exceed MAX_BUFFER_CAPACITY"),
            format!("bytes_read - bytes_passed_to_callback reached {} (largest read request {}), MAX_BUFFER_CAPACITY = {MAX}", c.worst_gap.get(), c.largest_request.get()),
            json!({"worst_gap": c.worst_gap.get(), "largest_request": c.largest_request.get(), "input_len": input.len(), "chunk": chunk}),
        );
    }
    if c.livelock.get() {
        l.violation(
            format!("hang@{point}: reader polled {ZERO_READ_LIMIT}+ times in a row without progress (parse loop does not terminate)"),
            format!("after {} bytes read / {} bytes handed to the callback the parser kept calling read() on an exhausted or full reader more than {ZERO_READ_LIMIT} times in a row", c.read.get(), c.cb.get()),
            json!({"input_len": input.len(), "chunk": chunk, "bytes_read": c.read.get(), "bytes_to_callback": c.cb.get()}),
        );
        return None;
    }
    if c.cb_overrun.get() {
        l.violation(format!("window@{point}: callback received more bytes than were read"), "callback total exceeds bytes read".to_string(), json!({"input_len": input.len()}));
    }
    match r {
        Ok(res) => {
            if res.is_ok() && c.cb.get() != input.len() {
                // the statement only bounds the window; that a successful parse hands every byte to the
                // callback belongs to C10 — counted, not judged, here
                l.count("ok_but_callback_short", 1);
            }
            Some(res)
        }
        Err(p) => {
            l.panic_violation(&p, json!({"point": point, "input_len": input.len()}));
            None
        }
    }
}

fn shape(r: &Result<SymbolFile, SymbolError>) -> String {
    match r {
        Ok(s) => format!(
            "Ok files={} publics={} funcs={} cfi={} winfd={} winfpo={} origins={} url={}",
            s.files.len(),
            s.publics.len(),
            s.functions.ranges_values().count(),
            s.cfi_stack_info.ranges_values().count(),
            s.win_stack_framedata_info.ranges_values().count(),
            s.win_stack_fpo_info.ranges_values().count(),
            s.inline_origins.len(),
            s.url.is_some()
        ),
        Err(e) => format!("Err {e}"),
    }
}
fn class(r: &Result<SymbolFile, SymbolError>) -> &'static str {
    match r {
        Ok(s) if s.publics.is_empty() && s.functions.ranges_values().next().is_none() && s.cfi_stack_info.ranges_values().next().is_none() && s.files.is_empty() => "Ok (no records)",
        Ok(_) => "Ok (with records)",
        Err(SymbolError::ParseError(m, _)) => {
            if m.starts_with("empty") {
                "Err(empty SymbolFile)"
            } else if m.starts_with("unexpected EOF") {
                "Err(unexpected EOF)"
            } else if m.starts_with("MODULE") {
                "Err(MODULE not first)"
            } else {
                "Err(failed to parse)"
            }
        }
        Err(_) => "Err(other)",
    }
}

/// Totality case: parse once through the counting pair (whole-buffer reads) and once through
/// `from_bytes`; both must return.
fn total_case(input: &[u8], l: &mut Local, part: &str) {
    let Some(r) = parse_checked(input, usize::MAX, l, "SymbolFile::parse") else {
        // panicked or live-locked: already reported; do not run the unmonitored entry point on it
        return;
    };
    l.outcome(class(&r));
    l.distinct(&(part, shape(&r)));
    l.eval();
    if let Err(p) = guard(|| SymbolFile::from_bytes(input).is_ok()) {
        l.panic_violation(&p, json!({"point": "SymbolFile::from_bytes"}));
    }
}

fn sb(chunk: u64) -> Sandbox {
    Sandbox { wall_ms: WALL_MS, hard_cap: HARD_CAP, chunk }
}
fn show(b: &[u8]) -> String {
    let s: String = b.iter().take(200).flat_map(|c| std::ascii::escape_default(*c)).map(|c| c as char).collect();
    if b.len() > 200 {
        format!("{s}... ({} bytes)", b.len())
    } else {
        s
    }
}

// ---------------------------------------------------------------------------------------------
// (a) all byte strings of length <= 3

fn nstrings(max_len: u32) -> u64 {
    (0..=max_len).map(|l| 256u64.pow(l)).sum()
}
fn string_of(mut idx: u64, max_len: u32) -> Vec<u8> {
    for l in 0..=max_len {
        let n = 256u64.pow(l);
        if idx < n {
            return (0..l).map(|i| (idx >> (8 * i)) as u8).collect();
        }
        idx -= n;
    }
    panic!("string_of out of range")
}
fn bytes3_space() -> Space {
    let n = nstrings(3);
    let blocks = n.div_ceil(256);
    Space::new(
        "bytes3",
        blocks,
        move |idx, l| {
            for k in idx * 256..((idx + 1) * 256).min(n) {
                let s = string_of(k, 3);
                total_case(&s, l, "a");
                let mut v = MODULE.to_vec();
                v.extend_from_slice(&s);
                total_case(&v, l, "a+module");
            }
        },
        move |idx| json!({"class": "bytes3", "strings": format!("all strings number {}..{} (by length, then little-endian value) alone and after a MODULE line", idx * 256, ((idx + 1) * 256).min(n)), "first": show(&string_of(idx * 256, 3))}),
    )
    .sandboxed(sb(64))
}

// ---------------------------------------------------------------------------------------------
// (b) field deviations

struct Tmpl {
    name: &'static str,
    before: &'static [u8],
    line: &'static str,
    after: &'static [u8],
}
const TMPLS: &[Tmpl] = &[
    Tmpl { name: "MODULE", before: b"", line: "MODULE Linux x86 abcd m", after: b"PUBLIC 10 0 p\n" },
    Tmpl { name: "INFO", before: MODULE, line: "INFO CODE_ID abcd x", after: b"" },
    Tmpl { name: "INFO URL", before: MODULE, line: "INFO URL http://x", after: b"" },
    Tmpl { name: "FILE", before: MODULE, line: "FILE 1 a.c", after: b"" },
    Tmpl { name: "INLINE_ORIGIN", before: MODULE, line: "INLINE_ORIGIN 1 f", after: b"" },
    Tmpl { name: "PUBLIC", before: MODULE, line: "PUBLIC 10 0 p q", after: b"" },
    Tmpl { name: "PUBLIC m", before: MODULE, line: "PUBLIC m 10 0 p", after: b"" },
    Tmpl { name: "FUNC", before: MODULE, line: "FUNC 10 5 0 f g", after: b"10 2 7 1\n" },
    Tmpl { name: "FUNC m", before: MODULE, line: "FUNC m 10 5 0 f", after: b"10 2 7 1\n" },
    Tmpl { name: "line", before: b"MODULE Linux x86 abcd m\nFILE 1 a.c\nFUNC 10 5 0 f\n", line: "10 2 7 1", after: b"12 3 8 1\n" },
    Tmpl { name: "INLINE", before: b"MODULE Linux x86 abcd m\nINLINE_ORIGIN 1 g\nFUNC 10 5 0 f\n", line: "INLINE 0 3 1 1 10 2 13 1", after: b"10 5 7 1\n" },
    Tmpl { name: "STACK WIN 4", before: MODULE, line: "STACK WIN 4 10 5 0 0 0 0 0 0 1 $eip 4 + ^ =", after: b"" },
    Tmpl { name: "STACK WIN 0", before: MODULE, line: "STACK WIN 0 10 5 0 0 0 0 0 0 0 1", after: b"" },
    Tmpl { name: "STACK CFI INIT", before: MODULE, line: "STACK CFI INIT 10 5 .cfa: $esp 4 + .ra: .cfa 4 - ^", after: b"STACK CFI 12 .cfa: $esp 8 +\n" },
    Tmpl { name: "STACK CFI", before: b"MODULE Linux x86 abcd m\nSTACK CFI INIT 10 5 .cfa: $esp 4 + .ra: .cfa 4 - ^\n", line: "STACK CFI 12 .cfa: $esp 8 +", after: b"" },
];
/// replacement tokens; None = the field and everything after it is missing
const REPL: &[Option<&[u8]>] = &[
    Some(b"0"), Some(b"1"), Some(b"ffffffff"), Some(b"ffffffffffffffff"), Some(b"fffffffffffffffff"), Some(b"4294967295"), Some(b"4294967296"),
    Some(b"zz"), Some(b""), Some(b"\xff\xfe"), Some(b"-1"), None,
    // digit strings past every accumulator: 2^64, 20 nines, 30 digits, 40 hex digits
    Some(b"18446744073709551616"), Some(b"99999999999999999999"), Some(b"123456789012345678901234567890"), Some(b"ffffffffffffffffffffffffffffffffffffffff"),
];
const TERMS: &[&[u8]] = &[b"\n", b"\r\n", b"\r\r\n", b""];

#[derive(Clone, Copy)]
enum Slot {
    Base(usize),
    One(usize, usize),
    Two(usize, usize, usize),
}
fn fields_space() -> Space {
    let r = REPL.len() as u64;
    let mut slots: Vec<(Slot, u64)> = vec![]; // (slot, first index)
    let mut acc = 0u64;
    for (t, tm) in TMPLS.iter().enumerate() {
        let n = tm.line.split(' ').count();
        slots.push((Slot::Base(t), acc));
        acc += 1;
        for i in 0..n {
            slots.push((Slot::One(t, i), acc));
            acc += r;
        }
        for i in 0..n {
            for j in i + 1..n {
                slots.push((Slot::Two(t, i, j), acc));
                acc += r * r;
            }
        }
    }
    let total = acc * TERMS.len() as u64;
    let slots = std::sync::Arc::new(slots);
    let build = move |idx: u64| -> (Vec<u8>, Value) {
        let term = TERMS[(idx % TERMS.len() as u64) as usize];
        let k = idx / TERMS.len() as u64;
        let si = slots.partition_point(|s| s.1 <= k) - 1;
        let (slot, first) = slots[si];
        let off = k - first;
        let (t, reps): (usize, Vec<(usize, Option<&[u8]>)>) = match slot {
            Slot::Base(t) => (t, vec![]),
            Slot::One(t, i) => (t, vec![(i, REPL[off as usize])]),
            Slot::Two(t, i, j) => (t, vec![(i, REPL[(off % r) as usize]), (j, REPL[(off / r) as usize])]),
        };
        let tm = &TMPLS[t];
        let mut line: Vec<u8> = vec![];
        'tok: for (n, tok) in tm.line.split(' ').enumerate() {
            let mut tok: &[u8] = tok.as_bytes();
            for (i, rep) in &reps {
                if *i == n {
                    match rep {
                        Some(x) => tok = x,
                        None => break 'tok,
                    }
                }
            }
            if n > 0 {
                line.push(b' ');
            }
            line.extend_from_slice(tok);
        }
        let mut v = tm.before.to_vec();
        v.extend_from_slice(&line);
        v.extend_from_slice(term);
        if !term.is_empty() {
            v.extend_from_slice(tm.after);
        }
        let d = json!({"class": "fields", "record": tm.name, "replaced": reps.iter().map(|(i, r)| json!({"field": i, "by": r.map(show).unwrap_or_else(|| "<missing from here>".into())})).collect::<Vec<_>>(), "terminator": show(term), "input": show(&v)});
        (v, d)
    };
    let b2 = build.clone();
    Space::new("fields", total, move |idx, l| total_case(&build(idx).0, l, "b"), move |idx| b2(idx).1).sandboxed(sb(2048))
}

// ---------------------------------------------------------------------------------------------
// (c) sequences of record shapes

const KINDS: &[&[u8]] = &[
    b"MODULE Linux x86 abcd m\n", b"INFO x\n", b"INFO URL http://x\n", b"FILE 1 a.c\n", b"INLINE_ORIGIN 1 f\n", b"PUBLIC 10 0 p\n", b"PUBLIC m 10 0 p\n",
    b"FUNC 10 5 0 f\n", b"FUNC m 10 5 0 f\n", b"10 2 7 1\n", b"INLINE 0 3 1 1 10 2\n", b"INLINE 1 3 1 1 10 1 12 1\n",
    b"STACK WIN 4 10 5 0 0 0 0 0 0 1 $eip 4 + ^ =\n", b"STACK WIN 0 10 5 0 0 0 0 0 0 0 1\n", b"STACK WIN 4 10 5 0 0 0 0 0 0 0 1\n", b"STACK WIN 3 10 5 0 0 0 0 0 0 0 1\n",
    b"STACK CFI INIT 10 5 .cfa: $esp 4 + .ra: .cfa 4 - ^\n", b"STACK CFI 12 .cfa: $esp 8 +\n", b"\n", b"\r\n", b"junk\n", b"FUNC 10 5 0 f",
    b"FUNC ffffffffffffffff ffffffff 0 f\n", b"ffffffffffffffff ffffffff 7 1\n", b"FUNC 10 0 0 f\n", b"STACK CFI INIT ffffffffffffffff 2 .cfa: 1\n",
    b"STACK WIN 4 ffffffffffffffff 2 0 0 0 0 0 0 1 x\n", b"FILE 99999999999 a\n", b"FUNC 100000000000000000 5 0 f\n", b"PUBLIC 10 0 \xff\xfe\n",
    // records that begin exactly on the last byte of `FUNC 10 5` / `STACK CFI INIT 10 5` / `STACK WIN .. 10 5`
    // (a one-byte overlap with different contents: the range-table repair must drop one, not fail)
    b"FUNC 14 5 0 g\n", b"STACK CFI INIT 14 5 .cfa: $esp 8 + .ra: .cfa 4 - ^\n", b"STACK WIN 4 14 5 0 0 0 0 0 0 1 $eip 8 + ^ =\n",
    // records with the SAME start as `.. 10 5` and another size (shorter): same start, different end
    // an inconsistent record (type 4 without a program) whose last argument is long and made of two-byte characters,
    // at both parities (whatever a diagnostic does with it, it is text, not bytes)
    "STACK WIN 4 20 5 0 0 0 0 0 0 0 \u{e9}\u{e9}\u{e9}\u{e9}\u{e9}\u{e9}\u{e9}\u{e9}\u{e9}\u{e9}\u{e9}\u{e9}\u{e9}\u{e9}\u{e9}\u{e9}\u{e9}\u{e9}\u{e9}\u{e9}\u{e9}\u{e9}\u{e9}\u{e9}\u{e9}\u{e9}\u{e9}\u{e9}\u{e9}\u{e9}\u{e9}\u{e9}\u{e9}\u{e9}\u{e9}\u{e9}\u{e9}\u{e9}\u{e9}\u{e9}\n".as_bytes(),
    "STACK WIN 4 20 5 0 0 0 0 0 0 0 a\u{e9}\u{e9}\u{e9}\u{e9}\u{e9}\u{e9}\u{e9}\u{e9}\u{e9}\u{e9}\u{e9}\u{e9}\u{e9}\u{e9}\u{e9}\u{e9}\u{e9}\u{e9}\u{e9}\u{e9}\u{e9}\u{e9}\u{e9}\u{e9}\u{e9}\u{e9}\u{e9}\u{e9}\u{e9}\u{e9}\u{e9}\u{e9}\u{e9}\u{e9}\u{e9}\u{e9}\u{e9}\u{e9}\u{e9}\u{e9}\n".as_bytes(),
    b"FUNC 10 3 0 h\n", b"STACK CFI INIT 10 3 .cfa: $esp 8 + .ra: .cfa 4 - ^\n", b"STACK WIN 4 10 3 0 0 0 0 0 0 1 $eip 8 + ^ =\n", b"STACK WIN 0 10 3 0 0 0 0 0 0 0 1\n",
];
fn seqs_space(depth: u32) -> Space {
    let k = KINDS.len() as u64;
    let n = seq_count(k, depth);
    let build = move |idx: u64| -> Vec<u8> {
        let mut v = vec![];
        for i in seq_unrank(idx, k, depth) {
            v.extend_from_slice(KINDS[i as usize]);
        }
        v
    };
    Space::new("seqs", n, move |idx, l| total_case(&build(idx), l, "c"), move |idx| json!({"class": "seqs", "lines": seq_unrank(idx, k, depth), "input": show(&build(idx))})).sandboxed(sb(2048))
}

// (c2) sequences of records at the very top of the address space (address + size = 2^64, 2^64 - 1, past it)
const TOP_KINDS: &[&[u8]] = &[
    b"FUNC fffffffffffffff0 10 0 a\n", b"FUNC ffffffffffffffef 10 0 b\n", b"FUNC ffffffffffffffff 1 0 c\n", b"FUNC 0 ffffffffffffffff 0 d\n", b"fffffffffffffff0 10 7 1\n",
    b"STACK CFI INIT fffffffffffffff0 10 .cfa: $esp 4 + .ra: .cfa 4 - ^\n", b"STACK CFI INIT ffffffffffffffef 10 .cfa: $esp 4 + .ra: .cfa 4 - ^\n", b"STACK CFI ffffffffffffffff .cfa: $esp 8 +\n",
    b"STACK WIN 4 fffffff0 10 0 0 0 0 0 0 1 $eip 4 + ^ =\n", b"STACK WIN 4 ffffffff 1 0 0 0 0 0 0 1 $eip 4 + ^ =\n", b"PUBLIC ffffffffffffffff 0 p\n", b"FUNC fffffffffffffff0 f 0 e\n",
];
fn top_seqs_space(depth: u32) -> Space {
    let k = TOP_KINDS.len() as u64;
    let n = seq_count(k, depth);
    let build = move |idx: u64| -> Vec<u8> {
        let mut v = b"MODULE Linux x86 abcd m\n".to_vec();
        for i in seq_unrank(idx, k, depth) {
            v.extend_from_slice(TOP_KINDS[i as usize]);
        }
        v
    };
    Space::new("top-of-address-space-seqs", n, move |idx, l| total_case(&build(idx), l, "c2"), move |idx| json!({"class": "top-seqs", "lines": seq_unrank(idx, k, depth), "input": show(&build(idx))})).sandboxed(sb(2048))
}

// ---------------------------------------------------------------------------------------------
// byte corruption of a valid file

const VALID: &[u8] = b"MODULE Linux x86 abcd m\nINFO CODE_ID ab x\nINFO URL http://x/y\nFILE 0 a.c\nFILE 1 b.c\nINLINE_ORIGIN 0 inl\nPUBLIC 8 0 pub\nPUBLIC m 9 4 pub2\nFUNC 10 20 0 f\nINLINE 0 3 1 0 12 4\n10 4 7 0\n14 c 8 1\nFUNC m 40 8 4 g\n40 8 1 0\nSTACK WIN 4 10 20 0 0 4 0 0 0 1 $eip 4 + ^ =\nSTACK WIN 0 40 8 0 0 0 0 0 0 0 1\nSTACK CFI INIT 10 20 .cfa: $esp 4 + .ra: .cfa 4 - ^\nSTACK CFI 14 .cfa: $esp 8 + $ebp: .cfa 8 - ^\nSTACK CFI INIT 40 8 .cfa: $esp 4 +\n";
fn corrupt_space() -> Space {
    let n = VALID.len() as u64;
    let total = n * 257;
    let build = move |idx: u64| -> (Vec<u8>, Value) {
        let (pos, v) = ((idx / 257) as usize, idx % 257);
        let mut b = VALID.to_vec();
        if v == 256 {
            b.remove(pos);
            (b, json!({"class": "corrupt", "deleted_byte_at": pos}))
        } else {
            b[pos] = v as u8;
            (b, json!({"class": "corrupt", "byte_at": pos, "set_to": v}))
        }
    };
    let b2 = build.clone();
    Space::new("corrupt", total, move |idx, l| total_case(&build(idx).0, l, "e"), move |idx| b2(idx).1).sandboxed(sb(2048))
}

// ---------------------------------------------------------------------------------------------
// real-constant long lines

const LONG_KINDS: &[&str] = &["INFO", "PUBLIC", "FILE", "FUNC", "STACK CFI INIT", "garbage"];
/// A line of exactly `content_len` bytes (terminator excluded) of the given kind.
fn long_line(kind: &str, content_len: usize) -> Vec<u8> {
    let head: &[u8] = match kind {
        "INFO" => b"INFO CODE_ID ",
        "PUBLIC" => b"PUBLIC 7000 0 ",
        "FILE" => b"FILE 77 ",
        "FUNC" => b"FUNC 7000 10 0 ",
        "STACK CFI INIT" => b"STACK CFI INIT 7000 10 .cfa: $esp 4 + .ra: ",
        _ => b"",
    };
    let mut v = head.to_vec();
    let mut i = 0usize;
    while v.len() < content_len {
        // STACK CFI rules are space-separated tokens; names are one long token
        v.push(if kind == "STACK CFI INIT" && i % 8 == 7 { b' ' } else { b'a' + (i % 23) as u8 });
        i += 1;
    }
    v.truncate(content_len);
    v
}
fn lengths(thorough: bool) -> Vec<usize> {
    let mut v = vec![];
    for t in [10usize, 20, 40, 80, 160] {
        for d in if thorough { -4i64..=3 } else { -2i64..=1 } {
            v.push((t as i64 * 1024 + d) as usize);
        }
    }
    v.extend([2 * MAX + 1, 1 << 20]);
    if thorough {
        v.extend([100, 5 * 1024, 120 * 1024, 3 * MAX]);
    }
    v
}
fn pre(which: u64) -> Vec<u8> {
    let mut v = MODULE.to_vec();
    match which {
        0 => {}
        1 => v.extend_from_slice(b"FILE 1 a.c\nFUNC 1000 10 0 f\n1000 8 1 1\n"),
        2 | 3 => {
            let target = if which == 2 { 6 * 1024 } else { 100 * 1024 };
            let mut a = 0x10_0000u64;
            while v.len() < target {
                v.extend_from_slice(format!("PUBLIC {a:x} 0 sym_{a:x}\n").as_bytes());
                a += 0x10;
            }
        }
        _ => unreachable!(),
    }
    v
}
const POSTS: &[(&str, &[u8])] = &[
    ("nothing after", b""),
    ("one record after", b"PUBLIC 2000 0 after\n"),
    ("records after", b"FUNC 3000 10 0 g\n3000 10 1 1\nSTACK CFI INIT 3000 10 .cfa: $esp 4 +\nSTACK CFI 3004 .cfa: $esp 8 +\n"),
    ("data after, no final newline", b"PUBLIC 2000 0 after"),
    ("EOF inside the long line", b""),
];
const PRE_NAMES: [&str; 4] = ["MODULE only", "inside a FUNC block", "6 KiB of PUBLIC lines", "100 KiB of PUBLIC lines"];
const CHUNKS: &[usize] = &[usize::MAX, 4096, 65521, 1021, 10240, MAX];

fn longline_space(thorough: bool) -> Space {
    let lens = lengths(thorough);
    let nchunks = if thorough { CHUNKS.len() } else { 3 } as u64;
    let rad = [nchunks, 2, POSTS.len() as u64, 4, lens.len() as u64, LONG_KINDS.len() as u64];
    let total = product(&rad);
    let lens2 = lens.clone();
    let desc = move |idx: u64| {
        let d = unrank(idx, &rad);
        json!({"class": format!("longline:{}", POSTS[d[2] as usize].0), "kind": LONG_KINDS[d[5] as usize], "content_len": lens2[d[4] as usize], "prefix": PRE_NAMES[d[3] as usize],
            "suffix": POSTS[d[2] as usize].0, "terminator": if d[1] == 0 { "LF" } else { "CRLF" }, "read_chunk": if CHUNKS[d[0] as usize] == usize::MAX { json!("whole buffer") } else { json!(CHUNKS[d[0] as usize]) }})
    };
    let run = move |idx: u64, l: &mut Local| {
        let d = unrank(idx, &rad);
        let (chunk, crlf, post, prefix, len, kind) = (CHUNKS[d[0] as usize], d[1] == 1, d[2] as usize, d[3], lens[d[4] as usize], LONG_KINDS[d[5] as usize]);
        let term: &[u8] = if crlf { b"\r\n" } else { b"\n" };
        let before = pre(prefix);
        let line = long_line(kind, len);
        let eof_inside = post == 4;
        let mut with = before.clone();
        with.extend_from_slice(&line);
        if !eof_inside {
            with.extend_from_slice(term);
        }
        // inside a FUNC block the long line sits between two line records of that function
        let sub: &[u8] = if prefix == 1 && (post == 1 || post == 2) { b"1008 8 2 1\n" } else { b"" };
        with.extend_from_slice(sub);
        with.extend_from_slice(POSTS[post].1);
        let mut without = before.clone();
        without.extend_from_slice(sub);
        without.extend_from_slice(POSTS[post].1);
        let total_line = line.len() + if eof_inside { 0 } else { term.len() };
        let over = total_line > MAX;
        let ends_nl = with.last() == Some(&b'\n');

        // allocation window: for an inert long line the parser must not accumulate the line
        let base = alloc::reset_peak();
        let got = parse_checked(&with, chunk, l, "SymbolFile::parse");
        let peak = alloc::peak_since(base);
        let Some(got) = got else { return };
        l.outcome(&format!("{} / {}", if over { "line > MAX" } else { "line <= MAX" }, class(&got)));
        l.distinct(&("long", kind, post, prefix, d[4], crlf, class(&got)));
        let bound = 2 * MAX + (1 << 20) + 8 * before.len() + if over { 0 } else { 3 * line.len() };
        if alloc_counting() && peak > bound {
            l.violation(
                "alloc@SymbolFile::parse: live heap grows with the length of a dropped line",
                format!("peak live heap {peak} bytes above baseline while parsing a {}-byte file with one {total_line}-byte line; bound {bound} = 2*MAX + 1 MiB + 8*prefix (+ 3*line when the line fits the buffer)", with.len()),
                json!({"peak": peak}),
            );
        }
        if !ends_nl {
            // no final newline: Ok-or-Err is all C09 requires (the outcome may depend on chunking: F8 / C10)
            return;
        }
        let reference = match parse_checked(&without, usize::MAX, l, "SymbolFile::parse") {
            Some(r) => r,
            None => return,
        };
        if reference.is_err() {
            panic!("harness: the reference file without the long line must be valid, got {}", shape(&reference));
        }
        let same = |a: &Result<SymbolFile, SymbolError>, b: &Result<SymbolFile, SymbolError>| match (a, b) {
            (Ok(x), Ok(y)) => x == y,
            (Err(x), Err(y)) => x.to_string() == y.to_string(),
            _ => false,
        };
        if over {
            // must be dropped: Ok, and identical to the file without that line
            if !same(&got, &reference) {
                l.violation(
                    "longline: a line longer than MAX_BUFFER_CAPACITY is not dropped cleanly (parse differs from the file without it)",
                    format!("with the {total_line}-byte line: {}; without it: {}", shape(&got), shape(&reference)),
                    json!({"with": shape(&got), "without": shape(&reference)}),
                );
            }
            return;
        }
        // line <= MAX: it may be parsed or (in the upper half of the buffer range) dropped — both are
        // within the documented behaviour ("at least 80KB, at most 160KB"); semantics accepted:
        // dropped  => equals the reference; parsed => the reference plus exactly this record.
        let accepted = match kind {
            // a parsed top-level record between two line records ends the FUNC block: the following line
            // record is then (correctly) a parse error, so nothing beyond totality is defined there
            _ if prefix == 1 => true,
            "INFO" => same(&got, &reference),
            "PUBLIC" => {
                same(&got, &reference)
                    || match (&got, &reference) {
                        (Ok(g), Ok(r)) => {
                            let extra: Vec<_> = g.publics.iter().filter(|p| p.address == 0x7000).collect();
                            let rest: Vec<_> = g.publics.iter().filter(|p| p.address != 0x7000).collect();
                            extra.len() == 1 && extra[0].name.len() == line.len() - b"PUBLIC 7000 0 ".len() && rest == r.publics.iter().collect::<Vec<_>>() && g.functions == r.functions && g.files == r.files && g.cfi_stack_info == r.cfi_stack_info
                        }
                        _ => false,
                    }
            }
            "FILE" => {
                same(&got, &reference)
                    || match (&got, &reference) {
                        (Ok(g), Ok(r)) => {
                            let mut f = g.files.clone();
                            let x = f.remove(&77);
                            x.map(|n| n.len()) == Some(line.len() - b"FILE 77 ".len()) && f == r.files && g.publics == r.publics && g.functions == r.functions && g.cfi_stack_info == r.cfi_stack_info
                        }
                        _ => false,
                    }
            }
            // FUNC / STACK CFI INIT change how following lines are read, garbage fails the parse unless
            // dropped: only totality and the window are judged for these below MAX
            _ => true,
        };
        if !accepted {
            l.violation(
                format!("longline: a valid {kind} line below MAX_BUFFER_CAPACITY is neither parsed nor dropped cleanly"),
                format!("with the {total_line}-byte line: {}; without it: {}", shape(&got), shape(&reference)),
                json!({"with": shape(&got), "without": shape(&reference)}),
            );
        }
    };
    Space::new("longline", total, run, desc).sandboxed(sb(4))
}
/// The file-based entry point keeps the same fixed window: a file of many short lines (that leave next to nothing
/// in the table) is parsed from disk with the live heap bounded independently of the file's size.
const FROM_FILE_SIZES: &[usize] = &[64 * 1024, 1 << 20, 6 << 20, 24 << 20];
fn from_file_space() -> Space {
    let total = FROM_FILE_SIZES.len() as u64 * 2;
    let desc = |idx: u64| json!({"class": "from_file", "file_bytes": FROM_FILE_SIZES[(idx / 2) as usize], "lines": if idx % 2 == 0 { "INFO lines" } else { "one PUBLIC record, then INFO lines" }});
    let run = move |idx: u64, l: &mut Local| {
        let size = FROM_FILE_SIZES[(idx / 2) as usize];
        let mut data = MODULE.to_vec();
        if idx % 2 == 1 {
            data.extend_from_slice(b"PUBLIC 2000 0 p\n");
        }
        let mut k = 0u64;
        while data.len() < size {
            data.extend_from_slice(format!("INFO filler line number {k:x} with some text behind it to make it longer\n").as_bytes());
            k += 1;
        }
        let path = std::env::temp_dir().join(format!("verif-c09-{}-{idx}.sym", std::process::id()));
        std::fs::write(&path, &data).expect("c09: cannot write the scratch symbol file");
        let len = data.len();
        drop(data);
        l.eval();
        let base = alloc::reset_peak();
        let got = guard(|| SymbolFile::from_file(&path));
        let peak = alloc::peak_since(base);
        let _ = std::fs::remove_file(&path);
        match got {
            Err(p) => {
                l.panic_violation(&p, json!({"file_bytes": len}));
                return;
            }
            Ok(Err(e)) => l.violation("from_file: a valid file is rejected", format!("{e}"), json!({"file_bytes": len})),
            Ok(Ok(t)) => {
                l.outcome("from_file: parsed");
                l.distinct(&("from_file", idx, t.publics.len()));
                if t.publics.len() != (idx % 2) as usize {
                    l.violation("from_file: table differs", format!("{} PUBLIC records", t.publics.len()), json!({"file_bytes": len}));
                }
            }
        }
        let bound = 2 * MAX + (1 << 20);
        if alloc_counting() && peak > bound {
            l.violation(
                "alloc@SymbolFile::from_file: live heap grows with the size of the file",
                format!("peak live heap {peak} bytes above baseline while parsing a {len}-byte file of short lines from disk; bound {bound} = 2*MAX + 1 MiB"),
                json!({"peak": peak, "file_bytes": len}),
            );
        }
    };
    Space::new("from-file-window", total, run, desc).sandboxed(sb(1))
}
fn alloc_counting() -> bool {
    // counting is only switched on in sandbox workers and sandboxed replays
    let b = alloc::reset_peak();
    let v = vec![0u8; 4096];
    let p = alloc::peak_since(b);
    drop(v);
    p >= 4096
}

fn main() {
    run_check("C09", |ctx| {
        let depth = ctx.tier.pick(3, 5);
        let mut def = CheckDef::new(
            "C09",
            "fault_enumeration",
            "every case = one byte string parsed by the real SymbolFile::parse through a counting reader/callback (window oracle at every read) and by from_bytes, under panic guard / wall budget / allocation cap. Spaces: all strings of length <= 3 alone and after MODULE; 15 record templates x {0,1,2} fields replaced from a 16-token boundary menu x 4 terminators; all sequences of <= depth lines over 39 record shapes; all sequences of <= 4 lines over 12 record shapes at the very top of the address space (address + size = 2^64, 2^64 - 1, past it); every single-byte replacement and deletion of a valid 19-line file; real-constant long lines (content lengths around 10/20/40/80/160 KiB and over MAX — listed under long_line_content_lengths — x 6 kinds x 4 prefixes x 5 suffixes x LF/CRLF x 3 (thorough: 6) read chunkings) with the dropped-line equality oracle. distinct_nontrivial = distinct (part, outcome + table shape or error text) keys.",
        );
        def.assumptions = vec![
            "C09 only requires 'returns Ok or Err' for input without a final newline: outcomes are not compared across read chunkings (that is C10 / F8)".into(),
            "a line of total length <= MAX_BUFFER_CAPACITY may be parsed or dropped (documented as fuzzy: 'at least 80KB, at most 160KB'); for INFO/PUBLIC/FILE lines the result must equal the reference without the line, or the reference plus exactly that record; for FUNC / STACK CFI INIT / garbage lines below MAX only totality and the window are judged".into(),
            "the dropped-line equality is required only when the file ends with a newline and a MODULE line precedes the long line".into(),
            "hang = more than 1000 consecutive zero-byte reads seen by the counting reader (deterministic) or, as a backstop, 5 s wall in the worker (confirmed by the core with a re-run)".into(),
            "the window is observed as bytes_read - bytes_passed_to_callback at every Read::read call and callback call; heap growth is additionally bounded (2*MAX + 1 MiB + 8*prefix, + 3*line when the line fits) in the longline space when allocation counting is on (sandbox workers)".into(),
            "parse_async is not driven here (it needs the http supplier; C10/C16 bind it)".into(),
            "part (d) runs in the scaled build (hook H1): every single line length, all pairs/triples/quadruples over threshold menus, under 11 reader schedules; a hang there is reported by that child (30 s wall per case)".into(),
        ];
        def.extra.insert("MAX_BUFFER_CAPACITY".into(), json!(MAX));
        def.extra.insert("sequence_depth".into(), json!(depth));
        def.extra.insert("long_line_content_lengths".into(), json!(lengths(ctx.tier == Tier::Thorough)));
        def.extra.insert("wall_budget_ms".into(), json!(WALL_MS));
        def.extra.insert("hard_cap_bytes".into(), json!(HARD_CAP));
        def.spaces = vec![longline_space(ctx.tier == Tier::Thorough), from_file_space(), fields_space(), seqs_space(depth), top_seqs_space(4), corrupt_space(), bytes3_space()];
        // ---- part (d): growth / discard-to-newline recovery driven exhaustively in the scaled build
        // (cfg rust_minidump_verif_smallbuf, INITIAL 16 / MAX 256), in a child process
        let tier_name = ctx.tier.name();
        def.spaces.push(
            Space::new(
                "scaled-buffer",
                1,
                move |_, l| {
                    let exe = std::env::var("VERIF_C09S").ok().map(std::path::PathBuf::from).unwrap_or_else(|| {
                        let me = std::env::current_exe().expect("current_exe");
                        me.parent().unwrap().parent().unwrap().parent().unwrap().join("smallbuf/release/c09s")
                    });
                    assert!(exe.exists(), "c09: the scaled-buffer helper {exe:?} is not built (run ./check build)");
                    let out = std::env::temp_dir().join(format!("c09s-{}", std::process::id()));
                    let _ = std::fs::remove_dir_all(&out);
                    let st = std::process::Command::new(&exe).arg(tier_name).env("VERIF_OUT_DIR", &out).stdout(std::process::Stdio::null()).status().expect("spawn c09s");
                    let code = st.code().unwrap_or(2);
                    assert!(code == 0 || code == 1, "c09: c09s ended with a machinery error (exit {code})");
                    let ev: Value = serde_json::from_str(&std::fs::read_to_string(out.join("evidence/C09.json")).expect("c09s evidence")).expect("c09s evidence json");
                    let cov = &ev["coverage"];
                    l.evals(cov["evaluations"].as_u64().unwrap_or(0));
                    l.count("scaled_buffer_parses", cov["evaluations"].as_u64().unwrap_or(0));
                    l.count("scaled_buffer_distinct", cov["distinct_nontrivial"].as_u64().unwrap_or(0));
                    l.distinct(&("scaled-buffer", cov["distinct_nontrivial"].as_u64()));
                    for (k, n) in cov["observed_outcomes"].as_object().into_iter().flatten() {
                        if n.as_u64().unwrap_or(0) > 0 {
                            l.outcome(&format!("scaled: {k}"));
                        }
                    }
                    for v in cov["all_violations"].as_array().into_iter().flatten() {
                        l.violation(v["signature"].as_str().unwrap_or("?"), format!("[scaled buffer] {}", v["what"].as_str().unwrap_or("?")), v["detail"].clone());
                    }
                    let _ = std::fs::remove_dir_all(&out);
                },
                |_| json!({"class": "scaled", "helper": "c09s (build with cfg rust_minidump_verif_smallbuf, INITIAL 16 / MAX 256)"}),
            )
            .wall(3_600_000),
        );
        def
    })
}
