//! C05 — every produced call stack is well-formed and makes progress.
//! Bounded-exhaustive: every stack of N machine words over a K-value alphabet x register
//! contexts x validity sets x symbol menus x module menus x stack placements x CPU/OS
//! variants is walked by the real `walk_stack`; the invariant of the statement is checked on
//! every returned call stack. A sentinel in `on_walked_frame` cuts walks over the frame budget.
use minidump::system_info::Os;
use minidump::{MinidumpContext, MinidumpContextValidity, MinidumpModuleList, Module};
use minidump_unwind::*;
use std::cell::RefCell;
use std::collections::BTreeMap;
use std::rc::Rc;
use vh::stackgen::*;
use vh::*;

const VARIANTS5: &[(Arch, Os)] = &[
    (Arch::X86, Os::Linux),
    (Arch::Amd64, Os::Linux),
    (Arch::Amd64, Os::Windows),
    (Arch::Arm, Os::Linux),
    (Arch::Arm, Os::Ios),
    (Arch::Arm64, Os::MacOs),
    (Arch::Arm64Old, Os::Ios),
    (Arch::Mips32, Os::Linux),
    (Arch::Mips64, Os::Linux),
];

#[derive(Clone, Copy)]
struct Bounds {
    n: u32,      // words of stack memory
    k: u64,      // alphabet size
    nctx: u64,   // register contexts
    nvalid: u64, // validity menus
    nmod: u64,   // module menus
    nplace: u64, // stack placements
    /// symbol menus (ids) used on every variant; x86 adds the two STACK WIN menus (8, 9)
    syms: &'static [u64],
    /// second word alphabet: code / stack addresses decorated with high bits (a signed or tagged pointer is
    /// NOT the address it would strip to: as a stack word it is data)
    tagged: bool,
    /// first module menu of the space (the menus are mod_first .. mod_first + nmod)
    mod_first: u64,
}

// odd on purpose: a return address with its low bit set (Thumb) must be reported as stored, bit included
const MOD_OFF_FUNC: u64 = 0x1011;
const MOD_OFF_NOFUNC: u64 = 0x8000;
const MODSZ: u64 = 0x1_0000;

struct Case {
    arch: Arch,
    os: Os,
    place: u64,
    modmenu: u64,
    symmenu: u64,
    valid: u64,
    ctx: u64,
    words: Vec<u64>,
    base: u64,
    modbase: u64,
    regs: (u64, u64, u64, u64), // ip, sp, fp, lr
}

fn nsym(arch: Arch, b: &Bounds) -> u64 {
    b.syms.len() as u64 + if arch == Arch::X86 { 2 } else { 0 }
}
fn sym_id(b: &Bounds, digit: u64) -> u64 {
    let n = b.syms.len() as u64;
    if digit < n {
        b.syms[digit as usize]
    } else {
        8 + (digit - n)
    }
}

fn decode(vi: usize, b: &Bounds, idx: u64) -> Case {
    let (arch, os) = VARIANTS5[vi];
    let p = arch.ptr();
    let top = arch.top();
    let mut radices = vec![b.k; b.n as usize];
    radices.extend_from_slice(&[b.nctx, b.nvalid, nsym(arch, b), b.nmod, b.nplace]);
    let dg = unrank(idx, &radices);
    let n = b.n as usize;
    let (ctx, valid, symmenu, modmenu, place) = (dg[n], dg[n + 1], sym_id(b, dg[n + 2]), dg[n + 3] + b.mod_first, dg[n + 4]);
    let size = b.n as u64 * p;
    let base = match place {
        0 => 0x6000_0000,
        1 => top - size,     // base + size = all-ones: the last byte is at top - 1
        _ => top - size + 1, // base + size = 2^32 (32-bit) or overflows u64 (memory is discarded)
    };
    // menu 4: the module is mapped at address 0 (its first page holds the addresses below 4096)
    let modbase = if modmenu == 3 { top - (MODSZ - 1) } else if modmenu == 4 { 0 } else { 0x4000_0000 };
    let in_func = modbase + MOD_OFF_FUNC;
    // with two (adjacent) modules the "module but no function" address is the very first byte of the second
    // module (no symbol file): as a return address its lookup address (minus the call adjustment) is the last
    // byte of the first module, so module attribution by the wrong one of the two addresses shows
    let nofunc = if modmenu == 1 { modbase + MODSZ } else { modbase + MOD_OFF_NOFUNC };
    let alphabet = [0, 4095, in_func, nofunc, base, base.wrapping_add(p), base.wrapping_add(size) & top, top, 4096, base.wrapping_add(2 * p), 1, base.wrapping_add(size).wrapping_sub(p) & top];
    let tag: u64 = if p == 8 { 0x0008_0000_0000_0000 } else { 0x8000_0000 };
    // ... and the return address whose lookup address (minus the call adjustment) is the first byte past module m:
    // the first byte of the adjacent module n when there is one, no module's otherwise
    let past_end = modbase.wrapping_add(MODSZ).wrapping_add(arch.adj()) & top;
    let tagged = [0, in_func, in_func | tag, nofunc | tag, base.wrapping_add(p), base.wrapping_add(2 * p) | tag, (in_func | tag) ^ (tag << 3), past_end];
    let words = (0..n).map(|i| if b.tagged { tagged[dg[i] as usize] } else { alphabet[dg[i] as usize] }).collect();
    let bs = base.wrapping_add(size) & top;
    let regs = match ctx {
        0 => (in_func, base, base + p, in_func),
        1 => (in_func, base, 0, in_func),
        2 => (in_func, bs.wrapping_sub(p) & top, base, in_func),
        3 => (in_func, 0, top, in_func),
        4 => (nofunc, base, top - 2 * p, in_func),
        5 => (in_func, base + p, base + 2 * p, nofunc),
        6 => (in_func, top, base, 0),
        7 => (0, bs, bs.wrapping_sub(2 * p) & top, in_func),
        // a 32-bit CPU whose context has 64-bit register slots (MIPS o32): sp and fp sign-extended
        // ... and on a 64-bit CPU a stack pointer with a non-zero top byte (a tagged pointer) next to a plain frame pointer
        _ => (in_func, base | if p == 4 { 0xffff_ffff_0000_0000 } else { 0x0b00_0000_0000_0000 }, (base + p) | if p == 4 { 0xffff_ffff_0000_0000 } else { 0 }, in_func),
    };
    Case { arch, os, place, modmenu, symmenu, valid, ctx, words, base, modbase, regs }
}

fn sym_text(c: &Case) -> Option<String> {
    let a = c.arch;
    let p = a.ptr();
    let sp = a.cfi_name(a.sp(), false);
    let in_func = c.modbase + MOD_OFF_FUNC;
    let head = "MODULE Linux x 000000000000000000000000000000000 m\nFUNC 1000 100 0 f\n";
    let cfi = |rules: String| Some(format!("{head}STACK CFI INIT 1000 100 {rules}\n"));
    match c.symmenu {
        0 => None,
        1 => Some(head.to_string()),
        2 => cfi(format!(".cfa: {sp} {p} + .ra: .cfa {p} - ^")),     // CFA above sp
        3 => cfi(format!(".cfa: {sp} 0 + .ra: {in_func}")),           // CFA equal to sp
        4 => cfi(format!(".cfa: {sp} {p} - .ra: {in_func}")),         // CFA below sp
        5 => cfi(format!(".cfa: {sp} ^ .ra: .cfa {p} - ^")),          // sp restored from memory
        6 => cfi(format!(".cfa: {sp} 1 + .ra: {in_func}")),           // never touches memory, 1 byte per frame
        7 => cfi(format!(".cfa: {sp} {p} + .ra: {in_func}")),         // never touches memory, one word per frame
        10 => Some(format!("{head}STACK CFI INIT 1000 80 .cfa: {sp} .ra: {}\nSTACK CFI INIT 1080 80 .cfa: {sp} .ra: {}\n", in_func + 0x80, in_func)), // two ranges calling each other, sp never moves
        // PUBLIC records only, all above the in-function address: that address has no symbol at all, the
        // "module but no function" address (0x8000) belongs to p
        11 => Some("MODULE Linux x 000000000000000000000000000000000 m\nPUBLIC 4000 0 p\nPUBLIC 9000 0 q\n".to_string()),
        // a rule for the stack pointer itself that cannot be evaluated, next to a CFA below / above the callee's sp
        12 => cfi(format!(".cfa: {sp} {p} - .ra: {in_func} {sp}: 0 ^")),
        13 => cfi(format!(".cfa: {sp} {p} + .ra: .cfa {p} - ^ {sp}: 0 ^")),
        8 => Some(format!("{head}STACK WIN 4 1000 100 0 0 0 0 0 0 1 $T0 $ebp = $eip $T0 4 + ^ = $ebp $T0 ^ = $esp $T0 8 + =\n")),
        _ => Some(format!("{head}STACK WIN 0 1000 100 0 0 0 0 4 0 0 0\n")),
    }
}

fn sym_name(m: u64) -> &'static str {
    ["none", "FUNC only", "CFI cfa=sp+ptr ra=[cfa-ptr]", "CFI cfa=sp ra=const", "CFI cfa=sp-ptr ra=const", "CFI cfa=[sp] ra=[cfa-ptr]", "CFI cfa=sp+1 ra=const", "CFI cfa=sp+ptr ra=const", "STACK WIN framedata", "STACK WIN fpo", "CFI ping-pong cfa=sp ra=other range", "PUBLIC only (p at 0x4000, q at 0x9000)", "CFI cfa=sp-ptr ra=const, sp rule fails", "CFI cfa=sp+ptr ra=[cfa-ptr], sp rule fails"][m as usize]
}

fn modules_of(c: &Case) -> Vec<(String, u64, u64)> {
    match c.modmenu {
        0 | 3 | 4 => vec![("m".into(), c.modbase, MODSZ)],
        1 => vec![("m".into(), c.modbase, MODSZ), ("n".into(), c.modbase + MODSZ, MODSZ)],
        _ => vec![],
    }
}

fn validity_of(c: &Case) -> MinidumpContextValidity {
    let a = c.arch;
    match c.valid {
        0 => MinidumpContextValidity::All,
        1 => validity(&[a.ip(), a.sp()]),
        2 => validity(&[a.ip(), a.sp(), a.fp()]),
        3 => validity(&[a.ip()]),
        4 => validity(&[a.sp()]),
        5 => validity(&[a.fp()]),
        _ => validity(&[a.ip(), a.fp()]),
    }
}

fn describe(vi: usize, b: &Bounds, idx: u64) -> Value {
    let c = decode(vi, b, idx);
    let size = c.words.len() as u64 * c.arch.ptr();
    let vname = ["all", "{ip,sp}", "{ip,sp,fp}", "{ip}", "{sp}", "{fp}", "{ip,fp}"][c.valid as usize];
    json!({
        "variant": format!("{}-{}", c.arch.name(), os_name(c.os)),
        "class": c.arch.name(),
        "stack_base": format!("{:#x}", c.base), "stack_bytes": size,
        "words": c.words.iter().map(|w| format!("{w:#x}")).collect::<Vec<_>>(),
        "ip": format!("{:#x}", c.regs.0), "sp": format!("{:#x}", c.regs.1), "fp": format!("{:#x}", c.regs.2), "lr": format!("{:#x}", c.regs.3),
        "validity": vname,
        "symbols": sym_name(c.symmenu),
        "modules": modules_of(&c).iter().map(|m| format!("{} {:#x}+{:#x}", m.0, m.1, m.2)).collect::<Vec<_>>(),
        "placement": c.place, "context_menu": c.ctx,
    })
}

struct Env {
    key: (usize, u64, u64, u64),
    sym: Symbolizer,
    ml: MinidumpModuleList,
    si: SystemInfo,
}
thread_local! {
    static ENV: RefCell<Option<Rc<Env>>> = const { RefCell::new(None) };
}
fn env_for(vi: usize, c: &Case) -> Rc<Env> {
    let key = (vi, c.place, c.modmenu, c.symmenu);
    ENV.with(|e| {
        let mut e = e.borrow_mut();
        if let Some(x) = e.as_ref() {
            if x.key == key {
                return x.clone();
            }
        }
        let mut syms = BTreeMap::new();
        if let Some(t) = sym_text(c) {
            syms.insert("m".to_string(), t);
        }
        let env = Rc::new(Env { key, sym: symbolizer(&syms), ml: module_list(&modules_of(c)), si: system_info(c.arch, c.os) });
        *e = Some(env.clone());
        env
    })
}

fn trust_code(t: FrameTrust) -> u8 {
    match t {
        FrameTrust::Context => 0,
        FrameTrust::CallFrameInfo => 1,
        FrameTrust::FramePointer => 2,
        FrameTrust::Scan => 3,
        _ => 9,
    }
}

fn run_case(vi: usize, b: &Bounds, idx: u64, l: &mut Local) {
    let c = decode(vi, b, idx);
    let a = c.arch;
    let p = a.ptr();
    let env = env_for(vi, &c);
    let bytes = words_to_bytes(&c.words, p);
    let (ip, sp, fp, lr) = c.regs;
    let mut regs = vec![(a.ip(), ip), (a.sp(), sp), (a.fp(), fp)];
    if let Some(n) = a.lr() {
        regs.push((n, lr));
    }
    let ctx = MinidumpContext { raw: raw_context(a, &regs), valid: validity_of(&c) };
    let budget = bytes.len() + 2;
    l.eval();
    let cs = match walk(ctx, c.base, &bytes, &env.ml, &env.si, &env.sym, budget) {
        WalkEnd::Done(cs) => cs,
        WalkEnd::Panic(pi) => {
            l.outcome("panic");
            l.panic_violation(&pi, json!({"case": describe(vi, b, idx)}));
            return;
        }
        WalkEnd::Budget { frames } => {
            l.outcome("cut by the frame-budget sentinel");
            l.violation(
                "c05:frame-budget",
                format!("{}: the walk over {} bytes of stack reached {} frames (budget: stack bytes + 2 = {}) and was cut", a.name(), bytes.len(), frames, budget),
                json!({"case": describe(vi, b, idx)}),
            );
            return;
        }
    };
    let nf = cs.frames.len();
    l.outcome(&format!("frames={nf}"));
    if nf >= 2 {
        let shape: Vec<(u8, u64, u64)> = cs.frames.iter().skip(1).map(|f| (trust_code(f.trust), f.resume_address, f.context.get_stack_pointer())).collect();
        l.distinct(&(vi, shape));
    }
    let bad = |l: &mut Local, j: usize, kind: &str, text: String| {
        let sig = if a == Arch::Mips64 && cs.frames.iter().take(j).any(mips64_flag_lost) {
            // F20: derived from a scanned frame that lost CONTEXT_MIPS64
            "c05:mips64:frame-after-scanned-frame-unwound-as-mips32".to_string()
        } else {
            format!("c05:{}:{}", a.name(), kind)
        };
        let frames: Vec<Value> = cs.frames.iter().map(|f| json!({"trust": trust_code(f.trust), "resume": format!("{:#x}", f.resume_address), "instruction": format!("{:#x}", f.instruction), "sp": format!("{:#x}", f.context.get_stack_pointer())})).collect();
        l.violation(sig, format!("{}-{}: frame {j}: {text}", a.name(), os_name(c.os)), json!({"case": describe(vi, b, idx), "frames": frames}));
    };
    if nf == 0 {
        bad(l, 0, "no-context-frame", "the returned call stack is empty".into());
        return;
    }
    if nf > budget {
        bad(l, nf - 1, "frame-budget-returned", format!("{nf} frames returned for {} bytes of stack", bytes.len()));
    }
    let f0 = &cs.frames[0];
    if f0.trust != FrameTrust::Context {
        bad(l, 0, "frame0-trust", format!("trust {:?}", f0.trust));
    }
    if f0.instruction != ip || f0.resume_address != ip {
        bad(l, 0, "frame0-ip", format!("instruction {:#x} / resume {:#x}, context ip {ip:#x}", f0.instruction, f0.resume_address));
    }
    let mods = modules_of(&c);
    for (j, f) in cs.frames.iter().enumerate() {
        if j >= 1 {
            let prev = &cs.frames[j - 1];
            match f.trust {
                FrameTrust::CallFrameInfo => l.count("frames found by cfi", 1),
                FrameTrust::FramePointer => l.count("frames found by frame pointer", 1),
                FrameTrust::Scan => l.count("frames found by scan", 1),
                _ => bad(l, j, "trust", format!("trust {:?} on a non-context frame", f.trust)),
            }
            if f.resume_address < 4096 {
                bad(l, j, "return-address-below-4096", format!("resume_address {:#x}", f.resume_address));
            }
            if f.resume_address.checked_sub(a.adj()) != Some(f.instruction) {
                bad(l, j, "instruction-adjust", format!("instruction {:#x} != resume_address {:#x} - {}", f.instruction, f.resume_address, a.adj()));
            }
            let (s1, s0) = (f.context.get_stack_pointer(), prev.context.get_stack_pointer());
            let leaf_ok = j == 1 && a.has_leaf() && s1 == s0;
            if !(s1 > s0 || leaf_ok) {
                bad(l, j, "sp-not-increasing", format!("sp {s1:#x} after callee sp {s0:#x}"));
            }
            if f.trust == FrameTrust::Scan {
                let w = s1.checked_sub(p).and_then(|slot| read_word(c.base, &bytes, p, slot));
                if w != Some(f.resume_address) {
                    bad(l, j, "scan-return-address-not-below-sp", format!("scanned frame: resume_address {:#x}, word at sp - {p} = {w:x?} (sp {s1:#x})", f.resume_address));
                }
            }
        }
        if let Some(m) = &f.module {
            let known = mods.iter().any(|x| x.1 == m.base_address() && x.2 == m.size());
            let covers = f.instruction >= m.base_address() && f.instruction - m.base_address() < m.size();
            if !known || !covers {
                bad(l, j, "module-does-not-cover", format!("module {:#x}+{:#x} attached to instruction {:#x}", m.base_address(), m.size(), f.instruction));
            }
        }
        if f.function_name.is_some() || f.function_base.is_some() {
            // the symbol menus define f = [module m + 0x1000, + 0x100) or the PUBLICs p (from 0x4000) and q (from 0x9000)
            let fb = c.modbase + 0x1000;
            let (pb, qb) = (c.modbase + 0x4000, c.modbase + 0x9000);
            let is_f = c.symmenu != 11 && f.function_base == Some(fb) && f.function_name.as_deref() == Some("f") && f.instruction >= fb && f.instruction < fb + 0x100;
            let is_p = c.symmenu == 11 && f.function_base == Some(pb) && f.function_name.as_deref() == Some("p") && f.instruction >= pb && f.instruction < qb;
            let is_q = c.symmenu == 11 && f.function_base == Some(qb) && f.function_name.as_deref() == Some("q") && f.instruction >= qb;
            if !(is_f || is_p || is_q) || f.module.is_none() {
                bad(l, j, "function-does-not-cover", format!("function {:?} at {:x?} attached to instruction {:#x}", f.function_name, f.function_base, f.instruction));
            }
        }
    }
}

fn main() {
    run_check("C05", |ctx| {
        let quick = ctx.tier == Tier::Quick;
        const MAIN_SYMS: &[u64] = &[0, 1, 2, 3, 4, 5, 6];
        const ALL_SYMS: &[u64] = &[0, 1, 2, 3, 4, 5, 6, 7, 10];
        const PINGPONG: &[u64] = &[10];
        let b = if quick { Bounds { n: 4, k: 8, nctx: 8, nvalid: 3, nmod: 2, nplace: 2, syms: MAIN_SYMS, tagged: false, mod_first: 0 } } else { Bounds { n: 5, k: 9, nctx: 8, nvalid: 3, nmod: 2, nplace: 2, syms: MAIN_SYMS, tagged: false, mod_first: 0 } };
        // thorough only: the remaining menu values (validity singletons, no module / module at the top of
        // the address space, stack whose end wraps, word-per-frame CFI without memory access) on shorter stacks
        let extras = Bounds { n: 3, k: 12, nctx: 9, nvalid: 7, nmod: 4, nplace: 3, syms: ALL_SYMS, tagged: false, mod_first: 0 };
        let mut def = CheckDef::new(
            "C05",
            "exploration",
            "every stack of N words over a K-value alphabet (0, 4095, an address inside a function, an address in a module outside any function, addresses of stack slots, one past the stack, all-ones, ...) x register contexts x validity sets x symbol menus (none, FUNC only, CFI with CFA above / equal to / below sp, CFA read from memory, CFI that never touches memory, STACK WIN on x86) x module menus x stack placements (middle, ending at the top of the address space) x 9 CPU/OS variants is walked by the real walk_stack; on every returned call stack the invariant of the statement is checked: context frame exact, return address >= 4096, instruction = return address - adjustment, trust in {cfi, frame pointer, scan}, sp strictly increasing (one repeat allowed for the first step on ARM/ARM64/MIPS), scanned return address = the word below sp inside the supplied memory, module and function cover the instruction, frame count <= stack bytes + 2 (sentinel in on_walked_frame). distinct_nontrivial = distinct (variant, sequence of (trust, return address, sp) of the frames beyond the context frame) among walks that produced at least two frames.",
        );
        def.assumptions = vec![
            "the function check uses the one FUNC record the symbol menus define (f = module m + 0x1000, 0x100 bytes)".into(),
            "a module is 'present' when frame.module is Some; the check does not require a module to be attached when one covers the address".into(),
            "frame budget = stack bytes + 2 as in DESIGN C03/C05; walks over the budget are cut by a panic sentinel in the callback and reported as c05:frame-budget".into(),
            "register values and stack words come from the stated alphabets only; little-endian memory; one memory region".into(),
        ];
        def.extra.insert("stack_words_N".into(), json!(b.n));
        def.extra.insert("alphabet_K".into(), json!(b.k));
        def.extra.insert("contexts".into(), json!(b.nctx));
        def.extra.insert("validity_menus".into(), json!(b.nvalid));
        def.extra.insert("module_menus".into(), json!(b.nmod));
        def.extra.insert("placements".into(), json!(b.nplace));
        def.extra.insert("symbol_menus".into(), json!("7 (9 on x86 with STACK WIN framedata / fpo); the 'extras' spaces add the word-per-frame memory-free CFI menu; the 'tagged-words' spaces use a second word alphabet (code and stack addresses with high bits set: bit 51 on 64-bit, bit 31 on 32-bit CPUs) on 3-word stacks"));
        if !quick {
            def.extra.insert("extras_spaces".into(), json!({"stack_words_N": extras.n, "alphabet_K": extras.k, "contexts": extras.nctx, "validity_menus": extras.nvalid, "module_menus": extras.nmod, "placements": extras.nplace, "symbol_menus": "8 (10 on x86)"}));
        }
        for (vi, (arch, os)) in VARIANTS5.iter().enumerate() {
            let len = b.k.pow(b.n) * b.nctx * b.nvalid * nsym(*arch, &b) * b.nmod * b.nplace;
            let name = format!("{}-{}", arch.name(), os_name(*os));
            def.spaces.push(Space::new(&name, len, move |idx, l| run_case(vi, &b, idx, l), move |idx| describe(vi, &b, idx)).chunked(4096));
        }
        // both tiers: CFI ranges that hand control to each other without moving sp (a walk must not cycle)
        {
            let pp = Bounds { n: 2, k: 8, nctx: 8, nvalid: 3, nmod: 2, nplace: 2, syms: PINGPONG, tagged: false, mod_first: 0 };
            for (vi, (arch, os)) in VARIANTS5.iter().enumerate() {
                let b = pp;
                let len = b.k.pow(b.n) * b.nctx * b.nvalid * nsym(*arch, &b) * b.nmod * b.nplace;
                let name = format!("pingpong-{}-{}", arch.name(), os_name(*os));
                def.spaces.push(Space::new(&name, len, move |idx, l| run_case(vi, &b, idx, l), move |idx| describe(vi, &b, idx)).chunked(1024));
            }
        }
        // both tiers: stack words that are code / stack addresses with extra high bits set
        {
            let tg = Bounds { n: 3, k: 8, nctx: 9, nvalid: 7, nmod: 2, nplace: 2, syms: MAIN_SYMS, tagged: true, mod_first: 0 };
            for (vi, (arch, os)) in VARIANTS5.iter().enumerate() {
                let b = tg;
                let len = b.k.pow(b.n) * b.nctx * b.nvalid * nsym(*arch, &b) * b.nmod * b.nplace;
                let name = format!("tagged-words-{}-{}", arch.name(), os_name(*os));
                def.spaces.push(Space::new(&name, len, move |idx, l| run_case(vi, &b, idx, l), move |idx| describe(vi, &b, idx)).chunked(4096));
            }
        }
        // both tiers: a symbol file with PUBLIC records only; CFI with a stack-pointer rule that cannot be evaluated
        {
            const PUBLIC_ONLY: &[u64] = &[11, 12, 13];
            let pb = Bounds { n: 3, k: 8, nctx: 8, nvalid: 3, nmod: 2, nplace: 2, syms: PUBLIC_ONLY, tagged: false, mod_first: 0 };
            for (vi, (arch, os)) in VARIANTS5.iter().enumerate() {
                let b = pb;
                let len = b.k.pow(b.n) * b.nctx * b.nvalid * nsym(*arch, &b) * b.nmod * b.nplace;
                let name = format!("public-only-{}-{}", arch.name(), os_name(*os));
                def.spaces.push(Space::new(&name, len, move |idx, l| run_case(vi, &b, idx, l), move |idx| describe(vi, &b, idx)).chunked(4096));
            }
        }
        // both tiers: longer stacks over a three-value alphabet (0, 4095, an address inside a function), no CFI: room
        // for a scanner or a frame-pointer step that lands several words away from where it should
        {
            const NO_CFI: &[u64] = &[0, 1];
            let lg = Bounds { n: 8, k: 3, nctx: 2, nvalid: 3, nmod: 2, nplace: 2, syms: NO_CFI, tagged: false, mod_first: 0 };
            for (vi, (arch, os)) in VARIANTS5.iter().enumerate() {
                let b = lg;
                let len = b.k.pow(b.n) * b.nctx * b.nvalid * nsym(*arch, &b) * b.nmod * b.nplace;
                let name = format!("long-stacks-{}-{}", arch.name(), os_name(*os));
                def.spaces.push(Space::new(&name, len, move |idx, l| run_case(vi, &b, idx, l), move |idx| describe(vi, &b, idx)).chunked(4096));
            }
        }
        // both tiers: the module mapped at address 0 (small integers on the stack point into it)
        {
            const NO_CFI: &[u64] = &[0, 1];
            let lo = Bounds { n: 3, k: 12, nctx: 8, nvalid: 3, nmod: 1, nplace: 2, syms: NO_CFI, tagged: false, mod_first: 4 };
            for (vi, (arch, os)) in VARIANTS5.iter().enumerate() {
                let b = lo;
                let len = b.k.pow(b.n) * b.nctx * b.nvalid * nsym(*arch, &b) * b.nmod * b.nplace;
                let name = format!("module-at-zero-{}-{}", arch.name(), os_name(*os));
                def.spaces.push(Space::new(&name, len, move |idx, l| run_case(vi, &b, idx, l), move |idx| describe(vi, &b, idx)).chunked(4096));
            }
        }
        if !quick {
            for (vi, (arch, os)) in VARIANTS5.iter().enumerate() {
                let b = extras;
                let len = b.k.pow(b.n) * b.nctx * b.nvalid * nsym(*arch, &b) * b.nmod * b.nplace;
                let name = format!("extras-{}-{}", arch.name(), os_name(*os));
                def.spaces.push(Space::new(&name, len, move |idx, l| run_case(vi, &b, idx, l), move |idx| describe(vi, &b, idx)).chunked(4096));
            }
        }
        def
    })
}
