//! C18 — register access by name is consistent for every CPU context.
//! Explicit-state search: state = the real context value, model = map canonical name -> u64.
//! Transitions set(name, value) over every canonical name, documented alias, extra accepted
//! spelling and unknown names; every operation sequence up to the depth bound is replayed on a
//! fresh real context (from two start states) and the full oracle is evaluated in every state.
use minidump::format::*;
use minidump::*;
use std::collections::{BTreeMap, HashSet};
use vh::*;

#[derive(Clone)]
struct Kind<C: Clone> {
    kind: &'static str,
    mk: fn() -> C,
    /// (spelling, canonical) documented aliases
    aliases: &'static [(&'static str, &'static str)],
    /// spellings set/get_always accept but memoize_register does not know (SPARC short names)
    extra: &'static [(&'static str, &'static str)],
    sp: &'static str,
    ip: &'static str,
    wrap: fn(C) -> MinidumpRawContext,
}

const JUNK: &[&str] = &["", "zz", "RAX", "$rax", "r99", "pc ", " sp", "x31", "eax\0", "g_r32", "r-1", "é"];
const VALS: [u64; 3] = [0, u64::MAX, 0x1234_5678_9abc_def1];

fn reg_from<R: TryFrom<u64>>(v: u64, bytes: usize) -> R {
    let m = if bytes == 4 { v & 0xffff_ffff } else { v };
    R::try_from(m).ok().expect("register value fits")
}

fn space_for<C>(k: Kind<C>, depth: u32) -> Space
where
    C: CpuContext + Clone + Send + Sync + 'static,
    C::Register: Into<u64> + TryFrom<u64> + Copy + PartialEq + std::fmt::Debug,
{
    let regs: &'static [&'static str] = C::REGISTERS;
    let bytes = std::mem::size_of::<C::Register>();
    // operation alphabet: (spelling, Some(canonical) | None for unknown) x value
    let mut names: Vec<(&'static str, Option<&'static str>, bool)> = regs.iter().map(|r| (*r, Some(*r), false)).collect();
    names.extend(k.aliases.iter().map(|a| (a.0, Some(a.1), false)));
    names.extend(k.extra.iter().map(|a| (a.0, Some(a.1), true)));
    for j in JUNK {
        if !names.iter().any(|n| n.0 == *j) {
            names.push((j, None, false));
        }
    }
    let nops = (names.len() * VALS.len()) as u64;
    // sequences of length 0..=depth, times 2 start states
    let nseq = seq_count(nops, depth);
    let len = nseq * 2;
    let names2 = names.clone();
    let k2 = k.clone();
    let kind_name = k.kind;
    let desc = move |idx: u64| {
        let start = idx % 2;
        let seq = seq_unrank(idx / 2, nops, depth);
        let ops: Vec<String> = seq.iter().map(|o| format!("set({:?},{:#x})", names2[(*o as usize) / VALS.len()].0, VALS[(*o as usize) % VALS.len()])).collect();
        json!({"context": k2.kind, "start": if start == 0 { "default" } else { "pattern" }, "ops": ops})
    };
    let run = move |idx: u64, l: &mut Local| {
        let start = idx % 2;
        let seq = seq_unrank(idx / 2, nops, depth);
        let mask = if bytes == 4 { 0xffff_ffffu64 } else { u64::MAX };
        // the documented canonical names (what the aliases denote, the stack- and instruction-pointer names) are
        // among the enumerated registers; everything below keys its model by them
        for c in k.aliases.iter().map(|a| a.1).chain(k.extra.iter().map(|a| a.1)).chain([k.sp, k.ip]) {
            if !regs.contains(&c) {
                l.eval();
                l.violation(format!("{}:registers-enum", k.kind), format!("the documented register name {c} is not among the enumerated registers {regs:?}"), json!({}));
                return;
            }
        }
        let mut ctx = (k.mk)();
        let mut model: BTreeMap<&'static str, u64> = BTreeMap::new();
        let mut fail = |l: &mut Local, point: &str, what: String| {
            l.violation(format!("{}:{}", k.kind, point), what, json!({}));
        };
        // start state: default (all zero) or every register holding a distinct pattern (set through canonical names)
        for (i, r) in regs.iter().enumerate() {
            let v = if start == 0 { 0 } else { (0x0101_0101_0101_0101u64.wrapping_mul(i as u64 + 1)) & mask };
            if start == 1 {
                match guard(|| ctx.set_register(r, reg_from::<C::Register>(v, bytes))) {
                    Ok(Some(())) => {}
                    Ok(None) => fail(l, "set-canonical", format!("set_register({r}) refused a name listed in REGISTERS")),
                    Err(p) => l.panic_violation(&p, json!({})),
                }
            }
            model.insert(r, v);
        }
        // apply the whole operation sequence (its proper prefixes are separate cases of this space)
        for depth_now in 0..seq.len() {
            let op = seq[depth_now] as usize;
            let (n, c, _) = names[op / VALS.len()];
            let v = VALS[op % VALS.len()] & mask;
            l.count("transitions", 1);
            match guard(|| ctx.set_register(n, reg_from::<C::Register>(v, bytes))) {
                Ok(r) => match (r, c) {
                    (Some(()), Some(c)) => {
                        model.insert(c, v);
                    }
                    (None, None) => {}
                    (None, Some(_)) => fail(l, "set-refused", format!("set_register({n}) = None for a known name")),
                    (Some(()), None) => fail(l, "set-unknown-ok", format!("set_register({n:?}) accepted an unknown name")),
                },
                Err(p) => l.panic_violation(&p, json!({"set": n})),
            }
        }
        let depth_now = seq.len();
        {
            // ---- oracle on the current state
            l.eval();
            l.count("states_visited", 1);
            l.distinct(&(k.kind, &model));
            // every known spelling reads the model value
            for &(n, c, is_extra) in &names {
                match c {
                    Some(c) => {
                        match guard(|| ctx.get_register_always(n).into()) {
                            Ok(got) => {
                                let got: u64 = got;
                                if got != model[c] {
                                    fail(l, "get_always", format!("get_register_always({n}) = {got:#x}, model[{c}] = {:#x}", model[c]));
                                }
                            }
                            Err(p) => l.panic_violation(&p, json!({"name": n})),
                        }
                        if !is_extra {
                            match guard(|| ctx.get_register(n, &MinidumpContextValidity::All).map(|x| x.into())) {
                                Ok(Some(got)) => {
                                    let got: u64 = got;
                                    if got != model[c] {
                                        fail(l, "get_all", format!("get_register({n}, All) = {got:#x}, model = {:#x}", model[c]));
                                    }
                                }
                                Ok(None) => fail(l, "get_all_none", format!("get_register({n}, All) = None for a known name")),
                                Err(p) => l.panic_violation(&p, json!({"name": n})),
                            }
                            if ctx.memoize_register(n) != Some(c) {
                                fail(l, "memoize", format!("memoize_register({n}) = {:?}, expected {c}", ctx.memoize_register(n)));
                            }
                        }
                    }
                    None => match guard(|| ctx.get_register(n, &MinidumpContextValidity::All).is_some()) {
                        Ok(false) => {}
                        Ok(true) => fail(l, "unknown-readable", format!("unknown name {n:?} is readable under All")),
                        Err(p) => l.panic_violation(&p, json!({"unknown_name": n})),
                    },
                }
            }
            // dispatch through MinidumpContext and the dedicated accessors
            let mc = MinidumpContext::from_raw((k.wrap)(ctx.clone()));
            if mc.get_stack_pointer() != model[canon(&names, k.sp)] {
                fail(l, "sp-accessor", format!("get_stack_pointer {:#x} != register {} = {:#x}", mc.get_stack_pointer(), k.sp, model[canon(&names, k.sp)]));
            }
            if mc.get_instruction_pointer() != model[canon(&names, k.ip)] {
                fail(l, "ip-accessor", format!("get_instruction_pointer {:#x} != register {} = {:#x}", mc.get_instruction_pointer(), k.ip, model[canon(&names, k.ip)]));
            }
            if canon(&names, ctx.stack_pointer_register_name()) != canon(&names, k.sp) || canon(&names, ctx.instruction_pointer_register_name()) != canon(&names, k.ip) {
                fail(l, "sp-ip-names", format!("sp/ip register names {} / {}", ctx.stack_pointer_register_name(), ctx.instruction_pointer_register_name()));
            }
            // the reported names are names for lookups: read by name (validity All) they give what the accessors give
            for (nm, want) in [(ctx.stack_pointer_register_name(), mc.get_stack_pointer()), (ctx.instruction_pointer_register_name(), mc.get_instruction_pointer())] {
                let a: Option<u64> = ctx.get_register(nm, &MinidumpContextValidity::All).map(|v| v.into());
                let b = mc.get_register(nm);
                if a != Some(want) || b != Some(want) {
                    fail(l, "sp-ip-name-lookup", format!("register {nm} (the reported sp / ip name) reads {a:x?} / {b:x?} by name, the accessor gives {want:#x}"));
                }
            }
            let listed: Vec<(&str, u64)> = mc.registers().collect();
            let expect: Vec<(&str, u64)> = regs.iter().map(|r| (*r, model[r])).collect();
            if listed != expect {
                fail(l, "registers-enum", "MinidumpContext::registers() differs from REGISTERS x model".into());
            }
            let listed2: Vec<(&str, u64)> = ctx.registers().map(|(n, v)| (n, v.into())).collect();
            if listed2 != expect {
                fail(l, "registers-enum-trait", "CpuContext::registers() differs from REGISTERS x model".into());
            }
            if mc.general_purpose_registers() != regs {
                fail(l, "gp-enum", "general_purpose_registers() != REGISTERS".into());
            }
            if mc.register_size() != bytes {
                fail(l, "register-size", format!("register_size {} != {bytes}", mc.register_size()));
            }
            for &(n, c, is_extra) in &names {
                let Some(c) = c else {
                    // unknown names through the MinidumpContext dispatch as well: absent, never a panic
                    match guard(|| mc.get_register(n).is_some()) {
                        Ok(false) => {}
                        Ok(true) => fail(l, "dispatch-unknown-readable", format!("MinidumpContext::get_register({n:?}) is Some for an unknown name")),
                        Err(p) => l.panic_violation(&p, json!({"unknown_name": n, "via": "MinidumpContext::get_register"})),
                    }
                    continue;
                };
                if is_extra {
                    continue;
                }
                if mc.get_register_always(n) != model[c] || mc.get_register(n) != Some(model[c]) {
                    fail(l, "dispatch-get", format!("MinidumpContext get {n}: {:#x} / {:?}, model {:#x}", mc.get_register_always(n), mc.get_register(n), model[c]));
                }
                let f = mc.format_register(n);
                let want = if bytes == 4 { format!("0x{:08x}", model[c]) } else { format!("0x{:016x}", model[c]) };
                if f != want {
                    fail(l, "format", format!("format_register({n}) = {f}, expected {want}"));
                }
            }
            // validity sets (state independent, so only near the start states)
            if depth_now <= 1 {
                check_validity(&k, &names, &ctx, &model, l);
            }
        }
    };
    Space::new(kind_name, len, run, desc).chunked(64)
}
fn canon<'a>(names: &'a [(&'static str, Option<&'static str>, bool)], n: &str) -> &'static str {
    names.iter().find(|x| x.0 == n).and_then(|x| x.1).expect("sp/ip name is a known register")
}

fn check_validity<C>(k: &Kind<C>, names: &[(&'static str, Option<&'static str>, bool)], ctx: &C, model: &BTreeMap<&'static str, u64>, l: &mut Local)
where
    C: CpuContext + Clone,
    C::Register: Into<u64> + Copy,
{
    let known: Vec<(&'static str, &'static str)> = names.iter().filter(|n| n.1.is_some() && !n.2).map(|n| (n.0, n.1.unwrap())).collect();
    let mut fail = |l: &mut Local, point: &str, what: String| {
        l.violation(format!("{}:{}", k.kind, point), what, json!({}));
    };
    // empty set: nothing valid
    let empty = MinidumpContextValidity::Some(HashSet::new());
    for &(q, _) in &known {
        l.eval();
        if ctx.get_register(q, &empty).is_some() || ctx.register_is_valid(q, &empty) {
            fail(l, "valid-empty", format!("empty validity set, yet {q} is valid"));
        }
    }
    if ctx.valid_registers(&empty).count() != 0 {
        fail(l, "valid-empty-enum", "valid_registers(empty) is not empty".into());
    }
    // singleton by every spelling (canonical and alias)
    for &(n, c) in &known {
        let set: HashSet<&'static str> = [n].into_iter().collect();
        let valid = MinidumpContextValidity::Some(set);
        for &(q, qc) in &known {
            l.eval();
            let expect = qc == c;
            let got = ctx.get_register(q, &valid).map(|v| v.into());
            let isv = ctx.register_is_valid(q, &valid);
            if got.is_some() != expect || isv != expect {
                fail(l, "valid-singleton", format!("validity {{{n}}}: get_register({q}).is_some() = {}, register_is_valid = {isv}, expected {expect}", got.is_some()));
            } else if let Some(v) = got {
                let v: u64 = v;
                if v != model[qc] {
                    fail(l, "valid-singleton-value", format!("validity {{{n}}}: get_register({q}) = {v:#x}, model {:#x}", model[qc]));
                }
            }
        }
        let mc = MinidumpContext { raw: (k.wrap)(ctx.clone()), valid: valid.clone() };
        let vr: Vec<(&str, u64)> = mc.valid_registers().collect();
        if vr != vec![(c, model[c])] {
            fail(l, "valid-enum", format!("validity {{{n}}}: MinidumpContext::valid_registers() = {vr:?}, expected [({c}, {:#x})]", model[c]));
        }
        for &(q, qc) in &known {
            if mc.get_register(q).is_some() != (qc == c) {
                fail(l, "valid-dispatch", format!("validity {{{n}}}: MinidumpContext::get_register({q}) = {:?}", mc.get_register(q)));
            }
        }
        for j in JUNK {
            if names.iter().any(|x| x.0 == *j && x.1.is_some()) {
                continue;
            }
            match guard(|| ctx.get_register(j, &valid).is_some()) {
                Ok(false) => {}
                Ok(true) => fail(l, "valid-unknown", format!("validity {{{n}}}: unknown name {j:?} is readable")),
                Err(p) => l.panic_violation(&p, json!({"unknown_name": j})),
            }
        }
    }
    // a mixed set: first and last canonical name and every documented alias spelling: valid are exactly the first, the
    // last and the registers the aliases denote (the trait-level enumeration may spell a register as the set does)
    {
        let mut set: HashSet<&'static str> = [C::REGISTERS[0], C::REGISTERS[C::REGISTERS.len() - 1]].into_iter().collect();
        set.extend(k.aliases.iter().map(|a| a.0));
        let mut want_names: Vec<&'static str> = vec![C::REGISTERS[0], C::REGISTERS[C::REGISTERS.len() - 1]];
        want_names.extend(k.aliases.iter().map(|a| a.1));
        want_names.sort();
        want_names.dedup();
        let valid = MinidumpContextValidity::Some(set);
        l.eval();
        let mut vr: Vec<(&str, u64)> = ctx.valid_registers(&valid).map(|(n, v)| (canon(names, n), v.into())).collect();
        vr.sort();
        vr.dedup();
        let want: Vec<(&str, u64)> = want_names.iter().map(|r| (*r, model[r])).collect();
        if vr != want {
            fail(l, "valid-mixed-enum", format!("mixed validity set: valid_registers() = {vr:x?}, expected {want:x?}"));
        }
        let mc = MinidumpContext { raw: (k.wrap)(ctx.clone()), valid };
        let mut vr: Vec<(&str, u64)> = mc.valid_registers().collect();
        vr.sort();
        if vr != want {
            fail(l, "valid-mixed-dispatch-enum", format!("mixed validity set: MinidumpContext::valid_registers() = {vr:x?}, expected {want:x?}"));
        }
    }
    // the same with the extra spellings that are no register names for lookups (SPARC window names) thrown in: how
    // those count is not documented, but the first and the last register must be enumerated whatever else the set holds
    if !k.extra.is_empty() {
        let mut set: HashSet<&'static str> = [C::REGISTERS[0], C::REGISTERS[C::REGISTERS.len() - 1]].into_iter().collect();
        set.extend(k.extra.iter().map(|a| a.0));
        let valid = MinidumpContextValidity::Some(set);
        l.eval();
        match guard(|| ctx.valid_registers(&valid).map(|(n, v)| (n, v.into())).collect::<Vec<(&str, u64)>>()) {
            Ok(vr) => {
                for r in [C::REGISTERS[0], C::REGISTERS[C::REGISTERS.len() - 1]] {
                    if !vr.contains(&(r, model[r])) {
                        fail(l, "valid-mixed-extra-enum", format!("validity set with window names: {r} is in the set but valid_registers() lists {vr:x?}"));
                    }
                }
            }
            Err(p) => l.panic_violation(&p, json!({"validity_set": "first + last + window names"})),
        }
        // whatever a window name in the set means, the context type itself and the MinidumpContext wrapped around
        // it are two views of one register file and one validity set: they answer every name alike
        let mc = MinidumpContext { raw: (k.wrap)(ctx.clone()), valid: valid.clone() };
        for q in C::REGISTERS.iter().copied().chain(k.extra.iter().map(|a| a.0)) {
            l.eval();
            match guard(|| (ctx.get_register(q, &valid).map(|v| v.into()), mc.get_register(q))) {
                Ok((a, b)) => {
                    let a: Option<u64> = a;
                    if a != b {
                        fail(l, "valid-mixed-extra-trait-vs-dispatch", format!("validity set with window names: {q} reads {a:x?} through the context type and {b:x?} through MinidumpContext"));
                    }
                }
                Err(p) => l.panic_violation(&p, json!({"validity_set": "first + last + window names", "name": q})),
            }
        }
    }
    // full set, spelled canonically: exactly REGISTERS are valid, aliases included
    let full: HashSet<&'static str> = C::REGISTERS.iter().copied().collect();
    let valid = MinidumpContextValidity::Some(full);
    for &(q, qc) in &known {
        l.eval();
        let got: Option<u64> = ctx.get_register(q, &valid).map(|v| v.into());
        if got != Some(model[qc]) {
            fail(l, "valid-full", format!("full validity set: get_register({q}) = {got:?}, model {:#x}", model[qc]));
        }
    }
    let mut vr: Vec<(&str, u64)> = ctx.valid_registers(&valid).map(|(n, v)| (n, v.into())).collect();
    vr.sort();
    let mut want: Vec<(&str, u64)> = C::REGISTERS.iter().map(|r| (*r, model[r])).collect();
    want.sort();
    if vr != want {
        fail(l, "valid-full-enum", "valid_registers(full) != REGISTERS x model".into());
    }
    let mc = MinidumpContext { raw: (k.wrap)(ctx.clone()), valid };
    let vr: Vec<(&str, u64)> = mc.valid_registers().collect();
    let want: Vec<(&str, u64)> = C::REGISTERS.iter().map(|r| (*r, model[r])).collect();
    if vr != want {
        fail(l, "valid-full-dispatch-enum", "MinidumpContext::valid_registers(full) != REGISTERS x model".into());
    }
}

fn z<T>() -> T
where
    T: for<'a> scroll::ctx::TryFromCtx<'a, scroll::Endian, [u8], Error = scroll::Error>,
{
    use scroll::Pread;
    let b = vec![0u8; 4096];
    b.pread_with::<T>(0, scroll::LE).expect("zeroed context")
}

const ARM_ALIASES: &[(&str, &str)] = &[("r11", "fp"), ("r13", "sp"), ("r14", "lr"), ("r15", "pc")];
const ARM64_ALIASES: &[(&str, &str)] = &[("x29", "fp"), ("x30", "lr")];
const SPARC_EXTRA: &[(&str, &str)] = &[
    ("g0", "g_r0"), ("g1", "g_r1"), ("g2", "g_r2"), ("g3", "g_r3"), ("g4", "g_r4"), ("g5", "g_r5"), ("g6", "g_r6"), ("g7", "g_r7"),
    ("o0", "g_r8"), ("o1", "g_r9"), ("o2", "g_r10"), ("o3", "g_r11"), ("o4", "g_r12"), ("o5", "g_r13"), ("o6", "g_r14"), ("o7", "g_r15"),
    ("l0", "g_r16"), ("l1", "g_r17"), ("l2", "g_r18"), ("l3", "g_r19"), ("l4", "g_r20"), ("l5", "g_r21"), ("l6", "g_r22"), ("l7", "g_r23"),
    ("i0", "g_r24"), ("i1", "g_r25"), ("i2", "g_r26"), ("i3", "g_r27"), ("i4", "g_r28"), ("i5", "g_r29"), ("i6", "g_r30"), ("i7", "g_r31"),
];

/// Space `cross-context`: what one CPU's context knows must not depend on which other CPU's context was used
/// before on the same thread. For every ordered pair (A, B) of the 9 context types and every spelling in the
/// union of all register tables, aliases, extra spellings and junk: read the name through A (raw trait and
/// MinidumpContext dispatch), then B must still know exactly its own names.
fn cross_space() -> Space {
    type Tab = (&'static str, fn() -> MinidumpRawContext, &'static [&'static str], &'static [(&'static str, &'static str)]);
    fn tabs() -> Vec<Tab> {
        vec![
            ("x86", || MinidumpRawContext::X86(Default::default()), CONTEXT_X86::REGISTERS, &[]),
            ("amd64", || MinidumpRawContext::Amd64(Default::default()), CONTEXT_AMD64::REGISTERS, &[]),
            ("arm", || MinidumpRawContext::Arm(Default::default()), CONTEXT_ARM::REGISTERS, ARM_ALIASES),
            ("arm64", || MinidumpRawContext::Arm64(Default::default()), CONTEXT_ARM64::REGISTERS, ARM64_ALIASES),
            ("arm64_old", || MinidumpRawContext::OldArm64(Default::default()), CONTEXT_ARM64_OLD::REGISTERS, ARM64_ALIASES),
            ("ppc", || MinidumpRawContext::Ppc(z()), CONTEXT_PPC::REGISTERS, &[]),
            ("ppc64", || MinidumpRawContext::Ppc64(z()), CONTEXT_PPC64::REGISTERS, &[]),
            ("mips", || MinidumpRawContext::Mips(Default::default()), CONTEXT_MIPS::REGISTERS, &[]),
            ("sparc", || MinidumpRawContext::Sparc(z()), CONTEXT_SPARC::REGISTERS, &[]),
        ]
    }
    let mut names: Vec<&'static str> = vec![];
    for t in tabs() {
        for n in t.2.iter().copied().chain(t.3.iter().map(|a| a.0)) {
            if !names.contains(&n) {
                names.push(n);
            }
        }
    }
    for n in SPARC_EXTRA.iter().map(|a| a.0).chain(JUNK.iter().copied()) {
        if !names.contains(&n) {
            names.push(n);
        }
    }
    let names = std::sync::Arc::new(names);
    let n_names = names.len() as u64;
    let len = 9 * 9 * n_names;
    let names2 = names.clone();
    let run = move |idx: u64, l: &mut Local| {
        let d = unrank(idx, &[9, 9, n_names]);
        let (ta, tb, n) = (&tabs()[d[0] as usize], &tabs()[d[1] as usize], names[d[2] as usize]);
        l.eval();
        // 1. the name goes through A
        let a = MinidumpContext::from_raw((ta.1)());
        let first = guard(|| a.get_register(n).is_some());
        if let Err(p) = &first {
            l.panic_violation(p, json!({"first_context": ta.0, "name": n}));
            return;
        }
        // 2. B knows exactly its own names
        let known = tb.2.contains(&n) || tb.3.iter().any(|x| x.0 == n);
        let mut b = MinidumpContext::from_raw((tb.1)());
        let got = guard(|| {
            let r = b.get_register(n).is_some();
            let set = b.raw_set(n);
            (r, set)
        });
        match got {
            Err(p) => l.panic_violation(&p, json!({"first_context": ta.0, "second_context": tb.0, "name": n, "known_to_second": known})),
            Ok((r, set)) => {
                l.outcome(if known { "known-to-second" } else { "unknown-to-second" });
                // SPARC: set_register also accepts the short window names (carve-out stated under assumptions)
                let set_known = known || (tb.0 == "sparc" && SPARC_EXTRA.iter().any(|x| x.0 == n));
                if r != known || set != set_known {
                    l.violation(
                        "c18:cross-context:knowledge-of-a-name-depends-on-history",
                        format!("after reading {n:?} through a {} context, a {} context answers get_register -> {} / set_register -> {} although the name is {} one of its registers", ta.0, tb.0, if r { "Some" } else { "None" }, if set { "Some" } else { "None" }, if known { "" } else { "not" }),
                        json!({"first_context": ta.0, "second_context": tb.0, "name": n}),
                    );
                }
                l.distinct(&("cross", tb.0, n, r));
            }
        }
    };
    Space::new("cross-context", len, run, move |idx| {
        let d = unrank(idx, &[9, 9, n_names]);
        json!({"class": "cross-context", "first": tabs()[d[0] as usize].0, "second": tabs()[d[1] as usize].0, "name": names2[d[2] as usize]})
    })
    // whole space on one worker: the history lives in the thread
    .chunked(len)
}

trait RawSet {
    fn raw_set(&mut self, name: &str) -> bool;
}
impl RawSet for MinidumpContext {
    fn raw_set(&mut self, name: &str) -> bool {
        match &mut self.raw {
            MinidumpRawContext::X86(c) => c.set_register(name, 1).is_some(),
            MinidumpRawContext::Amd64(c) => c.set_register(name, 1).is_some(),
            MinidumpRawContext::Arm(c) => c.set_register(name, 1).is_some(),
            MinidumpRawContext::Arm64(c) => c.set_register(name, 1).is_some(),
            MinidumpRawContext::OldArm64(c) => c.set_register(name, 1).is_some(),
            MinidumpRawContext::Ppc(c) => c.set_register(name, 1).is_some(),
            MinidumpRawContext::Ppc64(c) => c.set_register(name, 1).is_some(),
            MinidumpRawContext::Mips(c) => c.set_register(name, 1).is_some(),
            MinidumpRawContext::Sparc(c) => c.set_register(name, 1).is_some(),
        }
    }
}

fn main() {
    run_check("C18", |ctx| {
        let d = ctx.tier.pick(2, 3);
        let mut def = CheckDef::new(
            "C18",
            "model_checking",
            "explicit-state: every sequence of set(name,value) operations up to the depth bound over {canonical names, documented aliases, extra accepted spellings, unknown names} x 3 values, replayed on the real context from two start states (default, all-pattern); in every reached state every name is read through every accessor and compared with a map model; validity-set classes (empty, every singleton by name and alias, full) are checked in states of depth <= 1. Space cross-context: for every ordered pair of context types and every spelling of the union of all tables, the name is read through the first type and the second must then know exactly its own names (one worker thread, so per-thread history accumulates). distinct_nontrivial = distinct model states reached (context kind, register map).",
        );
        def.assumptions = vec![
            "alias tables (ARM r11/r13/r14/r15, ARM64 x29/x30) and SPARC short names are taken from the documentation of context.rs, not derived from the implementation".into(),
            "SPARC short names (g0..i7) are accepted by set/get_always but are not names for get_register/memoize_register (carve-out, DESIGN C18)".into(),
            "values are 3 per operation (0, all-ones, a pattern), masked to the register width".into(),
        ];
        def.extra.insert("depth_bound".into(), json!(d));
        def.spaces = vec![
            space_for(Kind::<CONTEXT_X86> { kind: "x86", mk: Default::default, aliases: &[], extra: &[], sp: "esp", ip: "eip", wrap: MinidumpRawContext::X86 }, d),
            space_for(Kind::<CONTEXT_AMD64> { kind: "amd64", mk: Default::default, aliases: &[], extra: &[], sp: "rsp", ip: "rip", wrap: MinidumpRawContext::Amd64 }, d),
            space_for(Kind::<CONTEXT_ARM> { kind: "arm", mk: Default::default, aliases: ARM_ALIASES, extra: &[], sp: "sp", ip: "pc", wrap: MinidumpRawContext::Arm }, d),
            space_for(Kind::<CONTEXT_ARM64> { kind: "arm64", mk: Default::default, aliases: ARM64_ALIASES, extra: &[], sp: "sp", ip: "pc", wrap: MinidumpRawContext::Arm64 }, d),
            space_for(Kind::<CONTEXT_ARM64_OLD> { kind: "arm64_old", mk: Default::default, aliases: ARM64_ALIASES, extra: &[], sp: "sp", ip: "pc", wrap: MinidumpRawContext::OldArm64 }, d),
            space_for(Kind::<CONTEXT_PPC> { kind: "ppc", mk: z, aliases: &[], extra: &[], sp: "r1", ip: "srr0", wrap: MinidumpRawContext::Ppc }, d),
            space_for(Kind::<CONTEXT_PPC64> { kind: "ppc64", mk: z, aliases: &[], extra: &[], sp: "r1", ip: "srr0", wrap: MinidumpRawContext::Ppc64 }, d),
            space_for(Kind::<CONTEXT_MIPS> { kind: "mips", mk: Default::default, aliases: &[], extra: &[], sp: "sp", ip: "pc", wrap: MinidumpRawContext::Mips }, d),
            space_for(Kind::<CONTEXT_SPARC> { kind: "sparc", mk: z, aliases: &[], extra: SPARC_EXTRA, sp: "g_r14", ip: "pc", wrap: MinidumpRawContext::Sparc }, d),
        ];
        def.spaces.push(cross_space());
        def.finish = Some(Box::new(|total, extra| {
            let states = total.distinct.len() as u64;
            let transitions = total.counters.get("transitions").copied().unwrap_or(0);
            extra.insert("states".into(), json!(states.max(1)));
            extra.insert("transitions".into(), json!(transitions.max(1)));
            // every explored operation sequence is executed on the real implementation
            extra.insert("traces_validated_against_impl".into(), json!(total.counters.get("states_visited").copied().unwrap_or(0)));
        }));
        def
    })
}
