//! C03 — processing any dump with any symbols terminates, never panics, always renders.
//! Engine E1 in sandboxed workers: every case = (dump bytes, symbol bytes served to every
//! module, option set) run through the REAL process_minidump_with_options + all four renderers
//! under panic guard, wall budget, allocation cap; afterwards the frame budget (frames <= stack
//! bytes + 2 per thread) and JSON validity are checked.
use minidump::{Minidump, MinidumpMemoryList, MinidumpMiscInfo, MinidumpSystemInfo, MinidumpThreadList, UnifiedMemoryList};
use minidump_common::format as md;
use minidump_processor::*;
use minidump_synth as synth;
use std::collections::HashMap;
use std::sync::Arc;
use test_assembler::{Endian, Section};
use vh::procgen::{self, CpuK, ExcM, MapsM, Model, ThreadM};
use vh::*;

const WALL_MS: u64 = 8_000;
const HARD_CAP: usize = 768 << 20;

fn sb(chunk: u64) -> Sandbox {
    Sandbox { wall_ms: WALL_MS, hard_cap: HARD_CAP, chunk }
}

// ------------------------------------------------------------------------------------------
// driver

/// serves the same bytes to every module that is asked for
struct AnySupplier {
    bytes: Option<Vec<u8>>,
}
#[async_trait::async_trait]
impl breakpad_symbols::SymbolSupplier for AnySupplier {
    async fn locate_symbols(&self, _m: &(dyn breakpad_symbols::Module + Sync)) -> Result<breakpad_symbols::LocateSymbolsResult, breakpad_symbols::SymbolError> {
        match &self.bytes {
            Some(b) => Ok(breakpad_symbols::LocateSymbolsResult { symbols: breakpad_symbols::SymbolFile::from_bytes(b)?, extra_debug_info: None }),
            None => Err(breakpad_symbols::SymbolError::NotFound),
        }
    }
    async fn locate_file(&self, _m: &(dyn breakpad_symbols::Module + Sync), _k: breakpad_symbols::FileKind) -> Result<std::path::PathBuf, breakpad_symbols::FileError> {
        Err(breakpad_symbols::FileError::NotFound)
    }
}

thread_local! {
    static RT: tokio::runtime::Runtime = tokio::runtime::Builder::new_current_thread().build().expect("tokio runtime");
}

fn options(i: u64) -> (&'static str, ProcessorOptions<'static>) {
    match i % 3 {
        0 => ("stable_basic", ProcessorOptions::stable_basic()),
        1 => ("stable_all", ProcessorOptions::stable_all()),
        _ => ("unstable_all", ProcessorOptions::unstable_all()),
    }
}

/// stack budget of thread i: the bytes of the thread's own stack memory, or of the region holding its sp
fn stack_budgets(dump: &Minidump<'_, &[u8]>) -> Vec<u64> {
    let Ok(tl) = dump.get_stream::<MinidumpThreadList>() else { return vec![] };
    let mem = dump.get_memory().unwrap_or_default();
    let sys = dump.get_stream::<MinidumpSystemInfo>().ok();
    let misc = dump.get_stream::<MinidumpMiscInfo>().ok();
    tl.threads
        .iter()
        .map(|t| {
            let own = t.stack_memory(&mem).map(|m| m.size()).unwrap_or(0);
            let by_sp = sys
                .as_ref()
                .and_then(|s| t.context(s, misc.as_ref()))
                .and_then(|c| mem.memory_at_address(c.get_stack_pointer()))
                .map(|m| m.size())
                .unwrap_or(0);
            // the exception context may move the walk to another region: be generous, take the largest region too
            let largest = mem.iter().map(|m| m.size()).max().unwrap_or(0);
            own.max(by_sp).max(largest)
        })
        .collect()
}

fn run_case(bytes: &[u8], syms: &Option<Vec<u8>>, opt: u64, l: &mut Local, detail: &dyn Fn() -> Value) {
    l.eval();
    let dump = match guard(|| Minidump::read(bytes)) {
        Ok(Ok(d)) => d,
        Ok(Err(_)) => {
            l.outcome("not a minidump");
            return;
        }
        Err(p) => {
            l.panic_violation(&p, detail());
            return;
        }
    };
    let budgets = match guard(|| stack_budgets(&dump)) {
        Ok(b) => b,
        Err(p) => {
            l.panic_violation(&p, detail());
            return;
        }
    };
    let (oname, opts) = options(opt);
    let provider = minidump_unwind::Symbolizer::new(AnySupplier { bytes: syms.clone() });
    let res = guard(|| RT.with(|rt| rt.block_on(process_minidump_with_options(&dump, &provider, opts))));
    let state = match res {
        Ok(Ok(s)) => s,
        Ok(Err(e)) => {
            l.outcome(&format!("process error: {}", e.name()));
            return;
        }
        Err(p) => {
            l.panic_violation(&p, json!({"case": detail(), "options": oname}));
            return;
        }
    };
    // frame budget
    for (i, t) in state.threads.iter().enumerate() {
        let b = budgets.get(i).copied().unwrap_or(0).saturating_add(2);
        if t.frames.len() as u64 > b {
            l.violation("c03:frame-budget", format!("thread {i} was walked for {} frames, its stack memory has {} bytes (+2)", t.frames.len(), b - 2), json!({"case": detail(), "options": oname}));
        }
    }
    let max_frames = state.threads.iter().map(|t| t.frames.len()).max().unwrap_or(0);
    // renderers
    let mut outs: Vec<(&str, Vec<u8>)> = vec![];
    for (name, f) in [
        ("print", Box::new(|s: &ProcessState, o: &mut Vec<u8>| s.print(o).map_err(|e| e.to_string())) as Box<dyn Fn(&ProcessState, &mut Vec<u8>) -> Result<(), String>>),
        ("print_brief", Box::new(|s: &ProcessState, o: &mut Vec<u8>| s.print_brief(o).map_err(|e| e.to_string()))),
        ("print_json", Box::new(|s: &ProcessState, o: &mut Vec<u8>| s.print_json(o, false).map_err(|e| e.to_string()))),
        ("print_json_pretty", Box::new(|s: &ProcessState, o: &mut Vec<u8>| s.print_json(o, true).map_err(|e| e.to_string()))),
    ] {
        let mut o = vec![];
        match guard(|| f(&state, &mut o)) {
            Ok(Ok(())) => outs.push((name, o)),
            Ok(Err(e)) => l.violation(format!("c03:renderer-error:{name}"), format!("{name} returned an error: {e}"), json!({"case": detail(), "options": oname})),
            Err(p) => l.panic_violation(&p, json!({"case": detail(), "options": oname, "renderer": name})),
        }
    }
    for (name, o) in &outs {
        if name.starts_with("print_json") {
            if let Err(e) = procgen::parse_json(o) {
                l.violation("c03:json-invalid", format!("{name} wrote invalid JSON: {e}"), json!({"case": detail(), "options": oname}));
            }
        }
    }
    l.outcome(&format!("processed: threads={} max_frames={}", state.threads.len().min(3), if max_frames > 3 { ">3".to_string() } else { max_frames.to_string() }));
    l.distinct(&(state.threads.len(), state.threads.iter().map(|t| (t.frames.len(), t.frames.iter().map(|f| f.trust.as_str()).collect::<Vec<_>>())).collect::<Vec<_>>(), state.exception_info.as_ref().map(|e| e.reason.to_string()), oname));
}

// ------------------------------------------------------------------------------------------
// symbol menus

const SYM_CFI: &str = "MODULE Linux x86_64 000000000000000000000000000000000 m\nFILE 0 a.c\nFUNC 0 100000 0 everything\n0 100000 1 0\nSTACK CFI INIT 0 100000 .cfa: $rsp 16 + .ra: .cfa -8 + ^ $rbp: .cfa -16 + ^\nSTACK CFI INIT 0 100000 .cfa: sp 16 + .ra: .cfa -8 + ^ x29: .cfa -16 + ^\n";
const SYM_WIN: &str = "MODULE windows x86 000000000000000000000000000000000 m\nFUNC 0 100000 8 everything\nSTACK WIN 4 0 100000 1 0 8 4 10 0 1 $T0 $ebp = $eip $T0 4 + ^ = $ebp $T0 ^ = $esp $T0 8 + =\n";
const SYM_MEMFREE: &str = "MODULE Linux x86_64 000000000000000000000000000000000 m\nSTACK CFI INIT 0 ffffffff .cfa: $rsp 1 + .ra: 4096\nSTACK CFI INIT 0 ffffffff .cfa: $esp 1 + .ra: 4096\nSTACK CFI INIT 0 ffffffff .cfa: sp 1 + .ra: 4096\n";
const SYM_OVERLAP: &str = "MODULE Linux x86_64 000000000000000000000000000000000 m\nFUNC 1000 11 0 first\nFUNC 1010 10 0 second\nFUNC 1010 10 0 second\nFUNC 1800 100 0 outer\nFUNC 1810 10 0 inner\nFUNC 2000 10 0 a\n2000 9 1 0\n2008 8 2 0\nFUNC 2010 10 0 b\nPUBLIC 1000 0 p\nSTACK CFI INIT 1000 11 .cfa: $rsp 8 + .ra: .cfa -8 + ^\nSTACK CFI INIT 1010 10 .cfa: $rsp 16 + .ra: .cfa -8 + ^\nSTACK WIN 4 1000 11 0 0 0 0 0 0 1 $eip .raSearch ^ = $esp .raSearch 4 + =\nSTACK WIN 4 1010 10 0 0 0 0 0 0 1 $eip .raSearch ^ = $esp .raSearch 4 + =\nSTACK WIN 0 1000 11 0 0 0 0 0 0 0 0\nSTACK WIN 0 1010 10 0 0 0 0 0 0 0 0\nFUNC 6000 0 0 empty\nFUNC 6100 10 0 emptyline\n6100 0 1 0\nSTACK CFI INIT 5000 0 .cfa: $rsp 8 + .ra: .cfa -8 + ^\nSTACK CFI INIT 0 0 .cfa: $rsp 8 + .ra: .cfa -8 + ^\nSTACK WIN 4 7000 0 0 0 0 0 0 0 1 $eip .raSearch ^ =\nSTACK WIN 0 7100 0 0 0 0 0 0 0 0 0\n";
const SYM_PINGPONG: &str = "MODULE Linux x86_64 000000000000000000000000000000000 m\nSTACK CFI INIT 0 2000 .cfa: $rsp .ra: 12288\nSTACK CFI INIT 2000 fffffff .cfa: $rsp .ra: 4096\nSTACK CFI INIT 0 2000 .cfa: $esp .ra: 12288\nSTACK CFI INIT 2000 fffffff .cfa: $esp .ra: 4096\nSTACK CFI INIT 0 2000 .cfa: sp .ra: 12288\nSTACK CFI INIT 2000 fffffff .cfa: sp .ra: 4096\n";
const SYM_ARGS: &str = "MODULE windows x86 000000000000000000000000000000000 m\nFUNC 0 800 c zeichne(\u{e9},int h)\nFUNC 800 800 10 f(std::map<a,b>,\u{1F600} x,(*)(int,\u{fc}),\u{e9})\nFUNC 1000 ff000 8 g(\u{e9}\u{e9}\u{e9}\u{e9},\u{20ac})\nSTACK WIN 4 0 100000 1 0 c 4 10 0 1 $T0 $ebp = $eip $T0 4 + ^ = $ebp $T0 ^ = $esp $T0 8 + =\n";
fn sym_menu() -> Vec<(&'static str, Option<Vec<u8>>)> {
    vec![
        ("absent", None),
        ("empty", Some(vec![])),
        ("cfi+func", Some(SYM_CFI.as_bytes().to_vec())),
        ("stack-win", Some(SYM_WIN.as_bytes().to_vec())),
        ("memory-free-cfi", Some(SYM_MEMFREE.as_bytes().to_vec())),
        ("corrupt", Some(SYM_CFI.replace("FUNC 0", "FUNC zz").into_bytes())),
        // records that overlap by exactly one byte, touch, nest and repeat (the parser's repair rules), and records
        // of size 0 of every kind
        ("overlapping-records", Some(SYM_OVERLAP.as_bytes().to_vec())),
        // function names with argument lists containing multi-byte characters, templates and nested parentheses
        // (x86 argument recovery under unstable_all slices the name at comma positions)
        ("x86-argument-lists", Some(SYM_ARGS.as_bytes().to_vec())),
        // a line longer than the parser's window, then a tail without final newline (the recovery path of the parser)
        ("over-long-line-then-unterminated-tail", Some({ let mut v = SYM_CFI.as_bytes().to_vec(); v.extend_from_slice(b"PUBLIC 10 0 "); v.extend(std::iter::repeat(b'x').take(170 * 1024)); v.extend_from_slice(b"\nPUBLIC 20 0 tail"); v })),
        // two CFI ranges that send control to each other without moving the stack pointer
        ("ping-pong-cfi", Some(SYM_PINGPONG.as_bytes().to_vec())),
        ("non-utf8", Some([SYM_CFI.as_bytes(), b"PUBLIC 10 0 \xff\xfe\n"].concat())),
    ]
}

// ------------------------------------------------------------------------------------------
// space A: one-deviation mutations of the seed dumps x symbol menu

fn put(b: &mut [u8], off: usize, w: usize, v: u64, big: bool) {
    let bytes = v.to_le_bytes();
    for i in 0..w {
        b[off + i] = if big { bytes[w - 1 - i] } else { bytes[i] };
    }
}
fn mutated_space(tier: Tier, seed: u64) -> Space {
    let seeds: Vec<vh::seeds::Seed> = vh::seeds::synthetic_seeds();
    let menu = Arc::new(sym_menu());
    // per seed: offsets aligned to 4 x widths {4, 8} x values
    struct Tab {
        name: String,
        bytes: Vec<u8>,
        big: bool,
        vals: Vec<u64>,
        n: u64,
    }
    let mut tabs = vec![];
    let mut starts = vec![];
    let mut acc = 0u64;
    for (name, bytes) in seeds {
        let len = bytes.len() as u64;
        let big = &bytes[0..4] == b"PMDM";
        let mut vals = vec![0u64, 1, len - 1, len, len + 1, 1 << 31, u32::MAX as u64, 0xffff_fff0, 0x7fff_ffff, 32];
        if let Some(lay) = vh::seeds::layout(&bytes) {
            for d in &lay.entries {
                vals.push(d.rva as u64);
                vals.push(d.rva as u64 + d.size as u64);
            }
        }
        vals.sort();
        vals.dedup();
        let n = (bytes.len() as u64 / 4) * 2 * vals.len() as u64;
        starts.push(acc);
        acc += n;
        tabs.push(Tab { name, bytes, big, vals, n });
    }
    let total = acc;
    let tabs = Arc::new((tabs, starts));
    // quick: shard (seed mod K) of the mutation space, completely; thorough: everything
    let k = if tier == Tier::Thorough { 1 } else { 8 };
    let shard = seed % k;
    let n_mut = (total + k - 1 - shard) / k;
    let nmenu = menu.len() as u64;
    let (t1, m1) = (tabs.clone(), menu.clone());
    let gen = move |idx: u64| -> (Vec<u8>, usize, u64, Value) {
        let mut mi = (idx % nmenu) as usize;
        let j = (idx / nmenu) * k + shard;
        // the 170 KiB symbol file is expensive to parse: serve it for every 16th mutation only
        if m1[mi].0.starts_with("over-long") && j % 16 != 0 {
            mi = 0;
        }
        let (tabs, starts) = &*t1;
        let ti = starts.partition_point(|s| *s <= j) - 1;
        let t = &tabs[ti];
        let r = j - starts[ti];
        let nv = t.vals.len() as u64;
        let v = t.vals[(r % nv) as usize];
        let w = if (r / nv) % 2 == 0 { 4 } else { 8 };
        let off = ((r / nv / 2) * 4) as usize;
        let mut b = t.bytes.clone();
        if off + w <= b.len() {
            put(&mut b, off, w, v, t.big);
        }
        let _ = t.n;
        (b, mi, j, json!({"class": format!("mutated:{}", t.name), "seed": t.name, "offset": off, "width": w, "value": format!("{v:#x}"), "symbols": m1[mi].0}))
    };
    let g2 = gen.clone();
    let m2 = menu.clone();
    Space::new(
        "mutated-seeds",
        n_mut * nmenu,
        move |idx, l| {
            let (b, mi, j, d) = gen(idx);
            run_case(&b, &m2[mi].1, j, l, &|| d.clone());
        },
        move |idx| g2(idx).3,
    )
    .sandboxed(sb(512))
}

// ------------------------------------------------------------------------------------------
// own dump builder for the targeted spaces

fn bytes_section(b: &[u8]) -> Section {
    Section::with_endian(Endian::Little).append_bytes(b)
}
#[derive(Clone)]
struct Wd {
    cpu: CpuK,
    platform: u32,
    ip: u64,
    sp: u64,
    stack_base: u64,
    stack: Vec<u8>,
    /// (base, size, name)
    modules: Vec<(u64, u32, &'static str)>,
    limits: Option<Vec<u8>>,
    with_exception: bool,
}
fn build_wd(w: &Wd) -> Vec<u8> {
    let e = Endian::Little;
    let mut d = synth::SynthMinidump::with_endian(e);
    let cb = w.cpu.context(w.ip, w.sp).unwrap_or_else(|| vec![0xCD; 24]);
    let (mut ctx_size, mut ctx_rva) = (0u32, 0u32);
    if w.with_exception {
        d = d.add(bytes_section(&cb));
        ctx_size = cb.len() as u32;
        ctx_rva = 32;
    }
    d = d.add_system_info(synth::SystemInfo::new(e).set_processor_architecture(w.cpu.arch()).set_platform_id(w.platform));
    let ctx = bytes_section(&cb);
    // an empty stack gives a zero-length region, which the reader refuses: a thread without stack memory
    let stack = synth::Memory::with_section(bytes_section(&w.stack), w.stack_base);
    d = d.add_thread(synth::Thread::new(e, 1, &stack, &ctx)).add_memory(stack).add(ctx);
    for (base, size, name) in &w.modules {
        let n = synth::DumpString::new(name, e);
        d = d.add_module(synth::Module::new(e, *base, *size, &n, 0x1234, 0, None)).add(n);
    }
    if w.with_exception {
        let mut ex = synth::Exception::new(e);
        ex.thread_id = 1;
        ex.exception_record.exception_code = 0xC000_0005;
        ex.exception_record.exception_address = w.ip;
        ex.exception_record.number_parameters = 2;
        ex.exception_record.exception_information[1] = 0x10;
        ex.thread_context = (ctx_size, ctx_rva);
        d = d.add_exception(ex);
    }
    if let Some(l) = &w.limits {
        d = d.set_linux_proc_limits(l);
    }
    d.finish().expect("c03: synth dump finishes")
}

// space B: /proc/<pid>/limits text
fn limits_space() -> Space {
    let shapes: Vec<&'static str> = vec![
        "",
        "Limit                     Soft Limit           Hard Limit           Units     ",
        "Max cpu time              unlimited            unlimited            seconds   ",
        "Max nice priority         0                    0                    ",
        "Max core file size",
        "Max a  1",
        "x  y  z  w  v  u",
        "  ",
        "Max open files            1024                 garbage              files     ",
        "\u{fffd}\u{0}  \t  1  2",
    ];
    let k = shapes.len() as u64;
    let n = seq_count(k, 3) * 2;
    let s2 = shapes.clone();
    let gen = move |idx: u64| -> (Vec<u8>, Value) {
        let term = if idx % 2 == 0 { "\n" } else { "\r\n" };
        let seq = seq_unrank(idx / 2, k, 3);
        let text: String = seq.iter().map(|i| format!("{}{term}", s2[*i as usize])).collect();
        let w = Wd { cpu: CpuK::Amd64, platform: md::PlatformId::Linux as u32, ip: 0x40_1000, sp: 0x7000_0010, stack_base: 0x7000_0000, stack: vec![0; 64], modules: vec![(0x40_0000, 0x10000, "app")], limits: Some(text.clone().into_bytes()), with_exception: false };
        (build_wd(&w), json!({"class": "proc-limits", "limits_text": text}))
    };
    let g2 = gen.clone();
    Space::new(
        "proc-limits",
        n,
        move |idx, l| {
            let (b, d) = gen(idx);
            run_case(&b, &None, idx, l, &|| d.clone());
        },
        move |idx| g2(idx).1,
    )
    .sandboxed(sb(256))
}

// space C: amd64 crash context, every instruction-byte prefix x rsp menu (op analysis)
fn opcode_space(tier: Tier) -> Space {
    let nbytes: u32 = if tier == Tier::Thorough { 3 } else { 2 };
    let rsps: Vec<u64> = if tier == Tier::Thorough { vec![0, 8] } else { vec![0, 8, u64::MAX] };
    let n = (1u64 << (8 * nbytes)) * rsps.len() as u64;
    let r2 = rsps.clone();
    let gen = move |idx: u64| -> (Model, Value) {
        let rsp = r2[(idx % r2.len() as u64) as usize];
        let code = idx / r2.len() as u64;
        let mut bytes = vec![0u8; 15];
        for i in 0..nbytes as usize {
            bytes[i] = ((code >> (8 * (nbytes as usize - 1 - i))) & 0xff) as u8;
        }
        let ip = 0x4000_1000u64;
        let mut m = Model::new(CpuK::Amd64, md::PlatformId::Linux as u32);
        m.threads = vec![ThreadM { tid: 1, ctx_ok: true, ip, sp: rsp }];
        m.modules = vec![procgen::app_module()];
        // with the second stack pointer of the menu the instruction bytes are the LAST bytes of their memory region
        // (5 bytes in): the decoder gets a truncated instruction, and nothing may be read past the region
        if idx % r2.len() as u64 == 1 {
            bytes.truncate(nbytes as usize + 1);
            m.code_lead = 5;
        }
        m.code = Some((ip, bytes.clone()));
        m.exc = Some(ExcM { tid: 1, code: 11, flags: 1, address: 0x10, nparams: 0, info: [0; 15], ctx: 1, ctx_ip: ip, ctx_sp: rsp });
        m.maps = MapsM::Linux(vec![(0x4000_0000, 0x4000_ffff, "rx"), (0x7000_0000, 0x7000_ffff, "rw")]);
        (m, json!({"class": "opcode", "instruction_bytes": bytes.iter().map(|b| format!("{b:02x}")).collect::<String>(), "rsp": format!("{rsp:#x}")}))
    };
    let g2 = gen.clone();
    Space::new(
        "amd64-instruction-bytes",
        n,
        move |idx, l| {
            let (m, d) = gen(idx);
            let b = procgen::build(&m);
            run_case(&b, &None, 2, l, &|| d.clone()); // unstable_all enables the most analysis
        },
        move |idx| g2(idx).1,
    )
    .sandboxed(sb(4096))
}

// space D: x86 STACK WIN records with extreme size fields, end to end
fn stackwin_space() -> Space {
    let sizes: [u64; 5] = [0, 1, 4, 1 << 31, u32::MAX as u64];
    let esps: [u64; 4] = [0, 4, 8, 0x7000_0010];
    // fields: prolog epilog params saved locals ; record type 4 (program) / 0 (fpo, allocates_bp 0/1)
    let n = 5u64.pow(5) * 3 * esps.len() as u64;
    let gen = move |idx: u64| -> (Vec<u8>, Vec<u8>, Value) {
        let d = unrank(idx, &[5, 5, 5, 5, 5, 3, 4]);
        let f: Vec<u64> = d[..5].iter().map(|i| sizes[*i as usize]).collect();
        let esp = esps[d[6] as usize];
        let rec = match d[5] {
            0 => format!("STACK WIN 4 1000 100 {:x} {:x} {:x} {:x} {:x} 0 1 $T0 .raSearch = $eip $T0 ^ = $esp $T0 4 + =", f[0], f[1], f[2], f[3], f[4]),
            1 => format!("STACK WIN 0 1000 100 {:x} {:x} {:x} {:x} {:x} 0 0 0", f[0], f[1], f[2], f[3], f[4]),
            _ => format!("STACK WIN 0 1000 100 {:x} {:x} {:x} {:x} {:x} 0 0 1", f[0], f[1], f[2], f[3], f[4]),
        };
        let sym = format!("MODULE windows x86 000000000000000000000000000000000 app\nFUNC 1000 100 {:x} f\n{rec}\n", f[2]);
        let mut stack = vec![];
        for k in 0..32u32 {
            stack.extend_from_slice(&(0x40_1010u32 + k).to_le_bytes());
        }
        let (base, stack) = if esp < 0x1000 { (0u64, stack) } else { (0x7000_0000u64, stack) };
        let w = Wd { cpu: CpuK::X86, platform: md::PlatformId::VER_PLATFORM_WIN32_NT as u32, ip: 0x40_1010, sp: esp, stack_base: base, stack, modules: vec![(0x40_0000, 0x10000, "app")], limits: None, with_exception: d[5] == 2 };
        (build_wd(&w), sym.clone().into_bytes(), json!({"class": "stack-win-sizes", "record": rec, "esp": format!("{esp:#x}")}))
    };
    let g2 = gen.clone();
    Space::new(
        "x86-stack-win-size-fields",
        n,
        move |idx, l| {
            let (b, s, d) = gen(idx);
            run_case(&b, &Some(s), idx, l, &|| d.clone());
        },
        move |idx| g2(idx).2,
    )
    .sandboxed(sb(1024))
}

// space D2: postfix programs whose operands sit on the extremes of the evaluators' number ranges, end to end
// (x86 STACK WIN program strings, 32-bit; amd64 STACK CFI rules, 64-bit): every (a, b, operator) triple
fn operand_extremes_space() -> Space {
    const A32: [&str; 11] = ["0", "1", "-1", "2", "2147483647", "-2147483648", "2147483648", "4294967295", "4294967296", "$esp", "$nosuch"];
    const A64: [&str; 11] = ["0", "1", "-1", "2", "9223372036854775807", "-9223372036854775808", "9223372036854775808", "18446744073709551615", "18446744073709551616", "$rsp", "$nosuch"];
    const OPS32: [&str; 7] = ["+", "-", "*", "/", "%", "@", "^"];
    const OPS64: [&str; 7] = ["+", "-", "*", "/", "%", "@", "^"];
    let n = 2 * 11 * 11 * 7 * 2;
    let gen = move |idx: u64| -> (Vec<u8>, Vec<u8>, Value) {
        let d = unrank(idx, &[2, 11, 11, 7, 2]);
        let (a, b, o) = (d[1] as usize, d[2] as usize, d[3] as usize);
        let mut stack = vec![];
        for k in 0..32u32 {
            stack.extend_from_slice(&(0x40_1010u32 + k).to_le_bytes());
        }
        let sp = if d[4] == 0 { 0x7000_0010u64 } else { 8 };
        let base = if d[4] == 0 { 0x7000_0000u64 } else { 0 };
        if d[0] == 0 {
            // "^" is unary in this language: b is left on the stack below it (an assignment with leftovers)
            let prog = format!("$T0 {} {} {} = $eip .raSearch ^ = $esp .raSearch 4 + =", A32[a], A32[b], OPS32[o]);
            let rec = format!("STACK WIN 4 1000 100 0 0 0 0 0 0 1 {prog}");
            let sym = format!("MODULE windows x86 000000000000000000000000000000000 app\nFUNC 1000 100 0 f\n{rec}\n");
            let w = Wd { cpu: CpuK::X86, platform: md::PlatformId::VER_PLATFORM_WIN32_NT as u32, ip: 0x40_1010, sp, stack_base: base, stack, modules: vec![(0x40_0000, 0x10000, "app")], limits: None, with_exception: false };
            (build_wd(&w), sym.into_bytes(), json!({"class": "operand-extremes", "record": rec, "sp": format!("{sp:#x}")}))
        } else {
            let rec = format!("STACK CFI INIT 1000 100 .cfa: {} {} {} .ra: .cfa -8 + ^ $rbx: {} {} {}", A64[a], A64[b], OPS64[o], A64[b], A64[a], OPS64[o]);
            let sym = format!("MODULE Linux x86_64 000000000000000000000000000000000 app\nFUNC 1000 100 0 f\n{rec}\n");
            let w = Wd { cpu: CpuK::Amd64, platform: md::PlatformId::Linux as u32, ip: 0x40_1010, sp, stack_base: base, stack, modules: vec![(0x40_0000, 0x10000, "app")], limits: None, with_exception: false };
            (build_wd(&w), sym.into_bytes(), json!({"class": "operand-extremes", "record": rec, "sp": format!("{sp:#x}")}))
        }
    };
    let g2 = gen.clone();
    Space::new(
        "evaluator-operand-extremes",
        n,
        move |idx, l| {
            let (b, s, d) = gen(idx);
            run_case(&b, &Some(s), idx, l, &|| d.clone());
        },
        move |idx| g2(idx).2,
    )
    .sandboxed(sb(1024))
}

// space E: CFI menus per architecture (CFA below / equal / above sp, memory-free rules), with and without stack memory
fn cfi_space() -> Space {
    let cpus = [CpuK::Amd64, CpuK::X86, CpuK::Arm, CpuK::Arm64, CpuK::Arm64Old, CpuK::Mips, CpuK::Ppc, CpuK::Ppc64, CpuK::Sparc];
    let platforms = [md::PlatformId::Linux as u32, md::PlatformId::VER_PLATFORM_WIN32_NT as u32, md::PlatformId::MacOs as u32, md::PlatformId::Ios as u32, md::PlatformId::Android as u32];
    let cfas = ["{sp} -8 +", "{sp}", "{sp} 1 +", "{sp} 8 +", "{sp} 4096 +", "0", "18446744073709551615", "{sp} ^"];
    // PINGPONG: two records whose constant return addresses point into each other's range
    // the last five: names that are almost, but not, registers of some CPU (an ABI alias no table has, one past the
    // numbered registers, another case, registers of another class)
    let ras = ["4096", ".cfa -8 + ^", "4198416", "0", ".cfa ^", "18446744073709551615", "PINGPONG", "$s8 0 +", "x31 0 +", "r16 0 +", "$RSP 0 +", "$xmm0 $st0 +"];
    let stacks: [usize; 4] = [0, 8, 64, 4096];
    // where the context's sp lies: inside the stack memory, or a page below it
    let sp_wheres: u64 = 2;
    let places: [u64; 3] = [0x7000_0000, 0xffff_ff00, u64::MAX - 0xfff];
    let n = product(&[cpus.len() as u64, platforms.len() as u64, cfas.len() as u64, ras.len() as u64, stacks.len() as u64, places.len() as u64, sp_wheres]);
    let gen = move |idx: u64| -> (Vec<u8>, Vec<u8>, Value) {
        let d = unrank(idx, &[cpus.len() as u64, platforms.len() as u64, cfas.len() as u64, ras.len() as u64, stacks.len() as u64, places.len() as u64, sp_wheres]);
        let cpu = cpus[d[0] as usize];
        let spname = match cpu {
            CpuK::Amd64 => "$rsp",
            CpuK::X86 => "$esp",
            _ => "sp",
        };
        let cfa = cfas[d[2] as usize].replace("{sp}", spname);
        let ra = ras[d[3] as usize];
        let size = stacks[d[4] as usize];
        let mut base = places[d[5] as usize];
        if cpu.bits() == Some(32) {
            base &= 0xffff_ffff;
            if base == 0xffff_f000 {
                base = 0xffff_f000;
            }
        }
        let sym = if ra == "PINGPONG" {
            format!("MODULE Linux x86_64 000000000000000000000000000000000 app\nFUNC 1000 100 0 f\nSTACK CFI INIT 0 1800 .cfa: {cfa} .ra: 4200704\nSTACK CFI INIT 1800 1e800 .cfa: {cfa} .ra: 4198416\n")
        } else {
            format!("MODULE Linux x86_64 000000000000000000000000000000000 app\nFUNC 1000 100 0 f\nSTACK CFI INIT 0 20000 .cfa: {cfa} .ra: {ra}\n")
        };
        let mut stack = vec![];
        for k in 0..(size / 8) as u64 {
            stack.extend_from_slice(&(0x40_1010u64 + k).to_le_bytes());
        }
        let w = Wd { cpu, platform: platforms[d[1] as usize], ip: 0x40_1010, sp: if d[6] == 1 { base.wrapping_sub(0x1000) } else { base.wrapping_add(if size > 8 { 8 } else { 0 }) }, stack_base: base, stack, modules: vec![(0x40_0000, 0x20000, "app")], limits: None, with_exception: d[5] == 1 };
        (build_wd(&w), sym.into_bytes(), json!({"class": format!("cfi-menu:{cpu:?}"), "cpu": format!("{cpu:?}"), "platform": platforms[d[1] as usize], "cfa": cfa, "ra": ra, "stack_bytes": size, "stack_base": format!("{base:#x}"), "sp": (if d[6] == 1 { "a page below the stack memory" } else { "inside the stack memory" })}))
    };
    let g2 = gen.clone();
    Space::new(
        "cfi-menus",
        n,
        move |idx, l| {
            let (b, s, d) = gen(idx);
            run_case(&b, &Some(s), idx, l, &|| d.clone());
        },
        move |idx| g2(idx).2,
    )
    .sandboxed(sb(512))
}

// space F: memory-info / maps regions ending at the extremes next to the accessed address
fn regions_space() -> Space {
    let ends: [u64; 6] = [0xfff, (1 << 47) - 1, 1 << 47, u64::MAX - 1, u64::MAX, 0x7fff_ffff_ffff];
    let n = product(&[ends.len() as u64, ends.len() as u64, 2, 3, 3]);
    let gen = move |idx: u64| -> (Model, Value) {
        let d = unrank(idx, &[ends.len() as u64, ends.len() as u64, 2, 3, 3]);
        let (e1, e2) = (ends[d[0] as usize], ends[d[1] as usize]);
        let crash = [e1, e1.wrapping_add(1), e2.wrapping_sub(0x1000)][d[3] as usize];
        let cpu = [CpuK::Amd64, CpuK::Arm64, CpuK::X86][d[4] as usize];
        let mut m = Model::new(cpu, if d[2] == 0 { md::PlatformId::Linux as u32 } else { md::PlatformId::VER_PLATFORM_WIN32_NT as u32 });
        m.threads = vec![ThreadM { tid: 1, ctx_ok: true, ip: 0x4000_1000, sp: procgen::STACK_BASE + 8 }];
        m.modules = vec![procgen::app_module()];
        m.exc = Some(ExcM { tid: 1, code: if d[2] == 0 { 11 } else { 0xC000_0005 }, flags: if d[2] == 0 { 1 } else { 0 }, address: crash, nparams: 2, info: { let mut i = [0u64; 15]; i[1] = crash; i }, ctx: 1, ctx_ip: 0x4000_1000, ctx_sp: procgen::STACK_BASE + 8 });
        m.maps = if d[2] == 0 {
            MapsM::Linux(vec![(e1.saturating_sub(0xfff), e1, ""), (e2.saturating_sub(0xfff), e2, "rw")])
        } else {
            MapsM::Info(vec![(e1.saturating_sub(0xfff), 0x1000, 0x01), (e2.saturating_sub(0xfff), 0x1000, 0x04)])
        };
        (m, json!({"class": "region-ends", "region_ends": [format!("{e1:#x}"), format!("{e2:#x}")], "crash_address": format!("{crash:#x}"), "cpu": format!("{cpu:?}"), "maps": if d[2] == 0 { "linux-maps" } else { "memory-info" }}))
    };
    let g2 = gen.clone();
    Space::new(
        "region-ends",
        n,
        move |idx, l| {
            let (m, d) = gen(idx);
            let b = procgen::build(&m);
            run_case(&b, &None, idx, l, &|| d.clone());
        },
        move |idx| g2(idx).1,
    )
    .sandboxed(sb(128))
}

// space G: modules (loaded and unloaded) whose range touches the ends of the address space, with a thread inside them
fn module_extremes_space() -> Space {
    use vh::procgen::ModM;
    // (base, size): empty, one byte at 0, ending exactly at 2^64, one byte below, the last byte alone, past the end,
    // the largest size in the middle
    let places: [(u64, u32); 8] = [(0, 0), (0, 1), (u64::MAX - 0xffff, 0x1_0000), (u64::MAX - 0xffff, 0xffff), (u64::MAX, 1), (u64::MAX - 0xff, 0x1000), (1 << 63, u32::MAX), (0xffff_ffff, 2)];
    let cpus = [CpuK::Amd64, CpuK::X86, CpuK::Arm64, CpuK::Mips64];
    let radices = [places.len() as u64, places.len() as u64, cpus.len() as u64, 3, 2];
    let n = product(&radices);
    let gen = move |idx: u64| -> (Model, Value) {
        let d = unrank(idx, &radices);
        let (p1, p2) = (places[d[0] as usize], places[d[1] as usize]);
        let cpu = cpus[d[2] as usize];
        let mut m = Model::new(cpu, if d[4] == 0 { md::PlatformId::Linux as u32 } else { md::PlatformId::VER_PLATFORM_WIN32_NT as u32 });
        // the thread's instruction pointer: first byte, last byte (wrapping), one past the last byte of the first module
        let ip = [p1.0, p1.0.wrapping_add(p1.1 as u64).wrapping_sub(1), p1.0.wrapping_add(p1.1 as u64)][d[3] as usize];
        m.threads = vec![ThreadM { tid: 1, ctx_ok: true, ip, sp: procgen::STACK_BASE + 8 }];
        m.modules = vec![procgen::app_module(), ModM { base: p1.0, size: p1.1, name: "/lib/first.so".into() }, ModM { base: p2.0, size: p2.1, name: "/lib/second.so".into() }];
        m.unloaded = vec![ModM { base: p2.0, size: p2.1, name: "gone.dll".into() }, ModM { base: p1.0, size: p1.1, name: "gone2.dll".into() }];
        (m, json!({"class": "module-extremes", "modules": [format!("{:#x}+{:#x}", p1.0, p1.1), format!("{:#x}+{:#x}", p2.0, p2.1)], "ip": format!("{ip:#x}"), "cpu": format!("{cpu:?}")}))
    };
    let g2 = gen.clone();
    Space::new(
        "module-extremes",
        n,
        move |idx, l| {
            let (m, d) = gen(idx);
            let b = procgen::build(&m);
            run_case(&b, &None, idx, l, &|| d.clone());
        },
        move |idx| g2(idx).1,
    )
    .sandboxed(sb(256))
}

// space H: the bit-flip analysis end to end: an unmapped crash address one bit (bit 40) away from a mapped page, every
// instruction kind at the crash site, the general-purpose registers all at the crash address / crowded around the
// corrected address / at 0 / holding a poison pattern / left alone
fn bitflip_space() -> Space {
    use vh::procgen::{two_register_bitflip_model, ACCESS_INSTRS};
    let fills: [Option<u64>; 5] = [None, Some(0x0000_0100_0001_0010), Some(0x1_0018), Some(0), Some(0xe5e5_e5e5_e5e5_e5e5)];
    // last factor: the memory map (the model's one rw page; one mapping over the WHOLE address space without / with
    // permissions; the same as a memory-info region of the largest size)
    let radices = [fills.len() as u64, ACCESS_INSTRS.len() as u64, 4, 4];
    let n = product(&radices);
    let gen = move |idx: u64| -> (Model, Value) {
        let d = unrank(idx, &radices);
        let mut m = two_register_bitflip_model();
        match d[3] {
            0 => {}
            1 => m.maps = MapsM::Linux(vec![(0, u64::MAX, "")]),
            2 => m.maps = MapsM::Linux(vec![(0, u64::MAX, "rw")]),
            _ => m.maps = MapsM::Info(vec![(0, u64::MAX, 0x01)]),
        }
        m.gpr_fill = fills[d[0] as usize];
        let mut code = ACCESS_INSTRS[d[1] as usize].1.to_vec();
        code.resize(16, 0x90);
        m.code = Some((0x4000_2000, code));
        let x = m.exc.as_mut().expect("model has an exception");
        match d[2] {
            0 => {}
            1 => {
                m.platform_id = md::PlatformId::VER_PLATFORM_WIN32_NT as u32;
                (x.code, x.flags, x.nparams) = (0xC000_0005, 0, 2);
                x.info[0] = 0;
                x.info[1] = x.address;
            }
            2 => {
                m.platform_id = md::PlatformId::VER_PLATFORM_WIN32_NT as u32;
                (x.code, x.flags, x.nparams) = (0xC000_0005, 0, 2);
                x.info[0] = 1;
                x.info[1] = x.address;
            }
            _ => {
                m.platform_id = md::PlatformId::MacOs as u32;
                (x.code, x.flags) = (1, 1);
            }
        }
        let par = json!({"class": "bit-flip-analysis", "registers": fills[d[0] as usize].map(|v| format!("{v:#x}")), "instruction": ACCESS_INSTRS[d[1] as usize].0, "exception": (["linux SIGSEGV", "windows AV read", "windows AV write", "mac EXC_BAD_ACCESS"][d[2] as usize]), "memory_map": (["one rw page", "linux maps 0-ffffffffffffffff ---", "linux maps 0-ffffffffffffffff rw-", "memory info 0 + 2^64-1"][d[3] as usize])});
        (m, par)
    };
    let g2 = gen.clone();
    Space::new(
        "bit-flip-analysis",
        n,
        move |idx, l| {
            let (m, d) = gen(idx);
            let b = procgen::build(&m);
            run_case(&b, &None, 2, l, &|| d.clone());
        },
        move |idx| g2(idx).1,
    )
    .sandboxed(sb(64))
}

fn main() {
    run_check("C03", |ctx| {
        let mut def = CheckDef::new(
            "C03",
            "fault_enumeration",
            "every case = (dump bytes, symbol bytes served to every module, option set rotating over stable_basic / stable_all / unstable_all) through the real process_minidump_with_options and all four renderers in sandboxed workers (panic guard, 8 s wall confirmed by a solo re-run, 768 MiB heap cap), then frame budget (frames <= stack bytes + 2 per thread) and strict JSON validity. Spaces: one-deviation mutations (every 4-aligned offset x width {4,8} x boundary/directory-value menu) of the 54 synthetic seed dumps x 11 symbol menus (quick: shard VERIF_SEED mod 8 of the mutations, completely; thorough: all); all sequences of <= 3 /proc limits lines over 10 line shapes x LF/CRLF; amd64 crash contexts whose instruction bytes run over ALL 2-byte [thorough 3-byte] prefixes x rsp menu; x86 STACK WIN records with every size field in {0,1,4,2^31,2^32-1} x 3 record kinds x 4 esp values; every (a, b, operator) triple over an 11-value operand menu on the extremes of the 32-bit (STACK WIN program strings) and 64-bit (STACK CFI rules) ranges x 7 operators x 2 stack placements; CFI menus (CFA below/equal/above sp, memory-free rules) x 9 CPUs x 5 platforms x stack sizes x 3 placements incl. top of address space; memory-map regions ending at the extremes next to the crash address; loaded and unloaded modules whose range touches the ends of the address space (ending exactly at 2^64, one byte below, past it, empty) with a thread at their first / last / one-past-last byte; the bit-flip analysis (unmapped crash address one bit away from a mapped page x 10 instruction kinds x 5 register fills x 4 exception renderings). distinct_nontrivial = distinct (thread count, per-thread frame count + trust sequence, crash reason, option set).",
        );
        def.assumptions = vec![
            "small scope: mutated dumps are one deviation away from a seed; symbol bytes come from a 7-entry menu served to every module".into(),
            "the frame budget of a thread is taken as the largest of its own stack memory, the region holding its stack pointer and the largest memory region (the walk may start from the exception context in another region)".into(),
            "time and memory budgets are constants (8 s, 768 MiB) far above what the tiny inputs legitimately need, not a function fitted to the input size".into(),
        ];
        def.extra.insert("quick_shard".into(), json!(ctx.seed % 8));
        def.spaces = vec![limits_space(), stackwin_space(), operand_extremes_space(), cfi_space(), regions_space(), module_extremes_space(), bitflip_space(), opcode_space(ctx.tier), mutated_space(ctx.tier, ctx.seed)];
        def
    })
}
