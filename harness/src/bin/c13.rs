//! C13 — processing is deterministic and independent of scheduling.
//! Engine E2 (vh::sched): the single REAL `process_minidump` future (which walks all threads
//! through `join_all`) is driven by the controlled scheduler; the mock supplier suspends a
//! scripted number of times per lookup and the explorer decides the completion order — every
//! order is explored. Plus: every supplier delay vector under a poll-to-completion executor,
//! and (labelled sampling, NOT exhaustive) repeated in-process runs with fresh hash seeds and a
//! free-running 4-thread tokio runtime.
use breakpad_symbols::*;
use minidump::Minidump;
use minidump_common::format as md;
use minidump_processor::*;
use minidump_synth as synth;
use std::collections::HashMap;
use std::future::Future;
use std::pin::Pin;
use std::sync::{Arc, Mutex};
use std::task::{Context, Poll};
use test_assembler::*;
use vh::sched::{self, ExploreStats, Io, System};
use vh::*;

// ------------------------------------------------------------------------------------------
// inputs

#[derive(Clone)]
struct Input {
    name: &'static str,
    dump: Arc<Vec<u8>>,
    /// code_file -> Some(symbol text) | None (NotFound)
    syms: Arc<HashMap<String, Option<String>>>,
    /// prefix of the signature of any output difference found on this input (empty for most): names the input
    /// class when the class itself is what a recorded finding is about
    tag: &'static str,
}

fn limits_text(rows: usize) -> String {
    let mut s = String::from("Limit                     Soft Limit           Hard Limit           Units     \n");
    for k in 0..rows {
        s += &format!("Max thing {k}                  {}            unlimited            bytes     \n", k * 10);
    }
    // names that differ only in case: an ordering that folds case leaves them in hash order
    s += "MAX THING 3                  1            2            bytes     \n";
    s += "max thing 3                  3            4            bytes     \n";
    s
}

/// 3 threads over 3 modules; thread t runs in module t and was called from module (t+1)%3,
/// so every module is asked for by two concurrently walked threads.
fn build_arm64(name: &'static str, with_limits: bool, alias: bool, missing: bool) -> Input {
    let e = Endian::Little;
    let mut d = synth::SynthMinidump::with_endian(e);
    d = d.add_system_info(synth::SystemInfo::new(e).set_processor_architecture(md::ProcessorArchitecture::PROCESSOR_ARCHITECTURE_ARM64 as u16).set_platform_id(md::PlatformId::Linux as u32));
    let mut syms = HashMap::new();
    for t in 0..3u64 {
        let mut st = Section::with_endian(e);
        for k in 0..16u64 {
            st = st.D64(if k == 3 { 0x4000_2020 + 0x10_0000 * ((t + 1) % 3) } else { 0 });
        }
        let stack = synth::Memory::with_section(st, 0x7000_0000 + 0x1000 * t);
        let ctx = synth::arm64_context(e, 0x4000_1010 + 0x10_0000 * t, 0x7000_0000 + 0x1000 * t);
        d = d.add_thread(synth::Thread::new(e, 10 + t as u32, &stack, &ctx)).add(stack).add(ctx);
        let mname = synth::DumpString::new(&format!("m{t}"), e);
        d = d.add_module(synth::Module::new(e, 0x4000_0000 + 0x10_0000 * t, 0x10000, &mname, 1, 0, None)).add(mname);
        let rules = if alias { ".cfa: sp 32 + .ra: .cfa -8 + ^ x29: 1 fp: 2 x19: 3 x20: 4 x21: 5 x30: 6 lr: 7" } else { ".cfa: sp 32 + .ra: .cfa -8 + ^ x19: 3 x20: 4 x21: 5 x22: 6 x23: 7 x24: 8 x25: 9 x26: 10" };
        let text = format!("MODULE Linux arm64 000000000000000000000000000000000 m{t}\nFILE 0 src{t}.c\nFUNC 1000 100 0 f{t}\n1000 100 {} 0\nFUNC 2000 100 0 g{t}\n2000 100 {} 0\nSTACK CFI INIT 1000 100 {rules}\n", 10 + t, 20 + t);
        syms.insert(format!("m{t}"), if missing && t == 1 { None } else if missing && t == 2 { Some("MODULE Linux arm64 0 m2\nthis line is corrupt\n".to_string()) } else { Some(text) });
    }
    if with_limits {
        d = d.set_linux_proc_limits(limits_text(16).as_bytes());
    }
    Input { name, dump: Arc::new(d.finish().unwrap()), syms: Arc::new(syms), tag: "" }
}

fn build_amd64(name: &'static str) -> Input {
    let e = Endian::Little;
    let mut d = synth::SynthMinidump::with_endian(e);
    d = d.add_system_info(synth::SystemInfo::new(e).set_processor_architecture(md::ProcessorArchitecture::PROCESSOR_ARCHITECTURE_AMD64 as u16).set_platform_id(md::PlatformId::Linux as u32));
    let mut syms = HashMap::new();
    for t in 0..3u64 {
        let mut st = Section::with_endian(e);
        // [rsp]: saved rbx, [rsp+8]: return address into the next module, then zeros
        for k in 0..16u64 {
            st = st.D64(match k {
                0 => 0x1111 * (t + 1),
                1 => 0x4000_2020 + 0x10_0000 * ((t + 1) % 3),
                _ => 0,
            });
        }
        let stack = synth::Memory::with_section(st, 0x7000_0000 + 0x1000 * t);
        let mut raw = md::CONTEXT_AMD64::default();
        raw.context_flags = md::ContextFlagsCpu::CONTEXT_AMD64.bits() | 0x3;
        raw.rip = 0x4000_1010 + 0x10_0000 * t;
        raw.rsp = 0x7000_0000 + 0x1000 * t;
        raw.rbp = 0;
        let ctx = synth::amd64_context(e, raw.rip, raw.rsp);
        d = d.add_thread(synth::Thread::new(e, 20 + t as u32, &stack, &ctx)).add(stack).add(ctx);
        let mname = synth::DumpString::new(&format!("/usr/lib/lib{t}.so"), e);
        d = d.add_module(synth::Module::new(e, 0x4000_0000 + 0x10_0000 * t, 0x10000, &mname, 1, 0, None)).add(mname);
        let text = format!("MODULE Linux x86_64 000000000000000000000000000000000 lib{t}.so\nFUNC 1000 100 0 f{t}\nFUNC 2000 100 0 g{t}\nPUBLIC 3000 0 p{t}\nSTACK CFI INIT 1000 100 .cfa: $rsp 16 + .ra: .cfa -8 + ^ $rbx: .cfa -16 + ^ $r12: 12 $r13: 13 $r14: 14 $r15: 15 $rbp: 5\n");
        syms.insert(format!("/usr/lib/lib{t}.so"), Some(text));
    }
    Input { name, dump: Arc::new(d.finish().unwrap()), syms: Arc::new(syms), tag: "" }
}

/// 3 threads over 4 modules among which two pairs are easy to confuse: m1 / M1 differ only in
/// ASCII case (different symbols), and twin_a / twin_b are the same binary under two names (same
/// debug file and id would need CodeView records; here: same symbol text, different code_file).
/// Every thread's stack returns through all four modules, so each is requested by every thread.
fn build_confusable(name: &'static str) -> Input {
    let e = Endian::Little;
    let mut d = synth::SynthMinidump::with_endian(e);
    d = d.add_system_info(synth::SystemInfo::new(e).set_processor_architecture(md::ProcessorArchitecture::PROCESSOR_ARCHITECTURE_ARM64 as u16).set_platform_id(md::PlatformId::Linux as u32));
    let names = ["/lib/m1", "/lib/M1", "/opt/p.so", "/opt/twin_a.so", "/opt/twin_b.so"];
    // call chains (module indices, innermost first). The twins are reached only AFTER a first lookup of
    // another module has completed, by two different threads: which twin is asked for first depends on the
    // completion order of those first lookups.
    let chains: [[usize; 3]; 3] = [[0, 3, 1], [2, 4, 0], [2, 0, 3]];
    let mut syms = HashMap::new();
    for (t, chain) in chains.iter().enumerate() {
        let t = t as u64;
        let mut st = Section::with_endian(e);
        // CFA = sp + 32, return address at cfa - 8
        for k in 0..16u64 {
            st = st.D64(if k % 4 == 3 && ((k / 4) as usize) < 2 { 0x4000_2020 + 0x10_0000 * chain[(k / 4) as usize + 1] as u64 } else { 0 });
        }
        let stack = synth::Memory::with_section(st, 0x7000_0000 + 0x1000 * t);
        let ctx = synth::arm64_context(e, 0x4000_1010 + 0x10_0000 * chain[0] as u64, 0x7000_0000 + 0x1000 * t);
        d = d.add_thread(synth::Thread::new(e, 30 + t as u32, &stack, &ctx)).add(stack).add(ctx);
    }
    for (i, n) in names.iter().enumerate() {
        let mname = synth::DumpString::new(n, e);
        let mut module = synth::Module::new(e, 0x4000_0000 + 0x10_0000 * i as u64, 0x10000, &mname, 1, 0, None);
        if i >= 3 {
            // the twins carry the SAME CodeView record (PDB70: one debug file, one GUID + age): the same
            // binary installed under two names — still two modules, each with its own symbol lookup
            let cv = Section::with_endian(e).D32(0x5344_5352).D32(0xabcd_1234).D16(0xf00d).D16(0xbeef).append_bytes(b"\x01\x02\x03\x04\x05\x06\x07\x08").D32(1).append_bytes(b"twin.pdb\0");
            module = module.cv_record(&cv);
            d = d.add(cv);
        }
        d = d.add_module(module).add(mname);
        let text = format!("MODULE Linux arm64 000000000000000000000000000000000 x\nFUNC 1000 100 0 f_{i}\nFUNC 2000 100 0 g_{i}\nSTACK CFI INIT 1000 1100 .cfa: sp 32 + .ra: .cfa -8 + ^\n");
        // M1 has no symbols at all, twin_b's are corrupt: the modules end with different stats
        syms.insert(n.to_string(), match i { 1 => None, 4 => Some("MODULE Linux arm64 0 x\ncorrupt line\n".to_string()), _ => Some(text) });
    }
    Input { name, dump: Arc::new(d.finish().unwrap()), syms: Arc::new(syms), tag: "" }
}

/// Two builds of one file loaded at once (same name, same debug file, different debug id — a DLL replaced on
/// disk while the process runs), each reached by a different thread only after a first lookup completed.
fn build_two_builds(name: &'static str, second_has_symbols: bool) -> Input {
    let e = Endian::Little;
    let mut d = synth::SynthMinidump::with_endian(e);
    d = d.add_system_info(synth::SystemInfo::new(e).set_processor_architecture(md::ProcessorArchitecture::PROCESSOR_ARCHITECTURE_ARM64 as u16).set_platform_id(md::PlatformId::Linux as u32));
    let names = ["/lib/first", "/lib/second", "/opt/host.so", "/opt/host.so"];
    let chains: [[usize; 2]; 2] = [[0, 2], [1, 3]];
    let mut syms = HashMap::new();
    for (t, chain) in chains.iter().enumerate() {
        let t = t as u64;
        let mut st = Section::with_endian(e);
        for k in 0..16u64 {
            st = st.D64(if k == 3 { 0x4000_2020 + 0x10_0000 * chain[1] as u64 } else { 0 });
        }
        let stack = synth::Memory::with_section(st, 0x7000_0000 + 0x1000 * t);
        let ctx = synth::arm64_context(e, 0x4000_1010 + 0x10_0000 * chain[0] as u64, 0x7000_0000 + 0x1000 * t);
        d = d.add_thread(synth::Thread::new(e, 40 + t as u32, &stack, &ctx)).add(stack).add(ctx);
    }
    for (i, n) in names.iter().enumerate() {
        let mname = synth::DumpString::new(n, e);
        let mut module = synth::Module::new(e, 0x4000_0000 + 0x10_0000 * i as u64, 0x10000, &mname, 1, 0, None);
        let text = |who: &str| format!("MODULE Linux arm64 000000000000000000000000000000000 x\nFUNC 1000 100 0 {who}_f\nFUNC 2000 100 0 {who}_g\nSTACK CFI INIT 1000 1100 .cfa: sp 32 + .ra: .cfa -8 + ^\n");
        if i >= 2 {
            let guid_first = if i == 2 { 0x1111_1111u32 } else { 0x2222_2222 };
            let cv = Section::with_endian(e).D32(0x5344_5352).D32(guid_first).D16(0xf00d).D16(0xbeef).append_bytes(b"\x01\x02\x03\x04\x05\x06\x07\x08").D32(1).append_bytes(b"host.pdb\0");
            module = module.cv_record(&cv);
            d = d.add(cv);
            let id = format!("{guid_first:08X}F00DBEEF01020304050607081");
            if i == 2 || second_has_symbols {
                syms.insert(format!("{n}|{id}"), Some(text(if i == 2 { "old_build" } else { "new_build" })));
            }
        } else {
            syms.insert(n.to_string(), Some(text(if i == 0 { "first" } else { "second" })));
        }
        d = d.add_module(module).add(mname);
    }
    Input { name, dump: Arc::new(d.finish().unwrap()), syms: Arc::new(syms), tag: if second_has_symbols { "" } else { "modules-sharing-a-file-name-with-different-symbol-outcomes:" } }
}

/// the bit-flip analysis reports candidates from the crash address and from two registers of the instruction
fn build_bitflips(name: &'static str) -> Input {
    let m = vh::procgen::two_register_bitflip_model();
    Input { name, dump: Arc::new(vh::procgen::build(&m)), syms: Arc::new(HashMap::new()), tag: "" }
}

/// 32-bit ARM without symbols: the callers are found by scanning, their validity sets hold alias spellings
fn build_arm_scan(name: &'static str) -> Input {
    use vh::procgen::{self, CpuK, Model, ThreadM};
    let mut m = Model::new(CpuK::Arm, 0x8201);
    m.threads = vec![ThreadM { tid: 1, ctx_ok: true, ip: procgen::APP_BASE + 0x40, sp: procgen::STACK_BASE }];
    m.modules = vec![procgen::app_module()];
    m.deep = Some(5);
    Input { name, dump: Arc::new(procgen::build(&m)), syms: Arc::new(HashMap::new()), tag: "" }
}

/// 32-bit ARM, two threads, frames found by scanning, WITH symbols: every scanned frame also holds a stale word
/// that points into a second module but into none of its functions - whether it is taken for a return address must not depend
/// on whether the module's symbols have arrived yet
fn build_arm_scan_symbols(name: &'static str) -> Input {
    use vh::procgen::{self, CpuK, Model, ThreadM};
    let mut m = Model::new(CpuK::Arm, 0x8201);
    m.threads = vec![ThreadM { tid: 1, ctx_ok: true, ip: procgen::APP_BASE + 0x40, sp: procgen::STACK_BASE }];
    // the stale words point into a second module that no real frame touches: its symbols are first asked for
    // in the middle of a scan
    let lib = procgen::ModM { base: 0x5800_0000, size: 0x10000, name: "c:\\dir\\lib.dll".into() };
    m.modules = vec![procgen::app_module(), lib.clone()];
    m.deep = Some(4);
    m.deep_stale = Some(lib.base + 0x8001);
    let mut syms = HashMap::new();
    syms.insert(procgen::app_module().name, Some("MODULE Linux arm 000000000000000000000000000000000 app.exe\nFUNC 0 4000 0 code\n".to_string()));
    syms.insert(lib.name, Some("MODULE Linux arm 000000000000000000000000000000000 lib.dll\nFUNC 0 4000 0 libcode\n".to_string()));
    Input { name, dump: Arc::new(procgen::build(&m)), syms: Arc::new(syms), tag: "" }
}
/// a process creation time later than the dump's own time stamp (clock skew): nothing in the report may follow the
/// clock of the machine that prints it
fn build_clock_skew(name: &'static str) -> Input {
    use vh::procgen::{self, CpuK, MiscM, Model, ThreadM};
    let mut m = Model::new(CpuK::Amd64, 2);
    m.threads = vec![ThreadM { tid: 1, ctx_ok: true, ip: procgen::APP_BASE + 0x40, sp: procgen::STACK_BASE + 8 }];
    m.modules = vec![procgen::app_module()];
    m.misc = Some(MiscM { pid: Some(7), create_time: Some(procgen::HEADER_TIME as u32 + 500) });
    Input { name, dump: Arc::new(procgen::build(&m)), syms: Arc::new(HashMap::new()), tag: "" }
}

fn inputs() -> Vec<Input> {
    vec![
        build_arm_scan_symbols("arm-scanned-frames-with-symbols-and-stale-words"),
        build_clock_skew("process-created-after-the-dump-time-stamp"),
        build_arm_scan("arm-frames-found-by-scanning"),
        build_bitflips("amd64-bit-flips-from-two-registers"),
        build_two_builds("arm64-two-builds-of-one-file", true),
        build_two_builds("arm64-two-builds-of-one-file-one-without-symbols", false),
        build_confusable("arm64-confusable-module-names"),
        build_arm64("arm64-plain", false, false, false),
        build_arm64("arm64-proc-limits-16-rows", true, false, false),
        build_arm64("arm64-cfi-alias-rules", false, true, false),
        build_arm64("arm64-missing-and-corrupt-symbols", false, false, true),
        build_amd64("amd64-cfi-8-registers"),
    ]
}

// ------------------------------------------------------------------------------------------
// suppliers

/// suspends on explorer-owned IO slots
struct SchedSup {
    io: Io,
    syms: Arc<HashMap<String, Option<String>>>,
    susp: usize,
    calls: Arc<Mutex<Vec<String>>>,
}
fn answer(syms: &HashMap<String, Option<String>>, m: &(dyn Module + Sync)) -> Result<LocateSymbolsResult, SymbolError> {
    // a "name|debug id" entry (two builds of one file) takes precedence over the plain name
    let by_id = format!("{}|{}", m.code_file(), m.debug_identifier().map(|d| d.breakpad().to_string()).unwrap_or_default());
    match syms.get(&by_id).or_else(|| syms.get(&*m.code_file())) {
        Some(Some(s)) => Ok(LocateSymbolsResult { symbols: SymbolFile::from_bytes(s.as_bytes())?, extra_debug_info: None }),
        _ => Err(SymbolError::NotFound),
    }
}
#[async_trait::async_trait]
impl SymbolSupplier for SchedSup {
    async fn locate_symbols(&self, m: &(dyn Module + Sync)) -> Result<LocateSymbolsResult, SymbolError> {
        let name = m.code_file().to_string();
        self.calls.lock().unwrap().push(name.clone());
        for i in 0..self.susp {
            sched::suspend(&self.io, &format!("{name}#{i}")).await;
        }
        answer(&self.syms, m)
    }
    async fn locate_file(&self, _m: &(dyn Module + Sync), _k: FileKind) -> Result<std::path::PathBuf, FileError> {
        Err(FileError::NotFound)
    }
}

/// self-waking delays (for poll-to-completion executors)
struct Delay(usize);
impl Future for Delay {
    type Output = ();
    fn poll(mut self: Pin<&mut Self>, cx: &mut Context<'_>) -> Poll<()> {
        if self.0 == 0 {
            Poll::Ready(())
        } else {
            self.0 -= 1;
            cx.waker().wake_by_ref();
            Poll::Pending
        }
    }
}
struct DelaySup {
    syms: Arc<HashMap<String, Option<String>>>,
    delays: Vec<usize>,
    calls: Mutex<usize>,
}
#[async_trait::async_trait]
impl SymbolSupplier for DelaySup {
    async fn locate_symbols(&self, m: &(dyn Module + Sync)) -> Result<LocateSymbolsResult, SymbolError> {
        let i = {
            let mut c = self.calls.lock().unwrap();
            *c += 1;
            *c - 1
        };
        Delay(self.delays[i % self.delays.len()]).await;
        answer(&self.syms, m)
    }
    async fn locate_file(&self, _m: &(dyn Module + Sync), _k: FileKind) -> Result<std::path::PathBuf, FileError> {
        Err(FileError::NotFound)
    }
}

// ------------------------------------------------------------------------------------------
// rendering and comparison

#[derive(Clone, PartialEq, Eq, Hash)]
struct Rendered {
    text: Vec<u8>,
    brief: Vec<u8>,
    json: Vec<u8>,
    json_pretty: Vec<u8>,
}
fn render(st: &ProcessState) -> Rendered {
    let mut r = Rendered { text: vec![], brief: vec![], json: vec![], json_pretty: vec![] };
    st.print(&mut r.text).expect("print");
    st.print_brief(&mut r.brief).expect("print_brief");
    st.print_json(&mut r.json, false).expect("print_json");
    st.print_json(&mut r.json_pretty, true).expect("print_json pretty");
    r
}
/// first differing JSON path with array indices stripped (identifies WHAT is unstable, not which run)
fn json_diff_path(a: &Value, b: &Value, path: &str) -> Option<String> {
    match (a, b) {
        (Value::Object(x), Value::Object(y)) => {
            let kx: Vec<&String> = x.keys().collect();
            let ky: Vec<&String> = y.keys().collect();
            if kx != ky {
                return Some(format!("{path}{{keys}}"));
            }
            for k in kx {
                if let Some(p) = json_diff_path(&x[k], &y[k], &format!("{path}.{k}")) {
                    return Some(p);
                }
            }
            None
        }
        (Value::Array(x), Value::Array(y)) => {
            if x.len() != y.len() {
                return Some(format!("{path}[len]"));
            }
            for (i, j) in x.iter().zip(y) {
                if let Some(p) = json_diff_path(i, j, &format!("{path}[]")) {
                    return Some(p);
                }
            }
            None
        }
        _ => (a != b).then(|| path.to_string()),
    }
}
fn describe_difference(reference: &Rendered, other: &Rendered) -> (String, String) {
    if reference.json != other.json || reference.json_pretty != other.json_pretty {
        let a: Value = serde_json::from_slice(&reference.json).unwrap_or(Value::Null);
        let b: Value = serde_json::from_slice(&other.json).unwrap_or(Value::Null);
        if let Some(p) = json_diff_path(&a, &b, "$") {
            return (format!("json:{p}"), format!("JSON reports differ at {p}"));
        }
        return ("json:bytes-only".into(), "JSON bytes differ although the documents are equal".into());
    }
    let (which, x, y) = if reference.text != other.text { ("text", &reference.text, &other.text) } else { ("brief", &reference.brief, &other.brief) };
    let (sx, sy) = (String::from_utf8_lossy(x).to_string(), String::from_utf8_lossy(y).to_string());
    for (la, lb) in sx.lines().zip(sy.lines()) {
        if la != lb {
            let key: String = la.trim().chars().take_while(|c| !c.is_ascii_digit() && *c != '=').collect();
            return (format!("{which}:{}", key.trim()), format!("{which} reports differ: {la:?} vs {lb:?}"));
        }
    }
    (format!("{which}:length"), format!("{which} reports differ in length"))
}

fn block_on<F: Future>(f: F) -> F::Output {
    struct Noop;
    impl std::task::Wake for Noop {
        fn wake(self: Arc<Self>) {}
    }
    let w = std::task::Waker::from(Arc::new(Noop));
    let mut cx = Context::from_waker(&w);
    let mut f = std::pin::pin!(f);
    for _ in 0..10_000_000u64 {
        if let Poll::Ready(v) = f.as_mut().poll(&mut cx) {
            return v;
        }
    }
    panic!("c13: future never completes under poll-to-completion");
}

fn reference_output(inp: &Input) -> Rendered {
    let dump = Minidump::read(&inp.dump[..]).expect("generated dump reads");
    let p = Symbolizer::new(DelaySup { syms: inp.syms.clone(), delays: vec![0], calls: Mutex::new(0) });
    let st = block_on(process_minidump(&dump, &p)).expect("generated dump processes");
    render(&st)
}

// ------------------------------------------------------------------------------------------
// spaces

/// E2: all completion orders / poll interleavings of one (input, suspensions, spurious budget)
fn explore_input(inp: &Input, susp: usize, spurious: usize, l: &mut Local) {
    let reference = reference_output(inp);
    let dump = Arc::new(Minidump::read(inp.dump.to_vec()).expect("dump"));
    let mut stats = ExploreStats::default();
    let mut states = std::collections::HashSet::new();
    let mut orders = std::collections::BTreeSet::new();
    let mut violation: Option<(String, String, Vec<usize>)> = None;
    let mut n = 0u64;
    let mut exec = |prefix: &[usize]| {
        let io: Io = Default::default();
        let calls: Arc<Mutex<Vec<String>>> = Default::default();
        let out: Arc<Mutex<Option<Rendered>>> = Default::default();
        let provider = Arc::new(Symbolizer::new(SchedSup { io: io.clone(), syms: inp.syms.clone(), susp, calls: calls.clone() }));
        let (d2, p2, o2) = (dump.clone(), provider.clone(), out.clone());
        let task: sched::Task = Box::pin(async move {
            let st = process_minidump(&*d2, &*p2).await.expect("process_minidump");
            *o2.lock().unwrap() = Some(render(&st));
        });
        let (c2, io2) = (calls.clone(), io.clone());
        let fingerprint = Box::new(move || {
            let t = io2.lock().unwrap();
            hash_of(&(&*c2.lock().unwrap(), t.slots.iter().map(|s| (s.done, s.waker.is_some())).collect::<Vec<_>>()))
        });
        let x = sched::run(System { tasks: vec![task], io, fingerprint }, prefix, spurious, 100_000, |_| {});
        n += 1;
        states.extend(x.fingerprints.iter().copied());
        // the completion order actually taken (labels of IO slots in completion order)
        orders.insert(x.actions.iter().filter_map(|a| if let sched::Action::Io(i) = a { Some(*i) } else { None }).collect::<Vec<_>>());
        let mut go = true;
        if x.deadlock {
            violation = Some(("c13:deadlock".into(), "process_minidump never completes under this completion order (lost wake-up)".into(), x.choices.clone()));
            go = false;
        } else {
            let got = out.lock().unwrap().take().expect("output present");
            if got != reference {
                let (sig, what) = describe_difference(&reference, &got);
                violation = Some((format!("c13:nondeterministic-output:{}{sig}", inp.tag), what, x.choices.clone()));
                go = false;
            }
        }
        (x, go)
    };
    sched::explore(vec![], None, &mut stats, &mut exec);
    l.evals(stats.schedules);
    l.count("schedules", stats.schedules);
    l.count("transitions", stats.steps);
    l.count("states", states.len() as u64);
    for o in &orders {
        l.distinct(&(inp.name, susp, o));
    }
    l.outcome(&format!("{}: distinct completion orders explored >= {}", inp.name, orders.len().min(1000)));
    if let Some((sig, what, schedule)) = violation {
        l.violation(sig, what, json!({"input": inp.name, "suspensions_per_lookup": susp, "spurious_budget": spurious, "schedule_choices": schedule}));
    }
}

fn delay_vectors(inp: &Input, k: usize, n: usize, l: &mut Local) {
    let reference = reference_output(inp);
    let dump = Minidump::read(&inp.dump[..]).expect("dump");
    let total = (k + 1).pow(n as u32);
    for mut v in 0..total {
        let mut delays = vec![];
        for _ in 0..n {
            delays.push(v % (k + 1));
            v /= k + 1;
        }
        let p = Symbolizer::new(DelaySup { syms: inp.syms.clone(), delays: delays.clone(), calls: Mutex::new(0) });
        let st = block_on(process_minidump(&dump, &p)).expect("process");
        l.eval();
        l.distinct(&(inp.name, &delays));
        let got = render(&st);
        if got != reference {
            let (sig, what) = describe_difference(&reference, &got);
            l.violation(format!("c13:nondeterministic-output:{}{sig}", inp.tag), what, json!({"input": inp.name, "delay_vector": delays, "executor": "poll-to-completion"}));
        }
    }
    l.outcome(&format!("{}: delay vectors", inp.name));
}

/// labelled sampling: fresh hash seeds per run, and a free-running multi-threaded runtime
/// a 32-bit process state, to be printed before a 64-bit one on the same (fresh) thread
fn x86_state() -> ProcessState {
    use vh::procgen::{self, CpuK, Model, ThreadM};
    let mut m = Model::new(CpuK::X86, 2);
    m.threads = vec![ThreadM { tid: 1, ctx_ok: true, ip: 0x4000_1000, sp: procgen::STACK_BASE + 8 }];
    m.modules = vec![procgen::app_module()];
    match procgen::process_model(&m) {
        procgen::Proc::Ok(s) => *s,
        _ => panic!("c13: the x86 helper dump does not process"),
    }
}

fn repeated_runs(inp: &Input, reps: usize, l: &mut Local) {
    let reference = reference_output(inp);
    // history independence: on a FRESH thread print a 32-bit report first, then this input's reports
    {
        let inp2 = inp.clone();
        let got = std::thread::spawn(move || {
            let st32 = x86_state();
            let _ = render(&st32);
            let dump = Minidump::read(&inp2.dump[..]).expect("dump");
            let p = Symbolizer::new(DelaySup { syms: inp2.syms.clone(), delays: vec![0], calls: Mutex::new(0) });
            let st = block_on(process_minidump(&dump, &p)).expect("process");
            let first = render(&st);
            // and the 32-bit report again afterwards must still be what it was
            let again = render(&st32);
            (first, again == render(&x86_state()))
        })
        .join()
        .expect("c13: helper thread");
        l.eval();
        if got.0 != reference {
            let (sig, what) = describe_difference(&reference, &got.0);
            l.violation(format!("c13:nondeterministic-output:depends-on-earlier-reports:{}{sig}", inp.tag), format!("the report differs when a 32-bit report was printed earlier on the same thread: {what}"), json!({"input": inp.name}));
        }
        if !got.1 {
            l.violation("c13:nondeterministic-output:depends-on-earlier-reports:32-bit-report", "a 32-bit report printed after a 64-bit one differs from the same report printed first", json!({"input": inp.name}));
        }
    }
    let dump = Minidump::read(&inp.dump[..]).expect("dump");
    // the same processing a good second later (only for the input about clocks: it costs a second)
    if inp.name.contains("time-stamp") {
        std::thread::sleep(std::time::Duration::from_millis(1100));
        let p = Symbolizer::new(DelaySup { syms: inp.syms.clone(), delays: vec![0], calls: Mutex::new(0) });
        let st = block_on(process_minidump(&dump, &p)).expect("process");
        l.eval();
        let got = render(&st);
        if got != reference {
            let (sig, what) = describe_difference(&reference, &got);
            l.violation(format!("c13:nondeterministic-output:depends-on-the-clock:{sig}"), format!("the same dump processed 1.1 s later: {what}"), json!({"input": inp.name}));
        }
    }
    // one symbolizer reused for a second and third processing of the same dump (its symbol cache is warm then)
    {
        let p = Symbolizer::new(DelaySup { syms: inp.syms.clone(), delays: vec![0, 1], calls: Mutex::new(0) });
        for round in 0..3 {
            let st = block_on(process_minidump(&dump, &p)).expect("process");
            l.eval();
            let got = render(&st);
            if got != reference {
                let (sig, what) = describe_difference(&reference, &got);
                l.violation(format!("c13:nondeterministic-output:reused-symbolizer:{}{sig}", inp.tag), format!("processing number {} with one symbolizer: {what}", round + 1), json!({"input": inp.name, "round": round}));
                break;
            }
        }
    }
    let mt = tokio::runtime::Builder::new_multi_thread().worker_threads(4).build().expect("runtime");
    let mut distinct = std::collections::HashSet::new();
    for r in 0..reps {
        let p = Symbolizer::new(DelaySup { syms: inp.syms.clone(), delays: vec![r % 3, (r / 3) % 3, 1], calls: Mutex::new(0) });
        let st = if r % 2 == 0 { block_on(process_minidump(&dump, &p)) } else { mt.block_on(process_minidump(&dump, &p)) }.expect("process");
        l.eval();
        let got = render(&st);
        distinct.insert(hash_of(&got));
        if got != reference {
            let (sig, what) = describe_difference(&reference, &got);
            l.violation(format!("c13:nondeterministic-output:{}{sig}", inp.tag), what, json!({"input": inp.name, "run": r, "executor": if r % 2 == 0 { "poll-to-completion" } else { "tokio multi-thread (free-running)" }}));
        }
    }
    l.distinct(&(inp.name, "repeats"));
    l.outcome(&format!("{}: {} distinct outputs over repeated runs", inp.name, distinct.len().min(9)));
}

/// Space `print-history`: a report must not depend on which reports were printed before on the same thread.
/// Every sequence of 2 or 3 process states over 5 CPUs (32-bit x86 / ARM, 64-bit amd64 / arm64, unknown CPU) is
/// printed in order on a fresh thread; the LAST report must equal the same state printed alone on a fresh thread.
fn history_space() -> Space {
    use vh::procgen::{self, CpuK, Model, ThreadM};
    const CPUS: [CpuK; 5] = [CpuK::X86, CpuK::Amd64, CpuK::Unknown, CpuK::Arm, CpuK::Arm64];
    fn state(cpu: CpuK) -> ProcessState {
        let mut m = Model::new(cpu, 0x8201);
        m.threads = vec![ThreadM { tid: 1, ctx_ok: true, ip: 0x4000_1000, sp: procgen::STACK_BASE + 8 }];
        m.modules = vec![procgen::app_module()];
        match procgen::process_model(&m) {
            procgen::Proc::Ok(s) => *s,
            _ => panic!("c13: the helper dump for {cpu:?} does not process"),
        }
    }
    let seqs: Vec<Vec<usize>> = {
        let mut v = vec![];
        for a in 0..5 {
            for b in 0..5 {
                v.push(vec![a, b]);
                for c in 0..5 {
                    v.push(vec![a, b, c]);
                }
            }
        }
        v
    };
    let seqs = Arc::new(seqs);
    let s2 = seqs.clone();
    Space::new(
        "print-history",
        seqs.len() as u64,
        move |i, l| {
            let seq = seqs[i as usize].clone();
            let last = *seq.last().unwrap();
            let alone = std::thread::spawn(move || render(&state(CPUS[last]))).join().expect("c13: helper thread");
            let seq2 = seq.clone();
            let after = std::thread::spawn(move || {
                let mut r = None;
                for k in seq2 {
                    r = Some(render(&state(CPUS[k])));
                }
                r.unwrap()
            })
            .join()
            .expect("c13: helper thread");
            l.eval();
            l.distinct(&("history", &seq));
            l.outcome("print-history sequence");
            if after != alone {
                let (sig, what) = describe_difference(&alone, &after);
                l.violation(format!("c13:nondeterministic-output:depends-on-earlier-reports:{sig}"), format!("the report of a {:?} dump printed after {:?} differs from the same report printed alone: {what}", CPUS[last], seq[..seq.len() - 1].iter().map(|k| CPUS[*k]).collect::<Vec<_>>()), json!({"cpu_sequence": seq.iter().map(|k| format!("{:?}", CPUS[*k])).collect::<Vec<_>>()}));
            }
        },
        move |i| json!({"cpu_sequence": s2[i as usize].iter().map(|k| format!("{:?}", CPUS[*k])).collect::<Vec<_>>()}),
    )
}

/// Space `evil-json`: the extra JSON file (module signature information) lists one module under several
/// certificates; which one is reported must not vary between runs (labelled sampling of hash seeds: 32 runs).
fn evil_space() -> Space {
    Space::new(
        "evil-json-repeated-runs-sampled",
        2,
        move |i, l| {
            use vh::procgen::{self, CpuK, Model, ThreadM};
            let mut m = Model::new(if i == 0 { CpuK::Amd64 } else { CpuK::X86 }, 2);
            m.threads = vec![ThreadM { tid: 1, ctx_ok: true, ip: procgen::APP_BASE + 0x40, sp: procgen::STACK_BASE + 8 }];
            m.modules = vec![procgen::app_module()];
            let bytes = procgen::build(&m);
            let dump = Minidump::read(&bytes[..]).expect("dump");
            let dir = tempfile::tempdir().expect("tempdir");
            let path = dir.path().join("extra.json");
            std::fs::write(&path, br#"{"ModuleSignatureInfo": {"Cert A": ["app.exe", "x.dll"], "Cert B": ["app.exe"], "Cert C": ["y.dll", "app.exe"], "Cert D": ["app.exe"]}, "CPUMicrocodeVersion": "0x1"}"#).expect("write");
            let mut first: Option<Rendered> = None;
            for run in 0..32 {
                let p = Symbolizer::new(DelaySup { syms: Arc::new(HashMap::new()), delays: vec![0], calls: Mutex::new(0) });
                let mut o = minidump_processor::ProcessorOptions::unstable_all();
                o.evil_json = Some(&path);
                let st = block_on(minidump_processor::process_minidump_with_options(&dump, &p, o)).expect("process");
                l.eval();
                let got = render(&st);
                match &first {
                    None => first = Some(got),
                    Some(f) if *f != got => {
                        let (sig, what) = describe_difference(f, &got);
                        l.violation(format!("c13:nondeterministic-output:extra-json:{sig}"), format!("run {run} with the same dump and the same extra JSON file differs from run 0: {what}"), json!({"extra_json": "one module listed under four certificates"}));
                        break;
                    }
                    _ => {}
                }
            }
            l.distinct(&("evil", i));
            l.outcome("evil-json repeated runs");
        },
        |i| json!({"cpu": (if i == 0 { "amd64" } else { "x86" }), "extra_json": "one module listed under four certificates", "kind": "labelled sampling of hash seeds"}),
    )
}

fn main() {
    run_check("C13", |ctx| {
        let thorough = ctx.tier == Tier::Thorough;
        let ins = Arc::new(inputs());
        let mut def = CheckDef::new(
            "C13",
            "model_checking",
            "E2 controlled scheduler over the real process_minidump future (threads walked through join_all): for every generated input (3 threads x 3 modules, each module asked for by two threads; variants: module names differing only in case / same binary under two names, plain, 16-row /proc limits, alias-colliding CFI rules, missing+corrupt symbols, amd64 with 8 register rules), supplier suspensions per lookup 1..2 [thorough 3] and spurious-poll budget 0..1, EVERY IO completion order / poll interleaving is executed and all four reports (text, brief, JSON, pretty JSON) must equal the zero-delay run byte for byte; plus every supplier delay vector in {0..2}^n under a poll-to-completion executor. Hash seeds cannot be enumerated: 32 [thorough 128] repeated in-process runs (fresh RandomState per HashMap) alternating with a free-running 4-thread tokio runtime are LABELLED SAMPLING and contribute evidence only; each input is also processed three times in a row with one symbolizer (warm symbol cache) and printed after a 32-bit report on a fresh thread; space print-history prints every sequence of 2 or 3 reports over 5 CPUs (32-bit, 64-bit, unknown) on a fresh thread and compares the last with the same report printed alone. distinct_nontrivial = distinct (input, suspensions, completion order) + delay vectors.",
        );
        def.exhaustive = false; // the hash-seed half is repetition, not enumeration
        def.assumptions = vec![
            "the schedule half (completion orders, poll interleavings, delay vectors) is exhaustive within its bounds; the hash-seed half is sampling (2^128 seeds cannot be enumerated) and is labelled as such".into(),
            "a poll body is atomic under the single-threaded explorer; the multi-threaded runtime runs are free-running (not controlled)".into(),
        ];
        def.extra.insert("exhaustive_part".into(), json!("supplier completion orders / poll interleavings / delay vectors"));
        def.extra.insert("sampled_part".into(), json!("hash seeds (repeated runs), multi-threaded runtime"));
        // E2 space
        let mut cfgs: Vec<(usize, usize, usize)> = vec![];
        for i in 0..ins.len() {
            for susp in 1..=(if thorough { 3 } else { 2 }) {
                for sp in 0..=1 {
                    if susp == 3 && sp == 1 {
                        continue;
                    }
                    // the 4-module input has 12 lookups per run: keep its deeper configurations for thorough
                    if ins[i].name == "arm64-confusable-module-names" && (susp >= 3 || (susp == 2 && (!thorough || sp == 1))) {
                        continue;
                    }
                    cfgs.push((i, susp, sp));
                }
            }
        }
        let cf = Arc::new(cfgs);
        let (i1, c1, i2, c2) = (ins.clone(), cf.clone(), ins.clone(), cf.clone());
        def.spaces.push(
            Space::new(
                "completion-orders",
                cf.len() as u64,
                move |i, l| {
                    let (k, s, sp) = c1[i as usize];
                    explore_input(&i1[k], s, sp, l)
                },
                move |i| {
                    let (k, s, sp) = c2[i as usize];
                    json!({"input": i2[k].name, "suspensions_per_lookup": s, "spurious_budget": sp})
                },
            )
            .chunked(1)
            .wall(1_800_000),
        );
        let (i3, i4) = (ins.clone(), ins.clone());
        let nlook = if thorough { 6 } else { 5 };
        def.spaces.push(Space::new("delay-vectors", ins.len() as u64, move |i, l| delay_vectors(&i3[i as usize], 2, nlook, l), move |i| json!({"input": i4[i as usize].name, "delays": "{0,1,2}^n"})).chunked(1).wall(600_000));
        let (i5, i6) = (ins.clone(), ins.clone());
        let reps = if thorough { 128 } else { 32 };
        def.spaces.push(Space::new("repeated-runs-sampled", ins.len() as u64, move |i, l| repeated_runs(&i5[i as usize], reps, l), move |i| json!({"input": i6[i as usize].name, "repetitions": reps, "kind": "labelled sampling of hash seeds"})).chunked(1).wall(600_000));
        def.spaces.push(history_space());
        def.spaces.push(evil_space());
        def.finish = Some(Box::new(|total, extra| {
            let g = |k: &str| total.counters.get(k).copied().unwrap_or(0);
            extra.insert("states".into(), json!(g("states").max(1)));
            extra.insert("transitions".into(), json!(g("transitions").max(1)));
            extra.insert("traces_validated_against_impl".into(), json!(g("schedules")));
        }));
        def
    })
}
