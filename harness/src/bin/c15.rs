//! C15 — JSON output is always valid, schema-conformant and self-consistent.
//! Runs the JSON oracle (independent strict parser, mechanised json-schema.md, redundancy and
//! state-vs-document comparison; procgen.rs) over every process state of the C14 spaces, the
//! C19 bit-flip space and a hostile-name space, for `pretty` in {false, true}.
use minidump_processor::ProcessState;
use vh::procgen::*;
use vh::*;

fn check_state(m: &Model, st: &ProcessState, l: &mut Local, names_space: bool) {
    let mut docs: Vec<J> = vec![];
    for pretty in [false, true] {
        l.eval();
        let mut out: Vec<u8> = vec![];
        match guard(|| st.print_json(&mut out, pretty)) {
            Ok(Ok(())) => {}
            Ok(Err(e)) => {
                l.violation("c15:print_json:error", format!("print_json(pretty={pretty}) returned an error: {e}"), json!({"model": m.summary()}));
                continue;
            }
            Err(p) => {
                l.panic_violation(&p, json!({"model": m.summary(), "pretty": pretty}));
                continue;
            }
        }
        let mut problems = vec![];
        let j = check_json(st, &out, &mut problems);
        for (sig, what) in problems {
            l.violation(sig, what, json!({"model": m.summary(), "pretty": pretty}));
        }
        if let Some(j) = j {
            docs.push(j);
        }
    }
    if docs.len() == 2 && docs[0] != docs[1] {
        l.violation("c15:document:pretty-and-compact-differ", "the pretty and the compact rendering are different documents", json!({"model": m.summary()}));
    }
    let Some(j) = docs.first() else { return };
    // ---- what the generator knows must be in the document (escaping is judged on the way:
    // the strings come back through the independent parser)
    let fail = |l: &mut Local, sig: &str, what: String| l.violation(format!("c15:{sig}"), what, json!({"model": m.summary()}));
    let si = j.get("system_info");
    if si.get("cpu_arch").str() != Some(m.cpu.json_name()) {
        fail(l, "system_info.cpu_arch:differs-from-dump", format!("cpu_arch {:?} for architecture {:?}", si.get("cpu_arch"), m.cpu));
    }
    if let Some(n) = m.os().json_name() {
        if si.get("os").str() != Some(n) {
            fail(l, "system_info.os:differs-from-dump", format!("os {:?} for platform id {:#x}", si.get("os"), m.platform_id));
        }
    } else if let Some(v) = si.get("os").hex() {
        if v != m.platform_id as u64 {
            fail(l, "system_info.os:differs-from-dump", format!("os {:?} for platform id {:#x}", si.get("os"), m.platform_id));
        }
    }
    let dump_tid = m.dump_tid();
    for (i, (t, jt)) in m.threads.iter().zip(j.get("threads").arr()).enumerate() {
        if dump_tid == Some(t.tid) {
            continue;
        }
        if jt.get("thread_name").str() != m.name_of(t.tid) {
            fail(l, "threads[].thread_name:differs-from-dump", format!("thread {i}: name in JSON is not the name in the thread-names stream"));
        }
    }
    for (k, (mm, jm)) in m.modules.iter().zip(j.get("modules").arr()).enumerate() {
        // `filename` is documented as the file name part of the module name
        let base = mm.name.rsplit(['/', '\\']).next().unwrap_or("");
        if jm.get("filename").str() != Some(base) {
            fail(l, "modules[].filename:differs-from-dump", format!("modules[{k}].filename is not the last path component of the module name"));
        }
    }
    for (k, (mm, jm)) in m.unloaded.iter().zip(j.get("unloaded_modules").arr()).enumerate() {
        if jm.get("filename").str() != Some(mm.name.as_str()) {
            fail(l, "unloaded_modules[].filename:differs-from-dump", format!("unloaded_modules[{k}].filename is not the name in the stream"));
        }
    }
    // outcome classes
    l.outcome(match m.cpu.bits() {
        Some(32) => "width:32",
        Some(_) => "width:64",
        None => "width:unknown",
    });
    l.outcome(if j.get("crashing_thread").is_null() { "crashing_thread:absent" } else if j.get("crashing_thread").get("threads_index").uint() == Some(0) { "crashing_thread:index-0" } else { "crashing_thread:index>0" });
    if st.threads.iter().any(|t| t.frames.is_empty()) {
        l.outcome("thread-without-frames");
    }
    if st.requesting_thread.is_some_and(|i| st.threads[i].frames.is_empty()) {
        l.outcome("crashing-thread-without-frames");
    }
    if !j.get("crash_info").get("possible_bit_flips").is_null() {
        l.outcome("with-bit-flips");
    }
    if !j.get("crash_info").get("adjusted_address").is_null() {
        l.outcome("with-adjusted-address");
    }
    if names_space {
        let f0 = j.get("threads").arr().first().map(|t| t.get("frames").arr().first().cloned().unwrap_or(J::Null)).unwrap_or(J::Null);
        let sym = &m.syms[0].1;
        let text = String::from_utf8_lossy(sym);
        let func_line = text.lines().find_map(|l| l.strip_prefix("FUNC 1000 100 0 ")).map(|s| s.to_string());
        match (f0.get("function").str(), func_line) {
            (Some(f), Some(w)) if f == w => l.outcome("names:function-round-trips"),
            (Some(_), _) => l.outcome("names:function-altered-by-symbol-parser"),
            (None, _) => l.outcome("names:no-function"),
        }
        if j.get("lsb_release").get("id").str().is_some_and(|s| s.contains('\u{fffd}')) {
            l.outcome("names:lossy-decoded-lsb-release");
        }
    }
    // distinct non-trivial case: the document's shape (field presence and types) + the strings' escape classes
    fn shape(j: &J, out: &mut String) {
        match j {
            J::Null => out.push('n'),
            J::Bool(_) => out.push('b'),
            J::Num(_) => out.push('#'),
            J::Str(s) => {
                out.push('s');
                if s.chars().any(|c| (c as u32) < 0x20 || c == '"' || c == '\\' || (c as u32) > 0xffff) {
                    // which hostile characters the string holds
                    let mut cls: Vec<u32> = s.chars().filter(|c| (*c as u32) < 0x20 || *c == '"' || *c == '\\' || (*c as u32) > 0xffff).map(|c| c as u32).collect();
                    cls.sort();
                    cls.dedup();
                    out.push_str(&format!("{cls:x?}"));
                }
            }
            J::Arr(v) => {
                out.push('[');
                for x in v {
                    shape(x, out);
                }
                out.push(']');
            }
            J::Obj(v) => {
                out.push('{');
                for (k, x) in v {
                    out.push_str(k);
                    out.push(':');
                    shape(x, out);
                }
                out.push('}');
            }
        }
    }
    let mut sh = String::new();
    shape(j, &mut sh);
    l.distinct(&(sh, si.get("os").str().map(|s| s.to_string()), si.get("cpu_arch").str().map(|s| s.to_string()), j.get("crash_info").get("type").str().map(|s| s.to_string())));
}

fn space(g: Gen) -> Space {
    let g2 = g.clone();
    let names_space = g.name == "names";
    Space::new(
        g.name,
        g.len,
        move |idx, l| {
            let m = (g2.model)(idx);
            match process_model(&m) {
                Proc::Ok(st) => check_state(&m, &st, l, names_space),
                // processing itself is C03/C14's subject; here it only yields no state to render
                Proc::ProcessErr(_) => l.outcome("no-state:process-error"),
                Proc::Panic(_) => l.outcome("no-state:processing-panicked"),
                Proc::ReadErr(e) => panic!("c15 generator produced an unreadable dump: {e} ({m:?})"),
            }
        },
        g.describe(),
    )
}

fn main() {
    run_check("C15", |ctx| {
        let mut def = CheckDef::new(
            "C15",
            "exploration",
            "bounded-exhaustive: every process state of the C14 spaces (index: thread/exception/Breakpad-info/context product x 12 CPUs, OS id rotating in quick and a factor in thorough; reason: OS x CPU x exception-record menus; proc: misc info / Linux status / module and unloaded-module layouts / up to 32 threads), of a fixed arithmetic progression through the C19 bit-flip space and of a hostile-name space (every control character U+0000..U+001F singly and together, quote, backslash, non-BMP, U+FFFD, invalid UTF-8 in the lsb-release stream (decoded lossily), U+2028/9, BOM, 70 000-character name) x injection point {module, thread, function, source file, unloaded module, all} x {x86, amd64} is rendered with print_json(pretty in {false,true}); the bytes are parsed by an independent strict RFC 8259 parser and by serde_json, checked against a mechanisation of json-schema.md (field names, types, closed enumerations, hexstrings padded to the pointer width implied by cpu_arch), checked for the redundancies the property lists and compared string by string with the state they were rendered from. evaluations = renderings; distinct_nontrivial = distinct document shapes (field presence/types, hostile-character classes per string) x os x cpu x crash type.",
        );
        def.assumptions = vec![
            "`<u32>` is checked as a non-negative JSON integer, not for range (the document's types are descriptive)".into(),
            "every field may be null or absent (the document's most important rule); a field name the document does not list is reported, except `proc_limits` (emitted by the implementation, missing from the document)".into(),
            "cpu_arch additionally accepts \"mips\" and \"mips64\" (the document says enumerations are not exhaustive; these are the two further names the Cpu type prints)".into(),
            "`trust`, `access_type`, `kind`, `crash_inconsistencies` are checked as closed at the values the document lists; system_info.os must be a listed name or a hexstring, as the document says".into(),
            "for an unknown CPU no pointer width is implied: addresses only need to be hexstrings".into(),
            "function_offset is compared with instruction - function_base of the state (the document does not carry the function base)".into(),
            "function/file names are compared with the state's strings (what the symbol parser kept), not with the raw symbol file line; line terminators cannot occur inside symbol-file names; unpaired UTF-16 surrogates are kept out of dump strings (the reader drops such names)".into(),
            "kept out (C03's subject): /proc limits streams (undocumented `proc_limits` content)".into(),
            "edge-modules space: a module or unloaded module whose base + size is 2^64-1 or 2^64 (8 cases; the reader drops list entries that would pass 2^64-1, the JSON must mirror the list the state holds)".into(),
        ];
        let bf = gen_bitflip(ctx.tier);
        // the bit-flip space is used along a fixed arithmetic progression (stride coprime with every
        // radix of the space, so every value of every factor occurs), enumerated completely
        let stride: u64 = ctx.tier.pick(97, 17);
        let bf = Gen { name: "bitflip", len: bf.len / stride, model: { let inner = bf.clone(); std::sync::Arc::new(move |i| (inner.model)(i * stride)) } };
        def.extra.insert("bitflip_subspace".into(), json!(format!("every {stride}th case of the C19 space of this tier")));
        def.spaces = vec![space(gen_edge_modules(ctx.tier)), space(gen_names(ctx.tier)), space(gen_reason(ctx.tier)), space(gen_proc(ctx.tier)), space(bf), space(gen_access_kinds(ctx.tier)), space(gen_deep_stacks(ctx.tier)), space(gen_mac_crash_info(ctx.tier)), space(gen_unloaded_frames(ctx.tier)), space(if ctx.tier == Tier::Quick { gen_index_opts(false, 1) } else { gen_index_opts(true, 2) })];
        def
    })
}
