//! C07 — STACK WIN records evaluate exactly as documented (program strings and FPO).
//!
//! Bounded-exhaustive differential check against `vh::refwin` (written from the module
//! documentation of walker.rs): every program up to the length bound over the WIN token
//! alphabet x callee states; the full FPO parameter product; extreme size fields; two-record
//! arrangements as the parser's repair rule sees them — all through the real parser +
//! `SymbolFile::walk_frame` with a mock `FrameWalker`; and the real x86 `walk_stack` over a
//! STACK WIN-only symbol file, where the caller frame's validity set and register values are
//! compared with the reference (two unwind steps, the second with a grand callee), and over
//! whole chains of frames (grand callee without symbols / with a FUNC only / none; return slot
//! holding the callee's own eip) where frame count, eip and esp of every frame are compared.
use breakpad_symbols::{FrameWalker, SimpleModule, SymbolFile};
use minidump::format::CONTEXT_X86;
use minidump::system_info::{Cpu, Os};
use minidump::{CpuContext, MinidumpContext, MinidumpContextValidity, MinidumpMemory, MinidumpModule, MinidumpModuleList, MinidumpRawContext, UnifiedMemory};
use minidump_unwind::{string_symbol_supplier, walk_stack, CallStack, FrameTrust, StackFrame, SystemInfo, Symbolizer};
use std::cell::RefCell;
use std::collections::{BTreeMap, BTreeSet, HashMap, HashSet};
use vh::refwin::{self, Selected, Sizes, WinEnv, WinExpect, WinKind, WinRecord};
use vh::*;

// ---------------------------------------------------------------------------------------------
// alphabets

const TOKENS: &[&str] = &[
    "+", "-", "*", "/", "%", "@", "^", "=",
    "$T0", "$T1", "$eip", "$esp", "$ebp", "$ebx", "$esi", "$edi",
    ".cbParams", ".cbCalleeParams", ".cbSavedRegs", ".cbLocals", ".raSearch", ".raSearchStart", ".undef",
    "0", "4", "8", "-1", "2147483648", "=4", "!!",
];
const OPERATORS: &[&str] = &["+", "-", "*", "/", "%", "@", "^", "="];

/// 32-bit stack memory image of the mock: three readable windows.
fn mem32(addr: u64) -> Option<u32> {
    if addr < 0x40 {
        Some(0x1000 + addr as u32 * 4) // pointers into the middle window
    } else if (0x1000..0x1200).contains(&addr) {
        Some(0x4000_0000 + (addr as u32 - 0x1000) * 0x11)
    } else if (0xffff_ffc0..=0xffff_fffc).contains(&addr) {
        Some(0x5000_0000 + (addr as u32 & 0x3f))
    } else {
        None
    }
}

#[derive(Clone, Copy, Debug, PartialEq, Eq, Hash)]
struct Callee {
    esp: Option<u32>,
    ebp: Option<u32>,
    ebx: Option<u32>,
    eip: u32,
    gc: bool,
    gcps: u32,
}
impl Callee {
    fn reg(&self, n: &str) -> Option<u64> {
        match n {
            "esp" => self.esp.map(u64::from),
            "ebp" => self.ebp.map(u64::from),
            "ebx" => self.ebx.map(u64::from),
            "eip" => Some(self.eip as u64),
            _ => None,
        }
    }
    fn json(&self) -> Value {
        json!({"esp": self.esp, "ebp": self.ebp, "ebx": self.ebx, "eip": self.eip, "has_grand_callee": self.gc, "grand_callee_param_size": self.gcps})
    }
}
impl WinEnv for Callee {
    fn callee_reg(&self, n: &str) -> Option<u64> {
        self.reg(n)
    }
    fn mem(&self, a: u64) -> Option<u32> {
        mem32(a)
    }
    fn has_grand_callee(&self) -> bool {
        self.gc
    }
    fn grand_callee_param_size(&self) -> u32 {
        self.gcps
    }
}

struct Mock {
    ip: u64,
    c: Callee,
    set: BTreeMap<String, u64>,
    cfa_or_ra_called: bool,
}
impl FrameWalker for Mock {
    fn get_instruction(&self) -> u64 {
        self.ip
    }
    fn has_grand_callee(&self) -> bool {
        self.c.gc
    }
    fn get_grand_callee_parameter_size(&self) -> u32 {
        self.c.gcps
    }
    fn get_register_at_address(&self, a: u64) -> Option<u64> {
        mem32(a).map(u64::from)
    }
    fn get_callee_register(&self, n: &str) -> Option<u64> {
        self.c.reg(n)
    }
    fn set_caller_register(&mut self, n: &str, v: u64) -> Option<()> {
        // accepts any name, so that a register outside the documented six would be seen
        self.set.insert(n.to_string(), v);
        Some(())
    }
    fn clear_caller_register(&mut self, n: &str) {
        // by exact name, like the real walker (the effect of clearing is judged through the
        // real x86 walk_stack in the `walk_stack` space, not here)
        self.set.remove(n);
    }
    fn set_cfa(&mut self, _: u64) -> Option<()> {
        self.cfa_or_ra_called = true;
        Some(())
    }
    fn set_ra(&mut self, _: u64) -> Option<()> {
        self.cfa_or_ra_called = true;
        Some(())
    }
}

// ---------------------------------------------------------------------------------------------

thread_local! {
    static PANIC_SIGS: RefCell<HashMap<(String, u32), String>> = RefCell::new(HashMap::new());
}
/// `Local::panic_violation` with the signature (which reads the source file) cached per site.
fn report_panic(l: &mut Local, p: &PanicInfo, detail: &dyn Fn() -> Value) {
    let sig = PANIC_SIGS.with(|m| m.borrow_mut().entry((p.file.clone(), p.line)).or_insert_with(|| panic_signature(p)).clone());
    if l.violations.iter().any(|v| v.sig == sig) {
        l.violation(sig, String::new(), Value::Null); // counted; the witness is already stored
    } else {
        l.violation(sig, format!("panic at {}:{}: {}", p.file.trim_start_matches("/repo/"), p.line, p.msg.chars().take(160).collect::<String>()), detail());
    }
}

fn compare(l: &mut Local, form: &str, exp: &WinExpect, res: Result<Option<()>, PanicInfo>, m: &Mock, detail: &dyn Fn() -> Value) {
    let res = match res {
        Ok(r) => r,
        Err(p) => {
            report_panic(l, &p, detail);
            return;
        }
    };
    let point = format!("win.walk_frame.{form}");
    if m.cfa_or_ra_called {
        l.violation(format!("{point}:set_cfa-or-set_ra-called"), "a STACK WIN record reported a cfa/ra (only the six registers are reported)", detail());
    }
    match exp {
        WinExpect::Open(_) => {}
        WinExpect::Fail(why) => {
            if res.is_some() {
                l.violation(format!("{point}:result:got-Some:expected-None({why})"), format!("walk_frame succeeded where the documented semantics fail cleanly ({why})"), detail());
            }
        }
        WinExpect::Regs { regs, or_none } => {
            if res.is_none() {
                if or_none.is_none() {
                    l.violation(format!("{point}:result:got-None:expected-Some"), "walk_frame failed where the documented semantics succeed", detail());
                }
                return;
            }
            let got: BTreeSet<&str> = m.set.keys().map(|s| s.as_str()).collect();
            let want: BTreeSet<&str> = regs.keys().copied().collect();
            if got != want {
                l.violation(format!("{point}:reported-register-set"), format!("reported caller registers {got:?}, reference {want:?}"), detail());
                return;
            }
            for (r, v) in regs {
                if let Some(v) = v {
                    if m.set[*r] != *v as u64 {
                        l.violation(format!("{point}:register-value"), format!("caller {r} = {:#x}, reference {v:#x}", m.set[*r]), detail());
                    }
                }
            }
        }
    }
}

fn label(prefix: &str, exp: &WinExpect) -> String {
    label_res(prefix, exp, None)
}
/// outcome class by the reference; for the "either is accepted" class also what the code did
fn label_res(prefix: &str, exp: &WinExpect, res: Option<&Result<Option<()>, PanicInfo>>) -> String {
    match exp {
        WinExpect::Open(w) => format!("{prefix}: open ({w})"),
        WinExpect::Fail(w) => format!("{prefix}: None ({w})"),
        WinExpect::Regs { or_none: Some(w), .. } => {
            let did = match res {
                Some(Ok(Some(()))) => " [code: Some, registers compared]",
                Some(Ok(None)) => " [code: None]",
                Some(Err(_)) => " [code: panic]",
                None => "",
            };
            format!("{prefix}: Some, or None accepted ({w}){did}")
        }
        WinExpect::Regs { .. } => format!("{prefix}: Some"),
    }
}

fn parse(text: &str) -> SymbolFile {
    SymbolFile::from_bytes(text.as_bytes()).unwrap_or_else(|e| panic!("harness: generated symbol file does not parse: {e:?}\n{text}"))
}
const BASE: u64 = 0x1000;
fn module() -> SimpleModule {
    SimpleModule { base_address: Some(BASE), size: Some(0x100), ..Default::default() }
}
fn win_line(ty: char, addr: u64, size: u32, sz: Sizes, has_prog: u8, rest: &str) -> String {
    format!("STACK WIN {ty} {addr:x} {size:x} 0 0 {:x} {:x} {:x} 0 {has_prog} {rest}\n", sz.params, sz.saved, sz.locals)
}
const HDR: &str = "MODULE windows x86 000000000000000000000000000000000 m\n";

fn walk(l: &mut Local, sf: &SymbolFile, rel: u64, c: Callee) -> (Result<Option<()>, PanicInfo>, Mock) {
    let mut m = Mock { ip: BASE + rel, c, set: BTreeMap::new(), cfa_or_ra_called: false };
    let module = module();
    l.eval();
    let r = guard(|| sf.walk_frame(&module, &mut m));
    (r, m)
}

// ---------------------------------------------------------------------------------------------
// space 1: programs

const PROG_SIZES: Sizes = Sizes { params: 0xc, saved: 8, locals: 0x10 };
/// callee states used for every program
const PROG_STATES: &[Callee] = &[
    Callee { esp: Some(0x1000), ebp: Some(0x1010), ebx: Some(5), eip: 0x15, gc: false, gcps: 0 },
    Callee { esp: Some(0x1004), ebp: Some(0x1010), ebx: None, eip: 0x15, gc: true, gcps: 0x14 },
    Callee { esp: Some(0), ebp: Some(0xffff_fffe), ebx: Some(5), eip: 0x15, gc: false, gcps: 0 },
    Callee { esp: Some(0x10f0), ebp: Some(8), ebx: Some(0x8000_0000), eip: 0x15, gc: true, gcps: 0 },
];
/// states in which every program must fail (or may fail: .raSearch overflow): used for programs
/// of length <= 2 only
const PROG_STATES_SHORT: &[Callee] = &[
    Callee { esp: Some(0xffff_fffc), ebp: Some(0x1010), ebx: Some(5), eip: 0x15, gc: true, gcps: 0 },
    Callee { esp: Some(0x1000), ebp: None, ebx: Some(5), eip: 0x15, gc: false, gcps: 0 },
    Callee { esp: None, ebp: Some(0x1010), ebx: Some(5), eip: 0x15, gc: false, gcps: 0 },
    Callee { esp: Some(7), ebp: Some(4), ebx: Some(5), eip: 0x15, gc: true, gcps: u32::MAX },
];

fn prog_space(maxlen: u32) -> Space {
    let k = TOKENS.len() as u64;
    let n = seq_count(k, maxlen) - 1; // the empty program does not form a record line
    prog_space_over("programs", n, move |idx| seq_unrank(idx + 1, k, maxlen).into_iter().map(|t| TOKENS[t as usize]).collect())
}
/// push tokens of the WIN language; the reduced set drops synonyms
fn push_tokens(reduced: bool) -> Vec<&'static str> {
    let drop: &[&str] = if reduced { &["$T1", "$edi", ".raSearchStart", ".cbCalleeParams", "8"] } else { &[] };
    TOKENS.iter().copied().filter(|t| !OPERATORS.contains(t) && !["2147483648", "=4", "!!"].contains(t) && !drop.contains(t)).collect()
}
/// every well-formed program (stack never underflows and is empty at the end) of exactly `len` tokens
fn wf_space(len: usize, reduced: bool) -> Space {
    use vh::refcfi::wf::{Class, WellFormed};
    let g = WellFormed::new(
        vec![
            Class { tokens: push_tokens(reduced), need: 0, delta: 1 },
            Class { tokens: vec!["+", "-", "*", "/", "%", "@"], need: 2, delta: -1 },
            Class { tokens: vec!["^"], need: 1, delta: 0 },
            Class { tokens: vec!["="], need: 2, delta: -2 },
            Class { tokens: vec!["=4"], need: 2, delta: -1 },
        ],
        len,
        0,
    );
    let name: &'static str = Box::leak(format!("programs-wellformed-{len}").into_boxed_str());
    prog_space_over(name, g.count(), move |i| g.unrank(i))
}

/// Deep programs: no limit on pending operands. For every n in 1..=48 and operator: `$T0 <n operands> <n-1 operators> =`
/// followed by the standard tail, and the left-leaning chain of the same length.
fn deep_prog_space() -> Space {
    const OPS: [&str; 3] = ["+", "-", "*"];
    let radices = [48u64, 3, 2];
    prog_space_over("programs-deep", product(&radices), move |i| {
        let d = unrank(i, &radices);
        let (n, op) = (d[0] as usize + 1, OPS[d[1] as usize]);
        let mut v: Vec<&'static str> = vec!["$T0"];
        if d[2] == 0 {
            for k in 0..n {
                v.push(["4", "$esp", ".cbLocals", "8"][k % 4]);
            }
            v.extend(std::iter::repeat(op).take(n - 1));
        } else {
            v.push("4");
            for _ in 1..n {
                v.push("8");
                v.push(op);
            }
        }
        v.extend(["=", "$eip", ".raSearch", "^", "=", "$esp", ".raSearch", "4", "+", "="]);
        v
    })
}

fn prog_space_over(name: &'static str, n: u64, gen: impl Fn(u64) -> Vec<&'static str> + Send + Sync + Clone + 'static) -> Space {
    let gen2 = gen.clone();
    let run = move |idx: u64, l: &mut Local| {
        let toks = gen(idx);
        let prog = toks.join(" ");
        let text = format!("{HDR}{}", win_line('4', 0x10, 0x20, PROG_SIZES, 1, &prog));
        let sf = parse(&text);
        let states = PROG_STATES.iter().chain(if toks.len() <= 2 { PROG_STATES_SHORT.iter() } else { PROG_STATES_SHORT[..0].iter() });
        for (si, c) in states.enumerate() {
            let exp = refwin::eval_program(&prog, PROG_SIZES, c);
            let (res, m) = walk(l, &sf, 0x15, *c);
            l.outcome(&label_res(name, &exp, Some(&res)));
            l.distinct(&(si, &exp));
            if let WinExpect::Regs { .. } = &exp {
                for op in OPERATORS {
                    if toks.contains(op) || (*op == "=" && toks.contains(&"=4")) {
                        l.count(&format!("successful_programs_using[{op}]"), 1);
                    }
                }
            }
            compare(l, "framedata", &exp, res, &m, &|| json!({"program": prog, "sizes": format!("{PROG_SIZES:?}"), "callee": c.json(), "reference": format!("{exp:?}")}));
        }
    };
    let desc = move |idx: u64| json!({"program": gen2(idx).join(" "), "sizes": format!("{PROG_SIZES:?}"), "callee_states": PROG_STATES.iter().map(|c| c.json()).collect::<Vec<_>>()});
    Space::new(name, n, run, desc)
}

// ---------------------------------------------------------------------------------------------
// space 2: FPO parameter product; space 3: extreme size fields under program strings

fn callee_menu(esps: &[Option<u32>], ebps: &[Option<u32>]) -> Vec<(Option<u32>, Option<u32>, Option<u32>, bool, u32)> {
    let mut v = vec![];
    for &esp in esps {
        for &ebp in ebps {
            for ebx in [Some(5u32), None] {
                for (gc, gcps) in [(false, 0u32), (true, 0), (true, 8), (true, 1 << 31), (true, u32::MAX)] {
                    v.push((esp, ebp, ebx, gc, gcps));
                }
            }
        }
    }
    v
}

fn size_triples(menu: &[u32]) -> Vec<Sizes> {
    let mut v = vec![];
    for &params in menu {
        for &saved in menu {
            for &locals in menu {
                v.push(Sizes { params, saved, locals });
            }
        }
    }
    v
}

fn fpo_space(size_menu: &'static [u32], esps: &'static [Option<u32>]) -> Space {
    let sizes = size_triples(size_menu);
    let callees = callee_menu(esps, &[Some(0x1010), None]);
    let radices = [sizes.len() as u64, 2, callees.len() as u64, 2];
    let n = product(&radices);
    let gen = move |idx: u64| -> (Sizes, bool, Callee) {
        let d = unrank(idx, &radices);
        let sz = sizes[d[0] as usize];
        let (esp, ebp, ebx, gc, gcps) = callees[d[2] as usize];
        // callee eip: unequal to / equal to the word at the return slot (leftover-return-address rule)
        let slot = esp.map(|e| e as u64 + sz.locals as u64 + sz.saved as u64 + gcps as u64).and_then(mem32);
        let eip = if d[3] == 1 { slot.unwrap_or(0x15) } else { 0x15 };
        (sz, d[1] == 1, Callee { esp, ebp, ebx, eip, gc, gcps })
    };
    let g2 = gen.clone();
    let run = move |idx: u64, l: &mut Local| {
        let (sz, alloc, c) = gen(idx);
        let text = format!("{HDR}{}", win_line('0', 0x10, 0x20, sz, 0, if alloc { "1" } else { "0" }));
        let sf = parse(&text);
        let exp = refwin::eval_fpo(alloc, sz, &c);
        let (res, m) = walk(l, &sf, 0x15, c);
        l.outcome(&label_res(if alloc { "fpo (ebp pushed)" } else { "fpo (ebp/ebx pass through)" }, &exp, Some(&res)));
        l.distinct(&("fpo", alloc, &exp));
        if let WinExpect::Regs { regs, .. } = &exp {
            if c.esp.is_some() && regs.get("esp").copied().flatten().map(u64::from) == c.esp.map(|e| e as u64 + sz.locals as u64 + sz.saved as u64 + c.gcps as u64 + 8) {
                l.count("fpo_leftover_return_address_skips", 1);
            }
        }
        compare(l, "fpo", &exp, res, &m, &|| json!({"line": text, "callee": c.json(), "reference": format!("{exp:?}")}));
    };
    let desc = move |idx: u64| {
        let (sz, alloc, c) = g2(idx);
        json!({"form": "fpo", "sizes": format!("{sz:?}"), "allocates_base_pointer": alloc, "callee": c.json()})
    };
    Space::new("fpo", n, run, desc)
}

const EXTREME_PROGS: &[&str] = &[
    "$T0 .raSearch = $eip $T0 ^ = $esp $T0 4 + =",
    "$eip .cbParams .cbSavedRegs + .cbLocals + .cbCalleeParams + = $esp .raSearchStart =",
    "$T0 $ebp 16 @ = $eip .raSearch ^ = $esp $T0 =",
    "$T0 $ebp = $eip $T0 4 + ^ = $ebp $T0 ^ = $esp $T0 8 + =",
    // the align operator written only in the glued '=tok' spelling (`=@` is `=` then `@`): the '@' rule applies
    "$T1 $ebp 8 $T0 4 =@ = $eip .raSearch ^ = $esp .raSearch 4 + =",
    "$T1 .raSearchStart 4 $T0 .cbLocals =@ = $eip $T1 ^ = $esp $T1 4 + =",
    // .raSearch and .raSearchStart are two variables: assigning or undefining one leaves the other as it was
    ".raSearchStart $ebp 4 + = $eip .raSearch ^ = $esp .raSearch 4 + =",
    ".raSearch .undef = $eip .raSearchStart ^ = $esp .raSearchStart 4 + =",
    ".raSearch 0 = $eip .raSearchStart ^ = $esp .raSearch =",
];

fn extreme_space(size_menu: &'static [u32]) -> Space {
    let sizes = size_triples(size_menu);
    let callees = callee_menu(&[Some(0), Some(7), Some(0x1000), Some(0xffff_fffc)], &[Some(0x1010), Some(0xffff_fffe), None]);
    let radices = [sizes.len() as u64, EXTREME_PROGS.len() as u64, callees.len() as u64];
    let n = product(&radices);
    let gen = move |idx: u64| -> (Sizes, &'static str, Callee) {
        let d = unrank(idx, &radices);
        let (esp, ebp, ebx, gc, gcps) = callees[d[2] as usize];
        (sizes[d[0] as usize], EXTREME_PROGS[d[1] as usize], Callee { esp, ebp, ebx, eip: 0x15, gc, gcps })
    };
    let g2 = gen.clone();
    let run = move |idx: u64, l: &mut Local| {
        let (sz, prog, c) = gen(idx);
        let text = format!("{HDR}{}", win_line('4', 0x10, 0x20, sz, 1, prog));
        let sf = parse(&text);
        let exp = refwin::eval_program(prog, sz, &c);
        let (res, m) = walk(l, &sf, 0x15, c);
        l.outcome(&label_res("size fields x program", &exp, Some(&res)));
        l.distinct(&("extreme", prog, &exp));
        compare(l, "framedata", &exp, res, &m, &|| json!({"line": text, "callee": c.json(), "reference": format!("{exp:?}")}));
    };
    let desc = move |idx: u64| {
        let (sz, prog, c) = g2(idx);
        json!({"form": "framedata", "sizes": format!("{sz:?}"), "program": prog, "callee": c.json()})
    };
    Space::new("size-fields", n, run, desc)
}

// ---------------------------------------------------------------------------------------------
// space 4: two records — type / has_program consistency and the parser's overlap repair

const REC_A: (u64, u32) = (0x10, 0x20);
const REC_B_RANGES: &[(u64, u32)] = &[(0x30, 0x10), (0x00, 0x10), (0x20, 0x20), (0x18, 0x08), (0x10, 0x10), (0x08, 0x10), (0x08, 0x30), (0x10, 0x20), (0x20, 0x00)];
const REC_LOOKUPS: &[u64] = &[0x07, 0x08, 0x0f, 0x10, 0x17, 0x18, 0x1f, 0x20, 0x2f, 0x30, 0x37, 0x38, 0x3f, 0x40];
const SZ_A: Sizes = Sizes { params: 4, saved: 8, locals: 0x10 };
const SZ_B: Sizes = Sizes { params: 8, saved: 4, locals: 0x20 };
// reads the callee's %ebx first: with %ebx unknown the program fails, while an FPO record (for which %ebx is
// optional) would still unwind
const REC_PROG: &str = "$T0 $ebx = $eip .raSearch ^ = $esp .raSearch 4 + = $ebx .cbLocals =";
/// (type char, has_program digit, is program string)
const REC_B_KINDS: &[(char, u8, bool)] = &[('0', 0, false), ('4', 1, true), ('1', 0, false), ('4', 0, false), ('0', 1, true), ('2', 1, true)];

fn records_space() -> Space {
    let radices = [2, REC_B_KINDS.len() as u64, REC_B_RANGES.len() as u64, 2];
    let n = product(&radices);
    let gen = move |idx: u64| -> (String, Vec<WinRecord>) {
        let d = unrank(idx, &radices);
        let a_prog = d[0] == 1;
        let (bty, bhp, bprog) = REC_B_KINDS[d[1] as usize];
        let (baddr, bsize) = REC_B_RANGES[d[2] as usize];
        let a_line = win_line(if a_prog { '4' } else { '0' }, REC_A.0, REC_A.1, SZ_A, a_prog as u8, if a_prog { REC_PROG } else { "0" });
        let b_line = win_line(bty, baddr, bsize, SZ_B, bhp, if bprog { REC_PROG } else { "0" });
        let a_rec = WinRecord { address: REC_A.0, size: REC_A.1, sizes: SZ_A, kind: if a_prog { WinKind::FrameData(REC_PROG.into()) } else { WinKind::Fpo(false) } };
        // B enters the tables only when its type is 0 or 4 and has_program agrees with the type
        let b_rec = match (bty, bhp) {
            ('0', 0) => Some(WinRecord { address: baddr, size: bsize, sizes: SZ_B, kind: WinKind::Fpo(false) }),
            ('4', 1) => Some(WinRecord { address: baddr, size: bsize, sizes: SZ_B, kind: WinKind::FrameData(REC_PROG.into()) }),
            _ => None,
        };
        let (text, recs) = if d[3] == 0 {
            (format!("{HDR}{a_line}{b_line}"), [Some(a_rec), b_rec])
        } else {
            (format!("{HDR}{b_line}{a_line}"), [b_rec, Some(a_rec)])
        };
        (text, recs.into_iter().flatten().collect())
    };
    let g2 = gen.clone();
    let run = move |idx: u64, l: &mut Local| {
        let (text, recs) = gen(idx);
        let sf = parse(&text);
        // two callee states: every register known, and %ebx unknown (the frame-data program reads it, FPO does not need it)
        for c in [Callee { esp: Some(0x1000), ebp: Some(0x1010), ebx: Some(5), eip: 0x15, gc: false, gcps: 0 }, Callee { esp: Some(0x1000), ebp: Some(0x1010), ebx: None, eip: 0x15, gc: false, gcps: 0 }] {
        for &rel in REC_LOOKUPS {
            let (exp, what) = match refwin::select(&recs, rel) {
                Selected::None => (WinExpect::Fail("no-record-covers-address"), "no record"),
                Selected::Open => (WinExpect::Open("duplicate-ranges"), "open"),
                Selected::Record(r, fpo_too) => {
                    let e = refwin::eval_record(&r, &c);
                    let form = if matches!(r.kind, WinKind::Fpo(_)) { "fpo record" } else { "framedata record" };
                    // "Preferentially use framedata over fpo ... If STACK WIN failed, try STACK CFI" (mod.rs,
                    // walk_frame): a frame-data record that fails is not replaced by the FPO record for the same
                    // address; these files carry no STACK CFI, so the unwind fails
                    let _ = fpo_too;
                    (e, form)
                }
            };
            let (res, m) = walk(l, &sf, rel, c);
            l.outcome(&format!("two records: {what} selected -> {}", label("", &exp).trim_start_matches(": ")));
            l.distinct(&("records", &text, rel));
            compare(l, "record-selection", &exp, res, &m, &|| json!({"file": text, "lookup_rel": format!("{rel:#x}"), "callee_ebx_known": c.ebx.is_some(), "reference": format!("{exp:?}")}));
        }
        }
    };
    let desc = move |idx: u64| json!({"file": g2(idx).0, "lookups_rel": REC_LOOKUPS});
    Space::new("two-records", n, run, desc)
}

// ---------------------------------------------------------------------------------------------
// space 5: the real x86 walk_stack on a STACK WIN-only symbol file

const MOD: u64 = 0x4000_0000;
const STACK: u32 = 0x6000_0000;
const ESP0: u32 = STACK + 0x20;
const WALK_CALLEE: &[(&str, u32)] = &[("eip", MOD as u32 + 0x1010), ("esp", ESP0), ("ebp", STACK + 0x80), ("ebx", 0xb0b), ("esi", 0x51), ("edi", 0xd1), ("eax", 0xaaaa)];
const WALK_VALID: &[Option<&[&str]>] = &[None, Some(&["eip", "esp", "ebp", "ebx"]), Some(&["eip", "esp", "ebp", "esi", "edi"]), Some(&["eip", "esp", "ebp"])];
const SZ1: Sizes = Sizes { params: 0xc, saved: 8, locals: 0x10 };
const SZ2: Sizes = Sizes { params: 0x10, saved: 4, locals: 8 };
const STEP2_PROG: &str = "$eip .raSearch ^ = $esp .raSearch 4 + = $ebx .cbCalleeParams = $esi .cbParams =";

fn walk_word(i: u32) -> u32 {
    match i {
        8 => 0x0eb0_0001,            // step 1, FPO with ebp pushed: esp0 + 0 + 8 - 8
        14 => MOD as u32 + 0x2021,   // step 1 return slot: esp0 + 0x18
        17 => 0x0eb0_0002,           // step 2, FPO with ebp pushed: esp1 + 0xc + 4 - 8
        21 => MOD as u32 + 0x5001,   // step 2 return slot: esp1 + 0x18 (esp1 = STACK + 0x3c)
        _ => 0,
    }
}
struct FrameEnv<'a> {
    f: &'a StackFrame,
    gc: bool,
    gcps: u32,
}
impl WinEnv for FrameEnv<'_> {
    fn callee_reg(&self, n: &str) -> Option<u64> {
        self.f.context.get_register(n)
    }
    fn mem(&self, a: u64) -> Option<u32> {
        let s = STACK as u64;
        if a >= s && a + 4 <= s + 0x100 {
            // byte-exact little-endian read of the word image
            let mut b = [0u8; 4];
            for (k, x) in b.iter_mut().enumerate() {
                let off = (a - s) as u32 + k as u32;
                *x = walk_word(off / 4).to_le_bytes()[(off % 4) as usize];
            }
            Some(u32::from_le_bytes(b))
        } else {
            None
        }
    }
    fn has_grand_callee(&self) -> bool {
        self.gc
    }
    fn grand_callee_param_size(&self) -> u32 {
        self.gcps
    }
}

/// step-1 record choices: 3^4 frame-data programs (each of ebp, ebx, esi, edi: not mentioned /
/// assigned / assigned .undef) followed by the two FPO forms
fn step1_record(choice: u64) -> (String, WinKind) {
    // 83, 84: programs that leave $eip without a value (never assigned / undefined at the end)
    if choice >= 83 {
        let prog = ["$esp .raSearch 4 + =", "$eip .raSearch ^ = $esp .raSearch 4 + = $eip .undef ="][(choice - 83) as usize];
        return (win_line('4', 0x1000, 0x100, SZ1, 1, prog), WinKind::FrameData(prog.into()));
    }
    if choice >= 81 {
        let alloc = choice == 82;
        return (win_line('0', 0x1000, 0x100, SZ1, 0, if alloc { "1" } else { "0" }), WinKind::Fpo(alloc));
    }
    let mut prog = String::from("$eip .raSearch ^ = $esp .raSearch 4 + =");
    let mut c = choice;
    for (i, r) in ["ebp", "ebx", "esi", "edi"].iter().enumerate() {
        match c % 3 {
            1 => prog += &format!(" ${r} {} =", 0x100 + i),
            2 => prog += &format!(" ${r} .undef ="),
            _ => {}
        }
        c /= 3;
    }
    (win_line('4', 0x1000, 0x100, SZ1, 1, &prog), WinKind::FrameData(prog))
}
fn step2_record(choice: u64) -> (String, WinKind) {
    match choice {
        0 => (win_line('4', 0x2000, 0x100, SZ2, 1, STEP2_PROG), WinKind::FrameData(STEP2_PROG.into())),
        1 => (win_line('0', 0x2000, 0x100, SZ2, 0, "0"), WinKind::Fpo(false)),
        _ => (win_line('0', 0x2000, 0x100, SZ2, 0, "1"), WinKind::Fpo(true)),
    }
}

const F1_SIG: &str = "x86.walk_stack.stack_win:caller-validity:register-not-assigned-by-the-record-is-valid";

fn check_step(l: &mut Local, step: u32, exp: &WinExpect, callee: &StackFrame, caller: Option<&StackFrame>, detail: &dyn Fn() -> Value) {
    let point = "x86.walk_stack.stack_win";
    let cfi_caller = caller.filter(|f| f.trust == FrameTrust::CallFrameInfo);
    match exp {
        WinExpect::Open(_) => {}
        WinExpect::Fail(why) => {
            if cfi_caller.is_some() {
                l.violation(format!("{point}:cfi-frame-despite-failure({why})"), format!("step {step}: a CFI-trust caller frame exists although the record fails"), detail());
            }
        }
        WinExpect::Regs { regs, or_none } => {
            let (Some(Some(eip)), Some(Some(esp))) = (regs.get("eip"), regs.get("esp")) else {
                // the record leaves the caller's instruction or stack pointer without a value: what the unwinder
                // then does (no frame, or a frame by another technique) is not documented; documented is that the
                // register is unknown in the caller - a CFI-trust frame must not report it as known
                if let Some(MinidumpContextValidity::Some(valid)) = cfi_caller.map(|f| &f.context.valid) {
                    for r in ["eip", "esp"] {
                        if !matches!(regs.get(r), Some(Some(_))) && valid.contains(r) {
                            l.violation(format!("{point}:caller-validity:{r}-without-a-value-is-valid"), format!("step {step}: the record leaves ${r} without a value, yet the caller frame reports {r} as known"), detail());
                        }
                    }
                }
                return;
            };
            if *eip < 4096 || *esp as u64 <= callee.context.get_stack_pointer() {
                panic!("harness: walk menu must make progress");
            }
            let Some(f) = cfi_caller else {
                if or_none.is_none() {
                    l.violation(format!("{point}:no-cfi-frame"), format!("step {step}: no CFI-trust caller frame although the record evaluates"), detail());
                }
                return;
            };
            let valid: BTreeSet<&str> = match &f.context.valid {
                MinidumpContextValidity::All => panic!("harness: a walked frame never has validity All"),
                MinidumpContextValidity::Some(s) => s.iter().copied().collect(),
            };
            let want: BTreeSet<&str> = regs.keys().copied().collect();
            let extra: Vec<&str> = valid.difference(&want).copied().collect();
            let missing: Vec<&str> = want.difference(&valid).copied().collect();
            if !extra.is_empty() {
                l.count("walk_steps_with_stale_valid_registers", 1);
                l.violation(
                    F1_SIG,
                    format!("step {step}: caller registers {extra:?} are marked valid although the STACK WIN record did not assign them (documented: unknown in the caller); valid = {valid:?}, reference = {want:?}"),
                    detail(),
                );
            }
            if !missing.is_empty() {
                l.violation(format!("{point}:caller-validity:assigned-register-not-valid"), format!("step {step}: registers {missing:?} assigned by the record are not valid in the caller"), detail());
            }
            for (r, v) in regs {
                if let (Some(v), true) = (v, valid.contains(r)) {
                    if f.context.get_register(r) != Some(*v as u64) {
                        l.violation(format!("{point}:caller-register-value"), format!("step {step}: caller {r} = {:?}, reference {v:#x}", f.context.get_register(r)), detail());
                    }
                }
            }
            if f.instruction != *eip as u64 - 1 {
                l.violation(format!("{point}:instruction"), format!("step {step}: frame.instruction {:#x}, return address {eip:#x}", f.instruction), detail());
            }
        }
    }
}

fn walk_space() -> Space {
    let radices = [85, 3, WALK_VALID.len() as u64];
    let n = product(&radices);
    let gen = move |idx: u64| -> (String, WinKind, WinKind, usize) {
        let d = unrank(idx, &radices);
        let (l1, k1) = step1_record(d[0]);
        let (l2, k2) = step2_record(d[1]);
        // FUNC records carry a different parameter size: the STACK WIN one is documented to win
        (format!("{HDR}FUNC 1000 100 44 f0\nFUNC 2000 100 48 f1\n{l1}{l2}"), k1, k2, d[2] as usize)
    };
    let g2 = gen.clone();
    let run = move |idx: u64, l: &mut Local| {
        let (sym, k1, k2, vi) = gen(idx);
        let mut c = CONTEXT_X86::default();
        for (n, v) in WALK_CALLEE {
            c.set_register(n, *v).expect("harness: x86 register name");
        }
        let valid = match WALK_VALID[vi] {
            None => MinidumpContextValidity::All,
            Some(v) => MinidumpContextValidity::Some(v.iter().copied().collect::<HashSet<&'static str>>()),
        };
        let ctx = MinidumpContext { raw: MinidumpRawContext::X86(c), valid };
        let bytes: Vec<u8> = (0..64u32).flat_map(|i| walk_word(i).to_le_bytes()).collect();
        let mem = MinidumpMemory { desc: Default::default(), base_address: STACK as u64, size: bytes.len() as u64, bytes: &bytes, endian: scroll::LE };
        let ml = MinidumpModuleList::from_modules(vec![MinidumpModule::new(MOD, 0x10000, "m")]);
        let si = SystemInfo { os: Os::Windows, os_version: None, os_build: None, cpu: Cpu::X86, cpu_info: None, cpu_microcode_version: None, cpu_count: 1 };
        let mut syms = HashMap::new();
        syms.insert("m".to_string(), sym.clone());
        let symbolizer = Symbolizer::new(string_symbol_supplier(syms));
        let mut cs = CallStack::with_context(ctx);
        l.eval();
        let r = guard(|| refwin::block_on(walk_stack(0, |i: usize, _: &StackFrame| assert!(i < 64, "harness: frame budget"), &mut cs, Some(UnifiedMemory::Memory(&mem)), &ml, &si, &symbolizer)));
        let detail = |cs: &CallStack| {
            let frames: Vec<Value> = cs
                .frames
                .iter()
                .map(|f| {
                    let mut v: Vec<String> = f.context.valid_registers().map(|(n, x)| format!("{n}={x:#x}")).collect();
                    v.sort();
                    json!({"trust": format!("{:?}", f.trust), "instruction": format!("{:#x}", f.instruction), "valid_registers": v})
                })
                .collect();
            json!({"symbols": sym, "context_validity": format!("{:?}", WALK_VALID[vi]), "frames": frames})
        };
        if let Err(p) = r {
            if p.msg.contains("harness:") {
                panic!("{}", p.msg);
            }
            report_panic(l, &p, &|| detail(&cs));
            return;
        }
        // step 1: context frame -> frame 1 (no grand callee)
        let rec1 = WinRecord { address: 0x1000, size: 0x100, sizes: SZ1, kind: k1 };
        let exp1 = refwin::eval_record(&rec1, &FrameEnv { f: &cs.frames[0], gc: false, gcps: 0 });
        l.outcome(&label("walk_stack step 1 (context frame)", &exp1));
        l.distinct(&("walk1", vi, &exp1));
        check_step(l, 1, &exp1, &cs.frames[0], cs.frames.get(1), &|| detail(&cs));
        // step 2: frame 1 -> frame 2; the grand callee is frame 0, whose parameter size is the one of
        // its STACK WIN record (0xc), not the FUNC record's. The environment is the OBSERVED frame 1.
        // (a step-1 record that leaves eip or esp without a value puts the walk nowhere in particular: no step 2)
        let placed = !matches!(&exp1, WinExpect::Regs { regs, .. } if !matches!((regs.get("eip"), regs.get("esp")), (Some(Some(_)), Some(Some(_)))));
        if let Some(f1) = cs.frames.get(1).filter(|f| placed && f.trust == FrameTrust::CallFrameInfo) {
            let rec2 = WinRecord { address: 0x2000, size: 0x100, sizes: SZ2, kind: k2 };
            let exp2 = refwin::eval_record(&rec2, &FrameEnv { f: f1, gc: true, gcps: SZ1.params });
            l.eval();
            l.outcome(&label("walk_stack step 2 (with grand callee)", &exp2));
            l.distinct(&("walk2", vi, &exp2));
            check_step(l, 2, &exp2, f1, cs.frames.get(2), &|| detail(&cs));
        }
    };
    let desc = move |idx: u64| {
        let (sym, _, _, vi) = g2(idx);
        json!({"symbols": sym, "context_validity": format!("{:?}", WALK_VALID[vi]), "context": WALK_CALLEE.iter().map(|(n, v)| format!("{n}={v:#x}")).collect::<Vec<_>>()})
    };
    Space::new("x86-walk_stack", n, run, desc)
}

// ---------------------------------------------------------------------------------------------
// space 6: the real x86 walk_stack over whole chains of frames. The frame below the FPO /
// frame-data frame (its grand callee) is varied: a leaf the symbol files say nothing about (so
// it never gets a parameter size), a leaf known from a FUNC record only, or no leaf at all (the
// record's frame is the context frame). The word at the return slot is the callee's own eip
// (direct recursion / a leftover return address), another call site of the same function, or
// the outer function. The whole chain — number of frames, eip and esp of every frame — is
// predicted by a reference walk and compared.

const MOD_N: u64 = 0x5000_0000; // listed module, no symbol file
const C_RA1: u32 = MOD as u32 + 0x1050; // return address into f: the eip of f's inner activation
const C_RA_F2: u32 = MOD as u32 + 0x1060; // another call site inside f
const C_RA_MAIN: u32 = MOD as u32 + 0x2010;
const C_EBP_LEAF: u32 = STACK + 0x20;
const C_EBP_OUTER: u32 = STACK + 0xc0;
const C_ESP_F: u32 = STACK + 0x28;
const C_WORDS: usize = 64;
const C_PROG: &str = "$eip .raSearch ^ = $esp .raSearch 4 + = $ebp $ebp =";
const C_SZ_MAIN: Sizes = Sizes { params: 0, saved: 0, locals: 4 };
/// (label, eip of the leaf = context frame, parameter size of a FUNC record covering it)
const C_LEAVES: &[(&str, Option<u32>, Option<u32>)] = &[
    ("leaf in a module without symbols", Some(MOD_N as u32 + 0x100), None),
    ("leaf at an address no record covers", Some(MOD as u32 + 0x8010), None),
    ("leaf outside all modules", Some(0x7000_0100), None),
    ("leaf with a FUNC record only (parameter size 8)", Some(MOD as u32 + 0x3010), Some(8)),
    ("leaf with a FUNC record only (parameter size 0)", Some(MOD as u32 + 0x3010), Some(0)),
    ("no leaf: the record's frame is the context frame", None, None),
];
const C_RETURNS: &[(&str, u32)] = &[("return slot = callee eip", C_RA1), ("return slot = other call site of the same function", C_RA_F2), ("return slot = outer function", C_RA_MAIN), ("return slot AND the word after it = callee eip", C_RA1)];
const C_LOCALS: &[u32] = &[0, 4, 0xffff_fff8];
const C_VALID: &[Option<&[&str]>] = &[None, Some(&["eip", "esp", "ebp"])];
const C_REGS: [&str; 6] = ["eip", "esp", "ebp", "ebx", "esi", "edi"];

#[derive(Clone)]
struct ChainCase {
    leaf: usize,
    f_kind: WinKind,
    f_sz: Sizes,
    ret: usize,
    vi: usize,
    symbols: String,
    ctx: [(&'static str, u32); 6],
    words: [u32; C_WORDS],
}

fn chain_case(idx: u64, radices: &[u64]) -> ChainCase {
    let d = unrank(idx, radices);
    let (leaf, ret, vi) = (d[0] as usize, d[3] as usize, d[4] as usize);
    let f_kind = match d[1] {
        0 => WinKind::Fpo(false),
        1 => WinKind::Fpo(true),
        _ => WinKind::FrameData(C_PROG.into()),
    };
    let f_sz = Sizes { params: [0, 8][(d[2] % 2) as usize], saved: [0, 8][(d[2] / 2 % 2) as usize], locals: C_LOCALS[(d[2] / 4) as usize] };
    let (_, leaf_eip, leaf_func) = C_LEAVES[leaf];
    // symbol file of module m: f and main carry FUNC records (whose parameter size differs from
    // the STACK WIN one: the latter is documented to win), the leaf at most a FUNC record
    let mut symbols = format!("{HDR}FUNC 1000 100 44 f\nFUNC 2000 100 48 main\n");
    if let Some(p) = leaf_func {
        symbols += &format!("FUNC 3000 100 {p:x} leaf\n");
    }
    // f's record is split: its first 4 bytes (the entry, where no frame of these chains ever is) carry a record
    // of the same kind with OTHER sizes; the record in effect for a frame is the one covering its instruction
    let entry_sz = Sizes { params: f_sz.params ^ 4, saved: f_sz.saved ^ 8, locals: 0x30 };
    symbols += &match &f_kind {
        WinKind::Fpo(alloc) => win_line('0', 0x1000, 4, entry_sz, 0, if *alloc { "1" } else { "0" }) + &win_line('0', 0x1004, 0xfc, f_sz, 0, if *alloc { "1" } else { "0" }),
        WinKind::FrameData(p) => win_line('4', 0x1000, 4, entry_sz, 1, p) + &win_line('4', 0x1004, 0xfc, f_sz, 1, p),
    };
    symbols += &win_line('4', 0x2000, 0x100, C_SZ_MAIN, 1, C_PROG);
    // stack image: every word is recognisable; the return addresses of the intended chain
    // leaf -> f [-> f] -> main -> end are laid out by the plain (no-skip) formulae
    let mut words = [0u32; C_WORDS];
    for (i, w) in words.iter_mut().enumerate() {
        *w = 0x0eb0_0000 + i as u32;
    }
    let mut put = |addr: u64, v: u32| {
        if addr >= STACK as u64 && addr < STACK as u64 + 4 * C_WORDS as u64 && addr % 4 == 0 {
            words[((addr - STACK as u64) / 4) as usize] = v;
        }
    };
    let ctx = match leaf_eip {
        Some(eip) => {
            // the leaf has a traditional %ebp frame
            put(C_EBP_LEAF as u64, C_EBP_OUTER);
            put(C_EBP_LEAF as u64 + 4, C_RA1);
            [("eip", eip), ("esp", STACK + 0x10), ("ebp", C_EBP_LEAF), ("ebx", 0xb0b), ("esi", 0x51), ("edi", 0xd1)]
        }
        None => [("eip", C_RA1), ("esp", C_ESP_F), ("ebp", C_EBP_OUTER), ("ebx", 0xb0b), ("esi", 0x51), ("edi", 0xd1)],
    };
    let r = C_RETURNS[ret].1;
    let slot1 = C_ESP_F as u64 + f_sz.locals as u64 + f_sz.saved as u64 + leaf_func.unwrap_or(0) as u64;
    put(slot1, r);
    let mut esp = slot1 + 4;
    if ret == 3 {
        // a leftover return address followed by a genuine recursive return to the same address: the documented skip
        // steps over ONE word
        put(slot1 + 4, r);
        esp = slot1 + 8;
    }
    if r != C_RA_MAIN {
        // second activation of f; its callee is f, whose STACK WIN parameter size counts
        let slot2 = esp + f_sz.locals as u64 + f_sz.saved as u64 + f_sz.params as u64;
        put(slot2, C_RA_MAIN);
        esp = slot2 + 4;
    }
    put(esp + C_SZ_MAIN.locals as u64 + f_sz.params as u64, 0); // main's return address: end of stack
    ChainCase { leaf, f_kind, f_sz, ret, vi, symbols, ctx, words }
}

/// One frame of the reference walk: the registers known in it.
struct RefFrame {
    regs: BTreeMap<&'static str, u32>,
    /// how the frame was found: context / fpo / framedata / frame-pointer
    how: &'static str,
    gc: bool,
    gcps: u32,
    words: [u32; C_WORDS],
}
impl RefFrame {
    fn eip(&self) -> u32 {
        self.regs["eip"]
    }
    fn esp(&self) -> u32 {
        self.regs["esp"]
    }
    /// the address symbol lookups use: eip for the context frame, inside the CALL otherwise
    fn instruction(&self) -> u64 {
        self.eip() as u64 - (self.how != "context") as u64
    }
}
impl WinEnv for RefFrame {
    fn callee_reg(&self, n: &str) -> Option<u64> {
        self.regs.get(n).map(|v| *v as u64)
    }
    fn mem(&self, a: u64) -> Option<u32> {
        let s = STACK as u64;
        if a >= s && a + 4 <= s + 4 * C_WORDS as u64 {
            let mut b = [0u8; 4];
            for (k, x) in b.iter_mut().enumerate() {
                let off = (a - s) as usize + k;
                *x = self.words[off / 4].to_le_bytes()[off % 4];
            }
            Some(u32::from_le_bytes(b))
        } else {
            None
        }
    }
    fn has_grand_callee(&self) -> bool {
        self.gc
    }
    fn grand_callee_param_size(&self) -> u32 {
        self.gcps
    }
}

/// Reference walk. Documentation used besides vh::refwin: a frame has a grand callee iff it is
/// not the context frame (FrameWalker::has_grand_callee "whether the callee has a callee of its
/// own"); grand_callee_parameter_size is the parameter size the grand callee was symbolicated
/// with — its STACK WIN record's when a FUNC covers it and a STACK WIN record exists, the FUNC's
/// otherwise, 0 when unknown (walker.rs "# STACK WIN", FrameWalker docs); x86.rs: CFI first, then
/// the frame pointer (%ip = *(%bp + 4), %bp = *%bp, %sp = %bp + 8), then scanning (not modelled:
/// the reference stops there); the walk ends at a return address below 4096, a stack pointer
/// that does not grow, or one outside the stack memory (lib.rs walk_stack).
/// Returns the frames and `None` when the walk is complete / `Some(why)` when the continuation
/// is not determined.
fn chain_reference(c: &ChainCase, l: &mut Local) -> (Vec<RefFrame>, Option<&'static str>) {
    let valid: Vec<&str> = C_VALID[c.vi].map(|v| v.to_vec()).unwrap_or(C_REGS.to_vec());
    let regs: BTreeMap<&'static str, u32> = c.ctx.iter().filter(|(n, _)| valid.contains(n)).copied().collect();
    let mut frames = vec![RefFrame { regs, how: "context", gc: false, gcps: 0, words: c.words }];
    let in_m = |a: u64| (MOD..MOD + 0x10000).contains(&a).then(|| a - MOD);
    let record = |a: u64| -> Option<WinRecord> {
        match in_m(a)? {
            0x1000..=0x10ff => Some(WinRecord { address: 0x1000, size: 0x100, sizes: c.f_sz, kind: c.f_kind.clone() }),
            0x2000..=0x20ff => Some(WinRecord { address: 0x2000, size: 0x100, sizes: C_SZ_MAIN, kind: WinKind::FrameData(C_PROG.into()) }),
            _ => None,
        }
    };
    let param_size = |a: u64| -> Option<u32> {
        match in_m(a)? {
            0x1000..=0x10ff => Some(c.f_sz.params),
            0x2000..=0x20ff => Some(C_SZ_MAIN.params),
            0x3000..=0x30ff => C_LEAVES[c.leaf].2,
            _ => None,
        }
    };
    loop {
        let n = frames.len();
        assert!(n < 32, "harness: the reference walk does not end");
        let gc = n >= 2;
        let gcps = if gc { param_size(frames[n - 2].instruction()).unwrap_or(0) } else { 0 };
        let callee = frames.last_mut().unwrap();
        callee.gc = gc;
        callee.gcps = gcps;
        let callee = &*callee;
        let mut next: Option<(BTreeMap<&'static str, u32>, &'static str)> = None;
        if let Some(rec) = record(callee.instruction()) {
            let how = if matches!(rec.kind, WinKind::Fpo(_)) { "fpo" } else { "framedata" };
            if how == "fpo" {
                let slot = callee.esp() as u64 + rec.sizes.locals as u64 + rec.sizes.saved as u64 + gcps as u64;
                if callee.mem(slot) == Some(callee.eip()) {
                    l.count(if gc { "chain_noncontext_fpo_frames_whose_return_slot_holds_their_own_eip" } else { "chain_context_fpo_frames_with_leftover_return_address" }, 1);
                }
            }
            match refwin::eval_record(&rec, callee) {
                WinExpect::Regs { regs, or_none: None } => {
                    next = Some((regs.into_iter().map(|(r, v)| (r, v.expect("harness: the chain menu has no unspecified values"))).collect(), how));
                }
                WinExpect::Regs { .. } | WinExpect::Open(_) => return (frames, Some("record outcome not determined")),
                WinExpect::Fail(_) => {}
            }
        }
        if next.is_none() {
            // frame pointer
            let Some(&bp) = callee.regs.get("ebp") else { return (frames, Some("scan")) };
            if bp >= u32::MAX - 8 {
                return (frames, Some("scan"));
            }
            let (Some(ip), Some(nbp)) = (callee.mem(bp as u64 + 4), callee.mem(bp as u64)) else { return (frames, Some("scan")) };
            next = Some(([("eip", ip), ("esp", bp + 8), ("ebp", nbp)].into_iter().collect(), "frame-pointer"));
        }
        let (regs, how) = next.unwrap();
        let (eip, esp) = (regs["eip"], regs["esp"]);
        if eip < 4096 || esp <= callee.esp() || esp < STACK || (esp - STACK) as usize > 4 * C_WORDS {
            return (frames, None);
        }
        frames.push(RefFrame { regs, how, gc: false, gcps: 0, words: c.words });
    }
}

fn chain_space() -> Space {
    let radices: [u64; 5] = [C_LEAVES.len() as u64, 3, 4 * C_LOCALS.len() as u64, C_RETURNS.len() as u64, C_VALID.len() as u64];
    let n = product(&radices);
    let run = move |idx: u64, l: &mut Local| {
        let c = chain_case(idx, &radices);
        let mut raw = CONTEXT_X86::default();
        for (n, v) in c.ctx {
            raw.set_register(n, v).expect("harness: x86 register name");
        }
        let valid = match C_VALID[c.vi] {
            None => MinidumpContextValidity::All,
            Some(v) => MinidumpContextValidity::Some(v.iter().copied().collect::<HashSet<&'static str>>()),
        };
        let ctx = MinidumpContext { raw: MinidumpRawContext::X86(raw), valid };
        let bytes: Vec<u8> = c.words.iter().flat_map(|w| w.to_le_bytes()).collect();
        let mem = MinidumpMemory { desc: Default::default(), base_address: STACK as u64, size: bytes.len() as u64, bytes: &bytes, endian: scroll::LE };
        let ml = MinidumpModuleList::from_modules(vec![MinidumpModule::new(MOD, 0x10000, "m"), MinidumpModule::new(MOD_N, 0x10000, "n")]);
        let si = SystemInfo { os: Os::Windows, os_version: None, os_build: None, cpu: Cpu::X86, cpu_info: None, cpu_microcode_version: None, cpu_count: 1 };
        let mut syms = HashMap::new();
        syms.insert("m".to_string(), c.symbols.clone());
        let symbolizer = Symbolizer::new(string_symbol_supplier(syms));
        let mut cs = CallStack::with_context(ctx);
        l.eval();
        let r = guard(|| refwin::block_on(walk_stack(0, |i: usize, _: &StackFrame| assert!(i < 64, "harness: frame budget"), &mut cs, Some(UnifiedMemory::Memory(&mem)), &ml, &si, &symbolizer)));
        let (want, open) = chain_reference(&c, l);
        let show = |v: &[(u64, u64, String)]| v.iter().map(|(ip, sp, how)| format!("eip={ip:#x} esp={sp:#x} ({how})")).collect::<Vec<_>>();
        let got: Vec<(u64, u64, String)> = cs.frames.iter().map(|f| (f.context.get_instruction_pointer(), f.context.get_stack_pointer(), format!("{:?}", f.trust))).collect();
        let exp: Vec<(u64, u64, String)> = want.iter().map(|f| (f.eip() as u64, f.esp() as u64, f.how.to_string())).collect();
        let detail = || {
            json!({"symbols_of_module_m": c.symbols, "modules": "m at 0x40000000 (symbols), n at 0x50000000 (no symbols)", "context": c.ctx.iter().map(|(n, v)| format!("{n}={v:#x}")).collect::<Vec<_>>(), "context_validity": format!("{:?}", C_VALID[c.vi]),
                "stack_base": format!("{STACK:#x}"), "stack_words": c.words.iter().map(|w| format!("{w:#x}")).collect::<Vec<_>>(),
                "frames": show(&got), "reference_frames": show(&exp), "reference_continuation": open.unwrap_or("end of stack")})
        };
        if let Err(p) = r {
            if p.msg.contains("harness:") {
                panic!("{}", p.msg);
            }
            report_panic(l, &p, &detail);
            return;
        }
        let hows: Vec<&str> = want.iter().map(|f| f.how).collect();
        l.outcome(&format!("walk_stack chain: {} then {}", hows.join(" > "), open.map(|w| format!("not determined ({w})")).unwrap_or("end of stack".into())));
        l.distinct(&("chain", c.leaf, c.vi, &exp, open));
        let point = "x86.walk_stack.stack_win.chain";
        for (i, (g, w)) in got.iter().zip(&exp).enumerate() {
            if (g.0, g.1) != (w.0, w.1) {
                let callee = if i == 1 { "context-frame" } else { "non-context-frame" };
                l.violation(
                    format!("{point}:caller-eip-esp-differs(step:{},callee:{callee})", w.2),
                    format!("frame {i}: eip={:#x} esp={:#x} ({}), reference eip={:#x} esp={:#x} (by {})", g.0, g.1, g.2, w.0, w.1, w.2),
                    detail(),
                );
                return;
            }
        }
        if got.len() < exp.len() || (open.is_none() && got.len() != exp.len()) {
            l.violation(format!("{point}:frame-count"), format!("{} frames, reference {}{}", got.len(), exp.len(), if open.is_some() { " or more" } else { "" }), detail());
        }
    };
    let desc = move |idx: u64| {
        let c = chain_case(idx, &radices);
        json!({"grand_callee": C_LEAVES[c.leaf].0, "record_of_f": format!("{:?}", c.f_kind), "sizes_of_f": format!("{:?}", c.f_sz), "return_slot": C_RETURNS[c.ret].0, "context_validity": format!("{:?}", C_VALID[c.vi]), "symbols": c.symbols})
    };
    Space::new("x86-walk_stack-chains", n, run, desc)
}

// ---------------------------------------------------------------------------------------------

const SIZE_MENU_Q: &[u32] = &[0, 4, 8, 1 << 31, u32::MAX];
const SIZE_MENU_T: &[u32] = &[0, 4, 8, 0xc, 0x10, 0x7fff_fffc, 1 << 31, u32::MAX - 7, u32::MAX];
const ESPS_Q: &[Option<u32>] = &[Some(0), Some(4), Some(7), Some(8), Some(0x1000), Some(0x1004), Some(0xffff_fff8), Some(0xffff_fffc), None];
const ESPS_T: &[Option<u32>] = &[Some(0), Some(1), Some(4), Some(7), Some(8), Some(0xc), Some(0x1000), Some(0x1004), Some(0x11f8), Some(0x7fff_fffc), Some(0xffff_ffc0), Some(0xffff_fff8), Some(0xffff_fffc), None];

fn main() {
    run_check("C07", |ctx| {
        let maxlen = ctx.tier.pick(4, 5);
        let mut def = CheckDef::new(
            "C07",
            "exploration",
            "bounded-exhaustive differential against the reference interpreter vh::refwin: (programs) every token sequence of length 1..=L over the 30-token WIN alphabet (and, beyond L, every WELL-FORMED program — the stack never underflows and is empty at the end — of exactly L+1 tokens over the full push alphabet and L+2 tokens over a reduced one) as the program string of a frame-data record, evaluated by the real parser + SymbolFile::walk_frame through a mock FrameWalker in 4 callee states (+3 always-failing states for length <= 2), comparing Some/None, the exact set of reported registers and their values; (fpo) the full product size-field menu^3 x allocates_base_pointer x esp menu x ebp valid/invalid x ebx present/missing x 5 grand-callee settings x callee eip equal/unequal to the return-slot word; (size-fields) size-field menu^3 x 4 programs x 120 callee states; (two-records) 2 x 6 record kinds (incl. unknown type and inconsistent has_program) x 9 range arrangements x 2 file orders x 14 lookups; (x86-walk_stack) 81 programs + 2 FPO forms for the first step x 3 records for the second step (with grand callee) x 4 context validity sets through the real walk_stack, comparing the caller frame's validity set and register values; (x86-walk_stack-chains) whole stacks of 2-4 frames through the real walk_stack with two modules (one without symbols): 6 grand-callee settings for the record's frame (leaf in a module without symbols / at an address no record covers / outside all modules / known from a FUNC record only with parameter size 8 or 0 / no leaf: the record's frame is the context frame) x 3 records of the function f (FPO without and with ebp pushed, a frame-data program) x size fields params {0,8} x saved {0,8} x locals {0,4,0xfffffff8} x 4 fillings of the return slot (the callee's own eip = direct recursion or a leftover return address / another call site of f / the outer function / the callee's own eip in the slot and in the word after it) x 2 context validity sets, comparing the number of frames and eip and esp of every frame with a reference walk. distinct_nontrivial = distinct (space, callee state / validity, reference outcome incl. register values); for two-records distinct (file, lookup); for chains distinct (grand-callee setting, validity, reference chain).",
        );
        def.assumptions = vec![
            "the reference is written from the module documentation of walker.rs and the property statement; the '@' rule (.raSearch = $ebp + 4 when the program text contains '@'), the leftover-return-address skip and the '=tok' spelling are only named there and are taken from the prose comments beside the code".into(),
            "carve-out: bare (un-prefixed) variable names and literals outside i32 (documented as variables / i64, rejected by the evaluator) are only checked for totality".into(),
            "carve-out: '/' and '%' with an operand >= 2^31 give an unspecified value (signedness undocumented); registers computed from it are compared for presence only".into(),
            "carve-out: operands left on the stack at the end, overflow while forming .raSearch ($esp + frame_size, $ebp + 4), a frame-size overflow that the '@' rule makes irrelevant, and FPO without ebp pushed when the callee's ebp is unknown: the computed registers or a clean failure are both accepted".into(),
            "FPO with extreme size fields: frame_size = locals + saved + grand-callee parameters beyond u32 must fail cleanly, and so must a return slot $esp + frame_size (the documented plain sum, computed without wrapping) at or past 2^32: no such address exists on the 32-bit machine, and the property demands a clean failure for extreme size fields (reading the word at the wrapped address, below the callee's $esp, is not the documented formula). Carve-out, totality only: the return address in the LAST word of the address space (the caller's $esp would be exactly 2^32: fail or wrap to 0 undocumented) and the leftover-return-address skip stepping past that word (the skip is only named in prose)".into(),
            "x86-walk_stack-chains: the reference walk uses, besides vh::refwin, what x86.rs / lib.rs state in comments: CFI first, then the frame pointer (%ip = *(%bp+4), %bp = *%bp, %sp = %bp+8); the walk ends at a return address below 4096, a stack pointer that does not grow or lies outside the stack memory; a frame has a grand callee iff it is not the context frame, whether or not that grand callee could be symbolicated (FrameWalker::has_grand_callee: 'whether the callee has a callee of its own'; the leftover-return-address skip is for the context frame only); the grand callee's parameter size is its STACK WIN record's when it has one, else its FUNC record's, else 0. Where the continuation would need stack scanning or a record outcome is open, only the determined prefix of the chain is compared. f and main always carry FUNC records (without one the implementation does not attach the STACK WIN parameter size; not covered)".into(),
            "two-records: exact duplicate ranges with different contents, are not determined; a failing frame-data record is NOT replaced by an FPO record covering the same address (walk_frame: framedata preferred, then STACK CFI); inconsistent type/has_program and types other than 0/4 are discarded (parser.rs comments)".into(),
            "x86 walk_stack: each step is judged against the reference evaluated on the OBSERVED callee frame, so one defect is not counted again in later steps; the menu only contains records that assign eip >= 4096 and a larger esp (the unwinder's own end-of-stack tests are C05's)".into(),
            "mock-level clear_caller_register calls are not compared; the documented effect (unassigned registers unknown in the caller) is judged only through the real walker".into(),
        ];
        def.extra.insert("program_length_bound".into(), json!(maxlen));
        def.extra.insert("token_alphabet".into(), json!(TOKENS));
        def.extra.insert("size_field_menu".into(), json!(ctx.tier.pick(SIZE_MENU_Q, SIZE_MENU_T)));
        let (wf_a, wf_b) = ctx.tier.pick((6usize, 7usize), (7, 8));
        def.extra.insert("wellformed_program_lengths".into(), json!({"full_push_alphabet": wf_a, "reduced_push_alphabet": wf_b, "reduced_push_tokens": push_tokens(true)}));
        def.spaces = vec![
            prog_space(maxlen),
            wf_space(wf_a, false),
            wf_space(wf_b, true),
            deep_prog_space(),
            fpo_space(ctx.tier.pick(SIZE_MENU_Q, SIZE_MENU_T), ctx.tier.pick(ESPS_Q, ESPS_T)),
            extreme_space(ctx.tier.pick(SIZE_MENU_Q, SIZE_MENU_T)),
            records_space(),
            walk_space(),
            chain_space(),
        ];
        def.finish = Some(Box::new(|total, extra| {
            let machinery = |m: String| -> ! {
                eprintln!("MACHINERY: {m}");
                std::process::exit(2)
            };
            for op in OPERATORS {
                if total.counters.get(&format!("successful_programs_using[{op}]")).copied().unwrap_or(0) == 0 {
                    machinery(format!("operator {op} was never part of a successful program"));
                }
            }
            if total.counters.get("fpo_leftover_return_address_skips").copied().unwrap_or(0) == 0 {
                machinery("the leftover-return-address rule was never exercised".into());
            }
            for c in ["chain_noncontext_fpo_frames_whose_return_slot_holds_their_own_eip", "chain_context_fpo_frames_with_leftover_return_address"] {
                if total.counters.get(c).copied().unwrap_or(0) == 0 {
                    machinery(format!("chains: {c} = 0, the case the space is meant for never occurs"));
                }
            }
            // frames are labelled by how they were FOUND: leaf (context), f (frame pointer), f (fpo), main (fpo)
            if !total.outcomes.contains_key("walk_stack chain: context > frame-pointer > fpo > fpo then end of stack") {
                machinery("chains: no complete leaf > f > f > main chain in the reference".into());
            }
            let some: u64 = total.outcomes.iter().filter(|(k, _)| k.contains(": Some")).map(|(_, v)| *v).sum();
            let none: u64 = total.outcomes.iter().filter(|(k, _)| k.contains(": None")).map(|(_, v)| *v).sum();
            if some < 1000 || none < 1000 {
                machinery(format!("outcome classes are vacuous: Some {some}, None {none}"));
            }
            extra.insert("reference_Some_cases".into(), json!(some));
            extra.insert("reference_None_cases".into(), json!(none));
            extra.insert("traces_validated_against_impl".into(), json!(total.evals));
        }));
        def
    })
}
