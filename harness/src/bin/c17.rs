//! C17 — symbol lookup paths derived from module names stay inside the symbol directories.
//!
//! Bounded-exhaustive over module *names*: every string of length <= N over the 8-symbol
//! alphabet {a . / \ : C NUL é} as `debug_file` (with `code_file` from a menu), as `code_file`
//! (with `debug_file` from a menu), every pair of strings of length <= 3, each combined with a
//! menu of debug / code identifiers, through every public lookup function of
//! breakpad-symbols; plus real `MinidumpModule`s read back from synthesized dumps whose
//! CodeView PDB name runs over all strings of length <= 3 (an empty PDB name yields
//! `debug_file() == Some("")`), and unloaded modules.
//!
//! Oracle (textual, platform independent): a relative path does not start with a separator,
//! has no `X:` drive prefix, has no `..` component under either separator style, and joined
//! onto a root with `Path::join` and normalised lexically stays under the root.
use breakpad_symbols::{binary_lookup, breakpad_sym_lookup, code_info_breakpad_sym_lookup, extra_debuginfo_lookup, lookup, moz_lookup, FileKind, FileLookup, Module, SimpleModule};
use debugid::{CodeId, DebugId};
use minidump::{Minidump, MinidumpModuleList, MinidumpUnloadedModule};
use std::path::{Component, Path, PathBuf};
use vh::*;

const SIGMA: [&str; 8] = ["a", ".", "/", "\\", ":", "C", "\0", "é"];
const MENU: [&str; 3] = ["", "x.pdb", "../y"];

fn string_of(digits: &[u64]) -> String {
    digits.iter().map(|&d| SIGMA[d as usize]).collect()
}

/// (debug id, code id) menu: nil / pattern with age 0 / pattern with the largest age; code id
/// empty / short hex / 64 hex digits / absent; debug id absent.
fn id_menu() -> Vec<(Option<DebugId>, Option<CodeId>)> {
    let pat = "0123456789ABCDEFFEDCBA9876543210";
    let d = |s: &str| Some(DebugId::from_breakpad(s).expect("debug id literal"));
    vec![
        (Some(DebugId::nil()), Some(CodeId::new(String::new()))),
        (d(&format!("{pat}0")), Some(CodeId::new("5AB38FE2c000".into()))),
        (d(&format!("{pat}ffffffff")), Some(CodeId::new("0123456789abcdef".repeat(4)))),
        (d(&format!("{pat}a")), None),
        (None, Some(CodeId::new("5AB38FE2c000".into()))),
    ]
}

// --------------------------------------------------------------------------------------------
// oracle

/// Lexical normalisation of `root.join(rel)`; `None` when `..` climbs above the filesystem root.
fn normalise(p: &Path) -> Option<PathBuf> {
    let mut out = PathBuf::new();
    for c in p.components() {
        match c {
            Component::RootDir | Component::Prefix(_) => out.push(c.as_os_str()),
            Component::CurDir => {}
            Component::ParentDir => {
                if !out.pop() {
                    return None;
                }
            }
            Component::Normal(x) => out.push(x),
        }
    }
    Some(out)
}

const ROOT: &str = "/verif-root/symbols";

/// Escape classes of one relative path (empty = genuinely relative).
fn classify(rel: &str) -> Vec<&'static str> {
    let mut v = vec![];
    if rel.starts_with('/') || rel.starts_with('\\') {
        v.push("absolute");
    }
    let b = rel.as_bytes();
    if b.len() >= 2 && b[0].is_ascii_alphabetic() && b[1] == b':' {
        v.push("drive-prefix");
    }
    if rel.split(['/', '\\']).any(|c| c == "..") {
        v.push("dotdot");
    }
    if v.is_empty() {
        // nothing textual: the join onto a root must then stay under the root
        let joined = Path::new(ROOT).join(rel);
        let inside = normalise(&joined).is_some_and(|n| n.starts_with(ROOT));
        if !inside {
            v.push("join-leaves-root");
        }
    }
    v
}

struct Obs<'a> {
    func: &'static str,
    field: &'static str,
    rel: &'a str,
}

fn leaf_of(s: &str) -> &str {
    s.rsplit(['/', '\\']).next().unwrap_or(s)
}

fn judge(l: &mut Local, o: &Obs, debug_file: Option<&str>, code_file: &str, ids: usize) {
    l.eval();
    let classes = classify(o.rel);
    if classes.is_empty() {
        l.outcome("relative-and-inside-root");
        return;
    }
    for c in classes {
        l.outcome(&format!("{}:{c}", o.func));
        let sig = format!("c17:{c}");
        if l.violations.iter().any(|v| v.sig == sig) {
            // already witnessed in this worker: only count it
            l.violation(sig, "", Value::Null);
            continue;
        }
        l.violation(
            sig,
            format!(
                "{}: {} = {:?} {} (debug_file {:?}, code_file {:?})",
                o.func,
                o.field,
                o.rel,
                match c {
                    "absolute" => "starts with a path separator: joining it onto a symbol/cache directory or URL discards the root",
                    "dotdot" => "has a `..` component: the joined path climbs out of the root",
                    "drive-prefix" => "keeps a drive prefix `X:`: on Windows the join leaves the root",
                    _ => "joined onto a root and normalised is not under the root",
                },
                debug_file,
                code_file
            ),
            json!({"function": o.func, "field": o.field, "path": o.rel, "debug_file": debug_file, "code_file": code_file, "id_menu_entry": ids}),
        );
    }
}

/// Run every lookup function on `module` and judge every relative path it hands out.
fn exercise(l: &mut Local, module: &(dyn Module + Sync), ids: usize, key_on: bool) {
    let debug_file = module.debug_file().map(|c| c.to_string());
    let code_file = module.code_file().to_string();
    let mut some = 0u32;
    let mut file_lookup = |l: &mut Local, func: &'static str, r: Result<Option<FileLookup>, PanicInfo>| -> Option<FileLookup> {
        match r {
            Ok(Some(fl)) => {
                some += 1;
                judge(l, &Obs { func, field: "cache_rel", rel: &fl.cache_rel }, debug_file.as_deref(), &code_file, ids);
                judge(l, &Obs { func, field: "server_rel", rel: &fl.server_rel }, debug_file.as_deref(), &code_file, ids);
                Some(fl)
            }
            Ok(None) => {
                l.eval();
                None
            }
            Err(p) => {
                l.panic_violation(&p, json!({"function": func, "debug_file": debug_file, "code_file": code_file}));
                None
            }
        }
    };
    file_lookup(l, "breakpad_sym_lookup", guard(|| breakpad_sym_lookup(module)));
    file_lookup(l, "extra_debuginfo_lookup", guard(|| extra_debuginfo_lookup(module)));
    file_lookup(l, "binary_lookup", guard(|| binary_lookup(module)));
    for (kind, name, moz) in [
        (FileKind::BreakpadSym, "lookup(BreakpadSym)", "moz_lookup(lookup(BreakpadSym))"),
        (FileKind::Binary, "lookup(Binary)", "moz_lookup(lookup(Binary))"),
        (FileKind::ExtraDebugInfo, "lookup(ExtraDebugInfo)", "moz_lookup(lookup(ExtraDebugInfo))"),
    ] {
        if let Some(fl) = file_lookup(l, name, guard(|| lookup(module, kind))) {
            file_lookup(l, moz, guard(|| Some(moz_lookup(fl))));
        }
    }
    match guard(|| code_info_breakpad_sym_lookup(module)) {
        Ok(Some(rel)) => {
            some += 1;
            judge(l, &Obs { func: "code_info_breakpad_sym_lookup", field: "path", rel: &rel }, debug_file.as_deref(), &code_file, ids);
        }
        Ok(None) => l.eval(),
        Err(p) => l.panic_violation(&p, json!({"function": "code_info_breakpad_sym_lookup", "debug_file": debug_file, "code_file": code_file})),
    }
    if some == 0 {
        l.outcome("module-without-any-lookup");
    } else if key_on {
        l.distinct(&(debug_file.as_deref().map(leaf_of), leaf_of(&code_file), ids));
    }
}

fn simple_module(debug_file: Option<String>, code_file: String, ids: &(Option<DebugId>, Option<CodeId>)) -> SimpleModule {
    SimpleModule { debug_file, debug_id: ids.0, code_file: Some(code_file), code_identifier: ids.1.clone(), ..Default::default() }
}

/// strings over SIGMA as one field, the other field from MENU
fn space_one_field(name: &'static str, vary_debug: bool, max_len: u32) -> Space {
    let ids = id_menu();
    let n_str = seq_count(8, max_len);
    let radices = [n_str, MENU.len() as u64, ids.len() as u64];
    let len = product(&radices);
    let decode = move |idx: u64| {
        let d = unrank(idx, &radices);
        (string_of(&seq_unrank(d[0], 8, max_len)), MENU[d[1] as usize].to_string(), d[2] as usize)
    };
    let run = move |idx: u64, l: &mut Local| {
        let (s, other, i) = decode(idx);
        let m = if vary_debug { simple_module(Some(s), other, &ids[i]) } else { simple_module(Some(other), s, &ids[i]) };
        exercise(l, &m, i, true);
    };
    let desc = move |idx: u64| {
        let (s, other, i) = decode(idx);
        if vary_debug {
            json!({"class": name, "debug_file": s, "code_file": other, "id_menu_entry": i})
        } else {
            json!({"class": name, "debug_file": other, "code_file": s, "id_menu_entry": i})
        }
    };
    Space::new(name, len, run, desc)
}

/// Real-world decorations a name can carry after its last component: the Linux " (deleted)" mapping suffix,
/// padding blanks / NULs, extensions the lookups rewrite. A lookup that normalises a name AFTER validating it
/// shows here.
const SUFFIXES: [&str; 8] = [" (deleted)", " ", "\0", " \0 ", ".pdb", ".sym", ".dll", " (deleted) "];
fn space_suffixed(max_len: u32) -> Space {
    let ids = id_menu();
    let n_str = seq_count(8, max_len);
    let radices = [n_str, SUFFIXES.len() as u64, 3, ids.len() as u64];
    let len = product(&radices);
    let decode = move |idx: u64| {
        let d = unrank(idx, &radices);
        let s = format!("{}{}", string_of(&seq_unrank(d[0], 8, max_len)), SUFFIXES[d[1] as usize]);
        (s, d[2], d[3] as usize)
    };
    let run = move |idx: u64, l: &mut Local| {
        let (s, which, i) = decode(idx);
        let m = match which {
            0 => simple_module(Some(s), "x.dll".into(), &ids[i]),
            1 => simple_module(Some("x.pdb".into()), s, &ids[i]),
            _ => simple_module(Some(s.clone()), s, &ids[i]),
        };
        exercise(l, &m, i, true);
    };
    Space::new("suffixed", len, run, move |idx| {
        let (s, which, i) = decode(idx);
        json!({"class": "suffixed", "name": s, "field": (["debug_file", "code_file", "both"][which as usize]), "id_menu_entry": i})
    })
}

fn space_pairs(max_len: u32) -> Space {
    let ids = id_menu();
    let n_str = seq_count(8, max_len);
    // debug_file: None | any string
    let radices = [n_str + 1, n_str, ids.len() as u64];
    let len = product(&radices);
    let decode = move |idx: u64| {
        let d = unrank(idx, &radices);
        let dbg = if d[0] == 0 { None } else { Some(string_of(&seq_unrank(d[0] - 1, 8, max_len))) };
        (dbg, string_of(&seq_unrank(d[1], 8, max_len)), d[2] as usize)
    };
    let run = move |idx: u64, l: &mut Local| {
        let (dbg, code, i) = decode(idx);
        let m = simple_module(dbg, code, &ids[i]);
        exercise(l, &m, i, true);
    };
    Space::new("pairs", len, run, move |idx| {
        let (dbg, code, i) = decode(idx);
        json!({"class": "pairs", "debug_file": dbg, "code_file": code, "id_menu_entry": i})
    })
}

/// Real `MinidumpModule`s: a dump with one module carrying a PDB70 CodeView record whose PDB
/// name is the case string, module name from a menu; read back with `Minidump::read`.
/// And `MinidumpUnloadedModule`s named by the case string.
fn space_minidump_modules(max_len: u32) -> Space {
    use minidump_synth::{DumpString, Module as SynthModule, SynthMinidump};
    use test_assembler::{Endian, Section};
    const NAMES: [&str; 4] = ["", "x.dll", "C:\\d\\..", "/"];
    let n_str = seq_count(8, max_len);
    let radices = [n_str, NAMES.len() as u64];
    let len = product(&radices);
    let decode = move |idx: u64| {
        let d = unrank(idx, &radices);
        (string_of(&seq_unrank(d[0], 8, max_len)), NAMES[d[1] as usize])
    };
    let run = move |idx: u64, l: &mut Local| {
        let (pdb, name) = decode(idx);
        let ds = DumpString::new(name, Endian::Little);
        let cv = Section::with_endian(Endian::Little)
            .D32(0x5344_5352) // "RSDS"
            .D32(0x0123_4567)
            .D16(0x89ab)
            .D16(0xcdef)
            .append_bytes(&[1, 2, 3, 4, 5, 6, 7, 8])
            .D32(1)
            .append_bytes(pdb.as_bytes())
            .D8(0);
        let module = SynthModule::new(Endian::Little, 0x1000, 0x1000, &ds, 0x5ab3_8fe2, 0, None).cv_record(&cv);
        let bytes = SynthMinidump::with_endian(Endian::Little).add_module(module).add(ds).add(cv).finish().expect("synth dump");
        let dump = Minidump::read(&bytes[..]).expect("harness: synthesized dump must read");
        let ml = dump.get_stream::<MinidumpModuleList>().expect("harness: module list");
        let m = ml.iter().next().expect("harness: one module");
        // what the dump parser makes of the names is C02's business; here it only must be a module
        // with a debug id, so that the lookups are reachable
        assert!(m.debug_identifier().is_some(), "harness: PDB70 module without debug id");
        if m.debug_file().as_deref() == Some("") {
            l.outcome("minidump-module:debug_file()==Some(\"\")");
        }
        exercise(l, m, 100, false);
        if m.debug_file().is_some() {
            l.distinct(&("minidump-module", m.debug_file().map(|c| leaf_of(&c).to_string()), leaf_of(&m.code_file()).to_string()));
        }
        if idx % NAMES.len() as u64 == 0 {
            let u = MinidumpUnloadedModule::new(0x1000, 0x1000, &pdb);
            exercise(l, &u, 101, false);
            l.distinct(&("unloaded-module", leaf_of(&pdb).to_string()));
        }
    };
    Space::new("minidump-modules", len, run, move |idx| {
        let (pdb, name) = decode(idx);
        json!({"class": "minidump-modules", "pdb_file_name": pdb, "module_name": name})
    })
}

// --------------------------------------------------------------------------------------------
// the URL half of the statement, observed at the wire: the real HttpSymbolSupplier is pointed at a server URL
// with a root directory while the whole process sends its HTTP(S) traffic through a loopback proxy (the
// *_proxy environment variables, set before the first client is built); every request the lookups of one
// module cause is logged by the proxy, whatever host or scheme it is addressed to

const TOKENS: [&str; 15] = ["a", ".", "..", "%2e", "%2E", ":", "https:", "http:", "/", "\\", "?", "#", "%", "@", "\0"];
const WIRE_ROOT: &str = "/root/symbols/";

static PROXY_CELL: std::sync::OnceLock<Proxy> = std::sync::OnceLock::new();
struct Proxy {
    port: u16,
    log: std::sync::Arc<std::sync::Mutex<Vec<String>>>,
}
fn start_proxy() -> Proxy {
    use std::io::{Read, Write};
    let l = std::net::TcpListener::bind("127.0.0.1:0").expect("bind loopback");
    let port = l.local_addr().unwrap().port();
    let log: std::sync::Arc<std::sync::Mutex<Vec<String>>> = Default::default();
    let log2 = log.clone();
    std::thread::spawn(move || {
        for c in l.incoming() {
            let Ok(mut c) = c else { continue };
            let log3 = log2.clone();
            std::thread::spawn(move || {
                let _ = c.set_read_timeout(Some(std::time::Duration::from_secs(30)));
                let mut pending: Vec<u8> = vec![];
                let mut buf = [0u8; 4096];
                loop {
                    while let Some(end) = pending.windows(4).position(|w| w == b"\r\n\r\n") {
                        let head = String::from_utf8_lossy(&pending[..end]).to_string();
                        pending.drain(..end + 4);
                        let line = head.lines().next().unwrap_or("").to_string();
                        // symbol files are served (a minimal valid one), so that the cache gets written; the rest is 404
                        let is_sym = line.split(' ').nth(1).is_some_and(|t| t.split(['?', '#']).next().unwrap_or("").ends_with(".sym"));
                        log3.lock().unwrap().push(line);
                        const BODY: &str = "MODULE Linux x86 000000000000000000000000000000000 x\n";
                        let resp = if is_sym { format!("HTTP/1.1 200 OK\r\nContent-Length: {}\r\n\r\n{BODY}", BODY.len()) } else { "HTTP/1.1 404 Not Found\r\nContent-Length: 0\r\n\r\n".to_string() };
                        if c.write_all(resp.as_bytes()).is_err() {
                            return;
                        }
                    }
                    match c.read(&mut buf) {
                        Ok(0) | Err(_) => return,
                        Ok(n) => pending.extend_from_slice(&buf[..n]),
                    }
                }
            });
        }
    });
    Proxy { port, log }
}

fn percent_decode_once(s: &str) -> String {
    let b = s.as_bytes();
    let mut out = vec![];
    let mut i = 0;
    while i < b.len() {
        if b[i] == b'%' && i + 2 < b.len() + 0 && i + 2 <= b.len() - 1 + 0 {
            if let Ok(v) = u8::from_str_radix(&s[i + 1..i + 3], 16) {
                out.push(v);
                i += 3;
                continue;
            }
        }
        out.push(b[i]);
        i += 1;
    }
    String::from_utf8_lossy(&out).to_string()
}

/// Why a logged request line leaves `http://127.0.0.1:<port>/root/symbols/` (None = it stays inside).
fn wire_escape(line: &str, port: u16) -> Option<&'static str> {
    let mut it = line.split(' ');
    let (method, target) = (it.next().unwrap_or(""), it.next().unwrap_or(""));
    if method != "GET" {
        return Some("not-a-GET-to-the-server"); // e.g. CONNECT other-host:443
    }
    let prefix = format!("http://127.0.0.1:{port}");
    let Some(path_q) = target.strip_prefix(&prefix) else { return Some("other-host-or-scheme") };
    let path = path_q.split(['?', '#']).next().unwrap_or("");
    let Some(rest) = path.strip_prefix(WIRE_ROOT) else { return Some("path-outside-the-root") };
    for seg in rest.split('/') {
        let d = percent_decode_once(seg);
        if d == ".." || d == "." && false {
            return Some("dot-dot-segment-for-the-server");
        }
    }
    None
}

fn space_wire(max_len: u32) -> Space {
    thread_local! {
        static RT: tokio::runtime::Runtime = tokio::runtime::Builder::new_current_thread().enable_all().build().expect("runtime");
        static SUP: std::cell::RefCell<Option<(breakpad_symbols::HttpSymbolSupplier, PathBuf)>> = const { std::cell::RefCell::new(None) };
    }
    let k = TOKENS.len() as u64;
    let n_str = seq_count(k, max_len);
    let radices = [n_str, 3];
    let len = product(&radices);
    let decode = move |idx: u64| {
        let d = unrank(idx, &radices);
        let s: String = seq_unrank(d[0], k, max_len).iter().map(|&t| TOKENS[t as usize]).collect();
        (s, d[1])
    };
    let run = move |idx: u64, l: &mut Local| {
        let proxy = PROXY_CELL.get().expect("proxy started in main");
        let (name, which) = decode(idx);
        let id: DebugId = "abcd1234-abcd-1234-abcd-abcd12345678-a".parse().expect("id");
        let ids = (Some(id), Some(CodeId::new("5AB38FE2c000".into())));
        let m = match which {
            0 => simple_module(Some(name.clone()), "x.dll".into(), &ids),
            1 => simple_module(Some("x.pdb".into()), name.clone(), &ids),
            _ => simple_module(Some(name.clone()), name.clone(), &ids),
        };
        let expect_request = breakpad_sym_lookup(&m).is_some();
        let before = proxy.log.lock().unwrap().len();
        SUP.with(|cell| {
            let mut c = cell.borrow_mut();
            if c.is_none() {
                // cache and tmp directories three levels down, so that a path climbing out of them still lands in `dir`
                let dir = std::env::temp_dir().join(format!("verif-c17-{}-{:?}", std::process::id(), std::thread::current().id()).replace(['(', ')'], ""));
                let _ = std::fs::remove_dir_all(&dir);
                std::fs::create_dir_all(dir.join("a/b/cache")).expect("cache dir");
                std::fs::create_dir_all(dir.join("a/b/tmp")).expect("tmp dir");
                let sup = breakpad_symbols::HttpSymbolSupplier::new(vec![format!("http://127.0.0.1:{}{}", proxy.port, WIRE_ROOT)], dir.join("a/b/cache"), dir.join("a/b/tmp"), vec![], std::time::Duration::from_secs(20));
                *c = Some((sup, dir));
            }
            let (sup, dir) = c.as_ref().unwrap();
            let dir = dir.clone();
            RT.with(|rt| {
                rt.block_on(async {
                    use breakpad_symbols::SymbolSupplier;
                    let _ = sup.locate_symbols(&m).await;
                    let _ = sup.locate_file(&m, FileKind::Binary).await;
                    let _ = sup.locate_file(&m, FileKind::ExtraDebugInfo).await;
                })
            });
            // the file system: whatever the lookups created lies inside the cache / tmp directories
            let mut outside: Vec<String> = vec![];
            for (d, allowed) in [(dir.clone(), vec!["a"]), (dir.join("a"), vec!["b"]), (dir.join("a/b"), vec!["cache", "tmp"])] {
                for e in std::fs::read_dir(&d).into_iter().flatten().flatten() {
                    let n = e.file_name().to_string_lossy().to_string();
                    if !allowed.contains(&n.as_str()) {
                        outside.push(e.path().display().to_string());
                        let _ = if e.path().is_dir() { std::fs::remove_dir_all(e.path()) } else { std::fs::remove_file(e.path()) };
                    }
                }
            }
            let stray_root = std::path::Path::new("/ABCD1234ABCD1234ABCDABCD12345678a");
            if stray_root.exists() {
                outside.push(stray_root.display().to_string());
                let _ = std::fs::remove_dir_all(stray_root);
            }
            if !outside.is_empty() {
                l.outcome("file-outside-the-cache-directory");
                l.violation("c17:cache:file-outside-the-cache-directory", format!("a module named {name:?} makes the HTTP supplier create {outside:?}, outside its cache and tmp directories"), json!({"name": name, "field": (["debug_file", "code_file", "both"][which as usize]), "created": outside}));
            }
        });
        let lines: Vec<String> = proxy.log.lock().unwrap()[before..].to_vec();
        l.eval();
        if expect_request && lines.is_empty() {
            l.outcome("lookup-without-any-request");
        }
        for line in &lines {
            match wire_escape(line, proxy.port) {
                None => l.outcome("request-inside-the-root"),
                Some(why) => {
                    l.outcome(&format!("request:{why}"));
                    l.violation(format!("c17:request:{why}"), format!("a module named {name:?} makes the HTTP supplier send {line:?}, outside http://127.0.0.1:<port>{WIRE_ROOT}"), json!({"name": name, "field": (["debug_file", "code_file", "both"][which as usize]), "request_line": line}));
                }
            }
        }
        l.distinct(&("wire", name, which, lines.len()));
    };
    // one worker at a time: the proxy's log is attributed to the case by position
    Space::new("requests-on-the-wire", len, run, move |idx| {
        let (s, which) = decode(idx);
        json!({"class": "requests-on-the-wire", "name": s, "field": (["debug_file", "code_file", "both"][which as usize])})
    })
    .chunked(len)
}

// --------------------------------------------------------------------------------------------
// the directory half, observed on the file system: a symbol directory three levels deep in a scratch tree in
// which decoy files are planted at every level OUTSIDE it; whatever the real SimpleSymbolSupplier returns for a
// module must lie inside the symbol directory

const PLANT_TOKENS: [&str; 9] = ["x", ".", "..", "/", "\\", "C:", "\0", "%2e", "%2f"];
const PLANT_ID: &str = "ABCD1234ABCD1234ABCDABCD12345678a";

fn plant_tree() -> &'static (PathBuf, PathBuf) {
    static TREE: std::sync::OnceLock<(PathBuf, PathBuf)> = std::sync::OnceLock::new();
    TREE.get_or_init(|| {
        let top = std::env::temp_dir().join(format!("verif-c17-{}-planted", std::process::id()));
        let _ = std::fs::remove_dir_all(&top);
        let root = top.join("a/b/symbols");
        std::fs::create_dir_all(&root).expect("symbol dir");
        const SYM: &str = "MODULE Linux x86 ABCD1234ABCD1234ABCDABCD12345678a x\n";
        for level in [top.clone(), top.join("a"), top.join("a/b")] {
            for f in ["x", "x.sym", "x.pdb", "x.dll", "x.dbg", "x.so", "x.exe", ".sym"] {
                std::fs::write(level.join(f), SYM).expect("decoy");
            }
            for d in [format!("x/{PLANT_ID}"), format!("{PLANT_ID}"), "x.pdb/".to_string() + PLANT_ID, "5AB38FE2c000".to_string(), "x/5AB38FE2c000".to_string(), format!("..x/{PLANT_ID}"), format!("..x.pdb/{PLANT_ID}"), "..x/5AB38FE2c000".to_string()] {
                // not inside the symbol directory itself
                if level.join(&d).starts_with(&root) {
                    continue;
                }
                let _ = std::fs::create_dir_all(level.join(&d));
                for f in ["x.sym", ".sym", "x", "x.dll", "x.pdb", "x.dbg", "..x.sym", "..x", "..x.pdb", "..x.dll", "...sym", "...pdb", "...dll", "...dbg"] {
                    let _ = std::fs::write(level.join(&d).join(f), SYM);
                }
            }
        }
        // index files some symbol-store layouts keep at their root
        for f in ["index2.txt", "pingme.txt", "000Admin"] {
            let _ = std::fs::write(root.join(f), b"");
        }
        // and what a genuine symbol directory holds for modules named x / x.pdb / x.dll
        for d in [format!("x/{PLANT_ID}"), format!("x.pdb/{PLANT_ID}"), "x.dll/5AB38FE2c000".to_string(), "x/5AB38FE2c000".to_string()] {
            std::fs::create_dir_all(root.join(&d)).expect("inside dir");
            for f in ["x.sym", "x", "x.dll", "x.pdb", "x.dbg", "x.dl_", "x.pd_"] {
                std::fs::write(root.join(&d).join(f), SYM).expect("inside file");
            }
        }
        (top, root)
    })
}

fn space_planted(max_len: u32) -> Space {
    thread_local! {
        static RT2: tokio::runtime::Runtime = tokio::runtime::Builder::new_current_thread().build().expect("runtime");
    }
    let k = PLANT_TOKENS.len() as u64;
    let n_str = seq_count(k, max_len);
    // + the absolute paths of three planted decoys as names
    let radices = [n_str + 3, 3];
    let len = product(&radices);
    let decode = move |idx: u64| {
        let d = unrank(idx, &radices);
        let s: String = if d[0] < n_str {
            seq_unrank(d[0], k, max_len).iter().map(|&t| PLANT_TOKENS[t as usize]).collect()
        } else {
            let (top, _) = plant_tree();
            [top.join("x"), top.join("a/x.pdb"), top.join("a/b/x.dll")][(d[0] - n_str) as usize].display().to_string()
        };
        (s, d[1])
    };
    let run = move |idx: u64, l: &mut Local| {
        use breakpad_symbols::SymbolSupplier;
        let (top, root) = plant_tree();
        let (name, which) = decode(idx);
        let id: DebugId = "abcd1234-abcd-1234-abcd-abcd12345678-a".parse().expect("id");
        let ids = (Some(id), Some(CodeId::new("5AB38FE2c000".into())));
        let m = match which {
            0 => simple_module(Some(name.clone()), "x.dll".into(), &ids),
            1 => simple_module(Some("x.pdb".into()), name.clone(), &ids),
            _ => simple_module(Some(name.clone()), name.clone(), &ids),
        };
        let sup = breakpad_symbols::SimpleSymbolSupplier::new(vec![root.clone()]);
        let found: Vec<(&'static str, PathBuf)> = RT2.with(|rt| {
            rt.block_on(async {
                let mut v = vec![];
                for (label, kind) in [("locate_file(BreakpadSym)", FileKind::BreakpadSym), ("locate_file(Binary)", FileKind::Binary), ("locate_file(ExtraDebugInfo)", FileKind::ExtraDebugInfo)] {
                    if let Ok(p) = sup.locate_file(&m, kind).await {
                        v.push((label, p));
                    }
                }
                v
            })
        });
        l.eval();
        if found.is_empty() {
            l.outcome("nothing-found");
        }
        for (label, p) in found {
            let real = std::fs::canonicalize(&p).unwrap_or_else(|_| p.clone());
            let root_real = std::fs::canonicalize(root).unwrap_or_else(|_| root.clone());
            if real.starts_with(&root_real) {
                l.outcome("found-inside-the-symbol-directory");
            } else {
                l.outcome("found-outside-the-symbol-directory");
                let shown = p.display().to_string().replace(&top.display().to_string(), "<scratch>");
                l.violation("c17:supplier:file-outside-the-symbol-directory", format!("{label} for a module named {name:?} returns {shown:?}, which is outside the only symbol directory <scratch>/a/b/symbols"), json!({"name": name, "field": (["debug_file", "code_file", "both"][which as usize]), "returned": shown}));
            }
        }
        l.distinct(&("planted", name, which));
    };
    Space::new("planted-decoys", len, run, move |idx| {
        let (s, which) = decode(idx);
        json!({"class": "planted-decoys", "name": s, "field": (["debug_file", "code_file", "both"][which as usize])})
    })
}

/// Characters whose case mapping yields ASCII (U+212A KELVIN SIGN -> k, U+017F LONG S -> s, U+0130 -> i + mark):
/// every string of length <= 4 over {K-sign, long-s, dotted-I, ":", "a", "/", "\\", "."} as debug_file / code_file /
/// both, through every lookup function: whatever normalisation a lookup applies, the result is judged as always.
fn space_unicode_case() -> Space {
    const U: [&str; 8] = ["\u{212a}", "\u{17f}", "\u{130}", ":", "a", "/", "\\", "."];
    let ids = id_menu();
    let n_str = seq_count(8, 4);
    let radices = [n_str, 3, ids.len() as u64];
    let len = product(&radices);
    let decode = move |idx: u64| {
        let d = unrank(idx, &radices);
        let s: String = seq_unrank(d[0], 8, 4).iter().map(|&t| U[t as usize]).collect();
        (s, d[1], d[2] as usize)
    };
    let run = move |idx: u64, l: &mut Local| {
        let (s, which, i) = decode(idx);
        let m = match which {
            0 => simple_module(Some(s), "x.dll".into(), &ids[i]),
            1 => simple_module(None, s, &ids[i]),
            _ => simple_module(Some(s.clone()), s, &ids[i]),
        };
        exercise(l, &m, i, true);
    };
    Space::new("unicode-case-mapping", len, run, move |idx| {
        let (s, which, i) = decode(idx);
        json!({"class": "unicode-case-mapping", "name": s, "field": (["debug_file", "code_file only", "both"][which as usize]), "id_menu_entry": i})
    })
}

fn main() {
    // before any HTTP client exists: the whole process talks HTTP(S) through the loopback proxy
    let proxy = start_proxy();
    for v in ["http_proxy", "https_proxy", "all_proxy", "HTTP_PROXY", "HTTPS_PROXY", "ALL_PROXY"] {
        std::env::set_var(v, format!("http://127.0.0.1:{}", proxy.port));
    }
    std::env::remove_var("NO_PROXY");
    std::env::remove_var("no_proxy");
    let _ = PROXY_CELL.set(proxy);
    run_check("C17", |ctx| {
        let n = ctx.tier.pick(5, 6);
        let mut def = CheckDef::new(
            "C17",
            "exploration",
            "bounded-exhaustive: every string of length <= N over {a . / \\ : C NUL é} as debug_file (code_file in {\"\", x.pdb, ../y}) and as code_file (debug_file in the same menu), every pair (debug_file absent or any string, code_file any string) of strings of length <= 3, each x 5 (debug id, code id) combinations, through breakpad_sym_lookup, extra_debuginfo_lookup, binary_lookup, lookup(module, kind) for the 3 FileKinds, moz_lookup of each of those, code_info_breakpad_sym_lookup; plus MinidumpModules read from synthesized dumps with every PDB name of length <= 3 x 4 module names, and MinidumpUnloadedModules. Every cache_rel / server_rel / path returned is judged textually (leading separator, X: prefix, `..` component under either separator) and, if textually clean, by Path::join onto a root + lexical normalisation. The server-URL half is observed on the wire: the real HttpSymbolSupplier (server URL with a root directory) looks up symbols, binary and debug file of a module named by every sequence of <= 3 [thorough 4] tokens over {a . .. %2e %2E : https: http: / \\ ? # % @} (as debug_file, as code_file, as both) while the process sends all HTTP(S) traffic through a logging loopback proxy: every request must be a GET to the configured host whose path lies under the root and has no segment that percent-decodes to `..`; symbol files are served, and whatever the supplier then creates on disk must lie inside its cache / tmp directories (placed three levels deep in a scratch directory that is listed after every case). Symbol directories: the real SimpleSymbolSupplier searches one symbol directory placed three levels deep in a scratch tree whose outer levels are full of decoy files (x, x.sym, x.pdb, x.dll, ..., <id>/x.sym, ...) for modules named by every sequence of <= 4 [thorough 5] tokens over {x . .. / \\ C: NUL} and by the absolute paths of decoys; every path it returns must lie inside the symbol directory. evaluations = lookup calls judged (2 per FileLookup); distinct_nontrivial = distinct (leaf of debug_file, leaf of code_file, id combination) among modules for which at least one lookup exists.",
        );
        def.assumptions = vec![
            "the oracle is textual and platform independent; `.` components, empty components (`a//b`), NUL bytes and non-ASCII inside a name are not escapes and are accepted".into(),
            "a drive prefix is exactly `^[A-Za-z]:` (names such as `memfd:pulseaudio (deleted)` are legitimate module names); what a longer `name:` prefix does to the request URL is judged on the wire".into(),
            "identifiers are whatever debugid yields (hex digits only); their content cannot carry separators".into(),
        ];
        def.extra.insert("max_name_length".into(), json!(n));
        def.extra.insert("alphabet".into(), json!(["a", ".", "/", "\\", ":", "C", "NUL", "é"]));
        def.extra.insert("wire_tokens".into(), json!(TOKENS));
        def.finish = Some(Box::new(|_, _| {
            // scratch directories of the wire space
            let prefix = format!("verif-c17-{}-", std::process::id());
            for e in std::fs::read_dir(std::env::temp_dir()).into_iter().flatten().flatten() {
                if e.file_name().to_string_lossy().starts_with(&prefix) {
                    let _ = std::fs::remove_dir_all(e.path());
                }
            }
        }));
        def.spaces = vec![space_one_field("debug_file", true, n), space_one_field("code_file", false, n), space_pairs(3), space_suffixed(n - 1), space_minidump_modules(3), space_wire(ctx.tier.pick(3, 4)), space_planted(ctx.tier.pick(4, 5)), space_unicode_case()];
        def
    })
}
