//! C04 — stack walking recovers the true call chain of well-formed stacks.
//! Bounded-exhaustive: every stack *program* (CPU x OS variant, per-frame technique and size,
//! style) up to the depth bound is laid out by `vh::stackgen::build` together with its ground
//! truth, walked by the real `walk_stack`, and compared frame by frame.
use minidump::MinidumpContextValidity;
use minidump_unwind::*;
use vh::stackgen::*;
use vh::*;

/// (variant, depth) blocks of the mixed-technique product space.
struct Block {
    variant: usize,
    depth: usize,
    start: u64,
    per_frame: u64, // techniques x sizes
    nsizes: u64,
}

fn mix_blocks(max_depth: usize, nsizes: u64) -> (Vec<Block>, u64) {
    let mut v = vec![];
    let mut start = 0u64;
    for (vi, var) in VARIANTS.iter().enumerate().filter(|(_, var)| var.mix) {
        let per_frame = var.techs.len() as u64 * nsizes;
        for d in 1..=max_depth {
            let n = per_frame.pow(d as u32) * STYLES;
            v.push(Block { variant: vi, depth: d, start, per_frame, nsizes });
            start += n;
        }
    }
    (v, start)
}

fn mix_program(blocks: &[Block], idx: u64) -> Program {
    let b = blocks.iter().rev().find(|b| b.start <= idx).expect("harness: block");
    let mut r = idx - b.start;
    let style = r % STYLES;
    r /= STYLES;
    let var = &VARIANTS[b.variant];
    let mut frames = vec![];
    for i in 0..b.depth {
        let digit = r % b.per_frame;
        r /= b.per_frame;
        let t = var.techs[(digit / b.nsizes) as usize];
        let s = if t == Tech::Leaf { 0 } else { size_choice(var.arch, i, digit % b.nsizes) };
        frames.push((t, s));
    }
    Program { variant: b.variant, frames, style, placement: 0 }
}

fn uniform_cases(depths: &[usize], nsizes: u64) -> Vec<Program> {
    let mut v = vec![];
    for (vi, var) in VARIANTS.iter().enumerate() {
        for &t in var.techs {
            if t == Tech::Leaf {
                continue;
            }
            for &d in depths {
                for sc in 0..nsizes {
                    for style in 0..STYLES {
                        let frames = (0..d).map(|i| (t, size_choice(var.arch, i, sc))).collect();
                        v.push(Program { variant: vi, frames, style, placement: 0 });
                    }
                }
            }
        }
    }
    v
}

/// Space 'placement': the placement menu (module / stack addresses, module-list order) over every
/// variant: the full technique x size product up to `max_depth` and one-technique chains at the
/// listed depths, x styles. Placement 0 of the variants of the mix space is the mix space itself.
fn placement_cases(max_depth: usize, nsizes: u64, depths: &[usize]) -> Vec<Program> {
    let mut v = vec![];
    for (vi, var) in VARIANTS.iter().enumerate() {
        let per_frame = var.techs.len() as u64 * nsizes;
        for placement in (if var.mix { 1 } else { 0 })..PLACEMENTS {
            for d in 1..=max_depth {
                for code in 0..per_frame.pow(d as u32) {
                    let mut r = code;
                    let mut frames = vec![];
                    for i in 0..d {
                        let digit = r % per_frame;
                        r /= per_frame;
                        let t = var.techs[(digit / nsizes) as usize];
                        frames.push((t, if t == Tech::Leaf { 0 } else { size_choice(var.arch, i, digit % nsizes) }));
                    }
                    for style in 0..STYLES {
                        v.push(Program { variant: vi, frames: frames.clone(), style, placement });
                    }
                }
            }
            for &t in var.techs.iter().filter(|t| **t != Tech::Leaf) {
                for &d in depths {
                    for sc in 0..nsizes {
                        for style in 0..STYLES {
                            let frames = (0..d).map(|i| (t, size_choice(var.arch, i, sc))).collect();
                            v.push(Program { variant: vi, frames, style, placement });
                        }
                    }
                }
            }
        }
    }
    v
}

fn trust_name(t: FrameTrust) -> &'static str {
    match t {
        FrameTrust::Context => "context",
        FrameTrust::CallFrameInfo => "cfi",
        FrameTrust::FramePointer => "frame-pointer",
        FrameTrust::Scan => "scan",
        FrameTrust::CfiScan => "cfi-scan",
        FrameTrust::PreWalked => "prewalked",
        FrameTrust::None => "none",
    }
}

fn frames_json(cs: &CallStack) -> Value {
    json!(cs
        .frames
        .iter()
        .map(|f| json!({"resume": format!("{:#x}", f.resume_address), "instruction": format!("{:#x}", f.instruction), "sp": format!("{:#x}", f.context.get_stack_pointer()),
            "trust": trust_name(f.trust), "function": f.function_name, "module": f.module.as_ref().map(|m| m.name.clone())}))
        .collect::<Vec<_>>())
}

/// First difference between the walked chain and the ground truth: (field, frame index, text).
fn first_difference(b: &Built, cs: &CallStack) -> Option<(String, usize, String)> {
    for (j, e) in b.expected.iter().enumerate() {
        let Some(f) = cs.frames.get(j) else {
            return Some(("frame-missing".into(), j, format!("the walk stops after {} frame(s), the generated chain has {}", cs.frames.len(), b.expected.len())));
        };
        if f.trust != e.trust {
            return Some(("trust".into(), j, format!("frame {j}: found by {}, generated as {}", trust_name(f.trust), trust_name(e.trust))));
        }
        if f.resume_address != e.resume {
            return Some(("return-address".into(), j, format!("frame {j}: resume_address {:#x}, generated return address {:#x}", f.resume_address, e.resume)));
        }
        if f.context.get_instruction_pointer() != e.resume {
            return Some(("context-ip".into(), j, format!("frame {j}: context instruction pointer {:#x}, generated return address {:#x}", f.context.get_instruction_pointer(), e.resume)));
        }
        if f.instruction != e.instruction {
            return Some(("instruction".into(), j, format!("frame {j}: instruction {:#x}, expected return address - {} = {:#x}", f.instruction, b.arch.adj(), e.instruction)));
        }
        if f.context.get_stack_pointer() != e.sp {
            return Some(("sp".into(), j, format!("frame {j}: stack pointer {:#x}, generated {:#x}", f.context.get_stack_pointer(), e.sp)));
        }
        // ip and sp must be marked valid in every produced frame
        if let MinidumpContextValidity::Some(_) = f.context.valid {
            if f.context.get_register(b.arch.ip()).is_none() || f.context.get_register(b.arch.sp()).is_none() {
                return Some(("register-ip-sp-not-valid".into(), j, format!("frame {j}: ip or sp is not marked valid")));
            }
        }
        for (n, v) in &e.must {
            match f.context.get_register(n) {
                Some(x) if x == *v => {}
                Some(x) => return Some(("register-wrong-value".into(), j, format!("frame {j}: {n} = {x:#x}, true value {v:#x}"))),
                None => return Some(("register-not-recovered".into(), j, format!("frame {j}: {n} is not valid, generated stack lets it be recovered as {v:#x}"))),
            }
        }
        for (n, v) in &e.may {
            if let Some(x) = f.context.get_register(n) {
                if x != *v {
                    return Some(("register-wrong-value".into(), j, format!("frame {j}: {n} = {x:#x} is marked valid, true value {v:#x}")));
                }
            }
        }
        for n in &e.invalid {
            if let Some(x) = f.context.get_register(n) {
                return Some(("register-valid-but-unrecoverable".into(), j, format!("frame {j}: {n} = {x:#x} is marked valid although this technique cannot recover it")));
            }
        }
        if f.module.as_ref().map(|m| m.name.as_str()) != Some(e.module.as_str()) {
            return Some(("module".into(), j, format!("frame {j}: module {:?}, generated {:?}", f.module.as_ref().map(|m| m.name.clone()), e.module)));
        }
        if f.function_name.as_deref() != Some(e.function.as_str()) {
            return Some(("function".into(), j, format!("frame {j}: function {:?}, generated {:?}", f.function_name, e.function)));
        }
    }
    if cs.frames.len() > b.expected.len() {
        let j = b.expected.len();
        return Some(("extra-frame".into(), j, format!("the walk continues past the generated end of stack: {} frames, generated {}", cs.frames.len(), b.expected.len())));
    }
    None
}

fn run_program(prog: &Program, l: &mut Local) {
    let built = match build(prog) {
        Ok(b) => b,
        Err(why) => {
            l.outcome("not-well-formed (kept out)");
            l.count(&format!("rejected: {why}"), 1);
            return;
        }
    };
    let var = &VARIANTS[prog.variant];
    l.eval();
    l.distinct(prog);
    l.outcome(&format!("walked {}", var.label()));
    for (t, _) in prog.frames.iter().take(prog.frames.len() - 1) {
        l.count(&format!("steps by {}", t.name()), 1);
    }
    let sym = symbolizer(&built.symbols);
    let ml = module_list(&built.modules);
    let si = system_info(built.arch, built.os);
    let budget = built.expected.len() + 8;
    let detail = |extra: Value| json!({"program": describe_program(prog), "observed": extra});
    let cs = match walk(built.context(), built.base, &built.bytes, &ml, &si, &sym, budget) {
        WalkEnd::Done(cs) => cs,
        WalkEnd::Panic(p) => {
            l.panic_violation(&p, detail(json!(null)));
            return;
        }
        WalkEnd::Budget { frames } => {
            l.violation(format!("c04:{}:walk-does-not-end", built.arch.name()), format!("the walk produced {frames} frames for a generated chain of {} and was cut", built.expected.len()), detail(json!(null)));
            return;
        }
    };
    if let Some((field, j, text)) = first_difference(&built, &cs) {
        // technique that was to produce frame j (or, past the end, the outermost function's)
        let tech = if j == 0 { "context" } else { prog.frames[(j - 1).min(prog.frames.len() - 1)].0.name() };
        let sig = if built.arch == Arch::Mips64 && cs.frames.iter().take(j).any(mips64_flag_lost) {
            // F20: the scanned callee lost CONTEXT_MIPS64, everything derived from it is MIPS32 arithmetic
            "c04:mips64:step-after-scanned-frame-unwound-as-mips32".to_string()
        } else {
            match field.as_str() {
                // the return-address adjustment is applied after the technique chose the frame
                "instruction" | "context-ip" => format!("c04:{}:{}", built.arch.name(), field),
                _ => format!("c04:{}:{}:{}", built.arch.name(), field, tech),
            }
        };
        l.violation(sig, format!("{}: {}", var.label(), text), detail(frames_json(&cs)));
    }
}

fn main() {
    run_check("C04", |ctx| {
        let quick = ctx.tier == Tier::Quick;
        let max_depth = ctx.tier.pick(4, 5);
        let nsizes = ctx.tier.pick(2u64, 4u64);
        let depths: Vec<usize> = if quick { vec![1, 2, 3, 4, 5, 8, 16, 33, 63, 64] } else { (1..=64).collect() };
        let mut def = CheckDef::new(
            "C04",
            "exploration",
            "every stack program = (CPU x OS variant, per-frame (technique, frame size), style) is laid out with its ground truth (memory, registers, modules, symbol text, expected chain), walked by the real walk_stack and compared frame by frame: return address / resume_address, context ip, instruction = ra - adj, sp, trust, tracked callee-saved registers (frame pointer + two more: value and validity), module, function name, and the walk must stop at the generated end. Space 'mix': the full product of techniques x sizes over all frames for every depth <= bound x 8 styles; space 'uniform': one technique for the whole chain at every listed depth up to 64 (both at placement 0: low addresses, module list in address order). Space 'placement': every other entry of the placement menu (module and stack addresses up to the top of the architecture's user address space, 48-bit on ARM64; bystander modules; module list in descending / rotated instead of address order) x the full product up to the placement depth bound and one-technique chains at the placement depths x 8 styles, over all variants including the ARM64 Android / Linux ones that are not part of 'mix'. distinct_nontrivial = distinct well-formed programs walked (programs the generator rejects as not well-formed for the variant are counted separately and not walked).",
        );
        def.assumptions = vec![
            "the generator is the specification: it encodes the walker conventions of DESIGN Appendix A (technique priority, scan windows, MIPS32 4-word skip, amd64/Windows slack, leaf first frame, iOS-only ARM frame pointers, pointer-auth stripping (mask = all bits up to the highest bit of max(2^47 - 1, end of the highest-addressed module), whatever the order of the module list), STACK WIN layouts as documented in walker.rs)".into(),
            "a scanned frame is generated only where the frame-pointer technique is documented to fail (frame pointer invalid, or holding a scratch value: 0 on x86/arm64, a zero-filled area on amd64, unreadable non-zero on iOS ARM)".into(),
            "after a STACK WIN frame the validity of callee-saved registers the program did not assign is not compared (documentation says unknown, the code forwards them: F1, property C07); their values, when marked valid, must still be the true ones".into(),
            "tracked registers: frame pointer and two callee-saved registers per architecture (ebx/esi, rbx/r12, r4/r5, x19/x20, s0/s1); other registers are not compared".into(),
            "all words of a frame that are not a return address are zeros, small constants or stack addresses; the context is fully valid; one thread; little-endian memory".into(),
            "styles: 8 fixed combinations of saved-register subsets, split CFI records, slack 0..240 bytes, STACK WIN parameter bytes, numeric register spellings, pointer-auth bits, one or two modules".into(),
            "placements: 4 fixed layouts per architecture (stackgen::placement_of): low; low + a bystander module below, list descending; top of the user address space (x86/ARM 0xf000_0000 with the stack at 0xff00_0000, MIPS32 below 2^31, amd64 canonical 0x7ff8_0000_0000, ARM64 0xffff_8000_0000 with the stack at 0xffff_f000_0000, MIPS64 40-bit); main module low with a bystander next to it and the second module, another bystander and the stack at the top, list rotated so that the lowest module is named last and the highest is neither first nor last. Modules never overlap each other or the stack; bystanders have no symbols and no stack word points into them; on ARM64 every true address fits under the documented strip mask and the pointer-auth bits (bits 48..55) lie above it".into(),
        ];
        def.extra.insert("depth_bound_mix".into(), json!(max_depth));
        def.extra.insert("sizes_per_frame".into(), json!(nsizes));
        def.extra.insert("size_menu_words".into(), json!("6, scan-window edge (40; 160 for the first frame; MIPS32 256; MIPS64 128), [thorough: 9, edge-1]"));
        def.extra.insert("uniform_depths".into(), json!(depths));
        def.extra.insert("variants".into(), json!(VARIANTS.iter().map(|v| json!({"variant": v.label(), "techniques": v.techs.iter().map(|t| t.name()).collect::<Vec<_>>()})).collect::<Vec<_>>()));

        let (blocks, total) = mix_blocks(max_depth, nsizes);
        let blocks = std::sync::Arc::new(blocks);
        let b2 = blocks.clone();
        let mix = Space::new("mix", total, move |idx, l| run_program(&mix_program(&blocks, idx), l), move |idx| describe_program(&mix_program(&b2, idx)));
        let uni = std::sync::Arc::new(uniform_cases(&depths, nsizes));
        let u2 = uni.clone();
        let uniform = Space::new("uniform", uni.len() as u64, move |idx, l| run_program(&uni[idx as usize], l), move |idx| describe_program(&u2[idx as usize]));
        let pdepth = ctx.tier.pick(2, 3);
        let pdepths: Vec<usize> = if quick { vec![3, 8] } else { vec![4, 5, 8, 16, 33, 64] };
        def.extra.insert("placement_depth_bound".into(), json!(pdepth));
        def.extra.insert("placement_uniform_depths".into(), json!(pdepths));
        def.extra.insert("placement_sizes_per_frame".into(), json!(2));
        def.extra.insert("placements".into(), json!((0..PLACEMENTS).map(|k| placement_of(Arch::Arm64, k).name).collect::<Vec<_>>()));
        let plc = std::sync::Arc::new(placement_cases(pdepth, 2, &pdepths));
        let p2 = plc.clone();
        let placement = Space::new("placement", plc.len() as u64, move |idx, l| run_program(&plc[idx as usize], l), move |idx| describe_program(&p2[idx as usize]));
        def.spaces = vec![mix, uniform, placement];
        def
    })
}
