//! C19 — reported bit-flip candidates are genuine single-bit neighbours in mapped memory.
//! Bounded-exhaustive over (examined address, memory map, exception kind, crash-site instruction,
//! CPU); every dump goes through the public end-to-end path, and every reported candidate is
//! judged against the generator's own map and register values.
use minidump_processor::{AdjustedAddress, ProcessState};
use vh::procgen::*;
use vh::*;

fn check_flips(m: &Model, st: &ProcessState, l: &mut Local) {
    let d = || json!({"model": m.summary()});
    let fail = |l: &mut Local, point: &str, what: String| l.violation(format!("c19:{point}"), what, d());
    let Some(info) = &st.exception_info else {
        fail(l, "exception-info:missing", "the dump has an exception stream but the state has no exception info".into());
        return;
    };
    let flips = &info.possible_bit_flips;
    let x = m.exc.as_ref().expect("c19 models carry an exception");
    // the generator knows the reason by construction; use the model's own reading of the record
    let op = match expected_reason(m.os(), m.cpu, x) {
        ReasonExp::OneOf(v) => mem_op_of_reason(&v[0]),
        ReasonExp::Prefix(_) => MemOp::Any,
    };
    let crash_addr = expected_crash_address(m.os(), m.cpu, x);
    if info.address.0 != crash_addr {
        fail(l, "crash-address", format!("crash address {:#x}, expected {crash_addr:#x}", info.address.0));
    }
    l.outcome(match &info.adjusted_address {
        None => "adjusted:none",
        Some(AdjustedAddress::NonCanonical(_)) => "adjusted:non-canonical",
        Some(AdjustedAddress::NullPointerWithOffset(_)) => "adjusted:null-pointer",
    });
    l.outcome(if info.memory_access_list.is_some() { "instruction:analysed" } else { "instruction:not-analysed" });
    // ---- platforms where nothing may be reported
    if m.cpu.bits() != Some(64) || matches!(m.cpu, CpuK::Arm64 | CpuK::Arm64Old) {
        if !flips.is_empty() {
            fail(l, "reported-on-32bit-or-arm64", format!("{} candidates reported for cpu {:?}", flips.len(), m.cpu));
        }
        l.outcome("flips:platform-excluded");
        return;
    }
    if m.null_base && info.memory_access_list.is_some() && !flips.is_empty() {
        // by construction the memory operand's base register is null: a null pointer plus offset
        fail(l, "reported-for-null-pointer-plus-offset", format!("{} candidates although the crashing instruction dereferences a null base register plus an offset", flips.len()));
        return;
    }
    if let Some(AdjustedAddress::NullPointerWithOffset(_)) = &info.adjusted_address {
        if !flips.is_empty() {
            fail(l, "reported-for-null-pointer-plus-offset", format!("{} candidates although the access was recognised as null pointer + offset", flips.len()));
        }
        l.outcome("flips:null-pointer-excluded");
        return;
    }
    // ---- examined values and the allowed bit range
    let (primary, lo, hi, range_name) = match &info.adjusted_address {
        Some(AdjustedAddress::NonCanonical(v)) => (v.0, 48u32, 64u32, "non-canonical"),
        _ if m.cpu == CpuK::Amd64 => (info.address.0, 0, 48, "amd64-canonical"),
        _ => (info.address.0, 0, 64, "all"),
    };
    if let Some(AdjustedAddress::NonCanonical(v)) = &info.adjusted_address {
        // the non-canonical address can only be the value the generator put in rsp
        let ea = m.effective_address.unwrap_or(x.ctx_sp);
        if v.0 != ea {
            fail(l, "non-canonical-address", format!("adjusted non-canonical address {:#x}, the crashing instruction dereferences {:#x}", v.0, ea));
        }
    }
    let frame0 = st.requesting_thread.and_then(|i| st.threads[i].frames.first());
    let mut per_source: std::collections::BTreeMap<Option<&str>, u32> = Default::default();
    for f in flips {
        let examined = match f.source_register {
            None => primary,
            Some(r) => match frame0.and_then(|f0| f0.context.get_register(r)) {
                Some(v) => v,
                None => {
                    fail(l, "source-register:unreadable", format!("candidate names register {r} which frame 0 of the requesting thread does not hold"));
                    continue;
                }
            },
        };
        *per_source.entry(f.source_register).or_default() += 1;
        let diff = f.address.0 ^ examined;
        if diff.count_ones() != 1 {
            fail(l, "not-a-single-bit-neighbour", format!("candidate {:#x} vs examined value {examined:#x} ({:?}): {} bits differ", f.address.0, f.source_register, diff.count_ones()));
            continue;
        }
        let bit = diff.trailing_zeros();
        if bit < lo || bit >= hi {
            fail(l, &format!("bit-outside-range:{range_name}"), format!("candidate {:#x} flips bit {bit} of {examined:#x}; allowed bits are {lo}..{hi}", f.address.0));
        }
        if f.address.0 != 0 && !m.maps.permits(f.address.0, op) {
            fail(l, "candidate-not-in-permitting-region", format!("candidate {:#x} is neither null nor in a region permitting {op:?} (map {:?})", f.address.0, m.maps));
        }
        // none may be reported for an examined value that is itself accessible
        if m.maps.permits(examined, op) {
            fail(l, "reported-for-accessible-address", format!("examined value {examined:#x} ({:?}) already lies in a region permitting {op:?}, yet {:#x} is reported", f.source_register, f.address.0));
        }
        match f.confidence {
            Some(c) if (0.0..=1.0).contains(&c) => {}
            c => fail(l, "confidence-out-of-range", format!("confidence {c:?} of candidate {:#x}", f.address.0)),
        }
        if f.details.is_null != (f.address.0 == 0) || f.details.was_non_canonical != (range_name == "non-canonical") {
            fail(l, "details-flags", format!("candidate {:#x}: details {:?}", f.address.0, f.details));
        }
        l.count("flips_checked", 1);
        l.distinct(&(examined, f.address.0, f.source_register, range_name, format!("{op:?}")));
    }
    l.outcome(match (per_source.contains_key(&None), per_source.keys().any(|k| k.is_some())) {
        (false, false) => "flips:none",
        (true, false) => "flips:address-only",
        (false, true) => "flips:register-only",
        (true, true) => "flips:address-and-register",
    });
    if !flips.is_empty() {
        l.outcome(&format!("range:{range_name}"));
        l.outcome(&format!("op:{op:?}"));
    }
}

fn main() {
    run_check("C19", |ctx| {
        let g = gen_bitflip(ctx.tier);
        let mut def = CheckDef::new(
            "C19",
            "exploration",
            "bounded-exhaustive: examined address menu (near-null, 2^12, 2^13+-1, region boundaries +-1, single-bit neighbours of two region addresses (quick: 13 bit positions incl. 47/48/49/63; thorough: all 64), non-canonical amd64 values, 2^47+-1, 2^48, 2^64-1) x memory map (0..3 regions (thorough 0..4) at 4 positions incl. the top of the address space, 7 permission rotations over {none,r,w,x,rw,rx,guard|rwx}, as MemoryInfoList and as LinuxMaps) x 8 exception kinds (AV read/write/exec, other Windows, Linux SIGSEGV MAPERR / SI_KERNEL, Mac KERN_INVALID_ADDRESS / GPFLT) x crash-site instruction on amd64 (none, nop, mov al,[rsp] with 3 (thorough 6) rsp values, mov al,[rax] with rax=0), for amd64, ppc64, mips64 (no context); reduced product for arm64, old arm64, x86, arm. Space bitflip-noncanonical-neighbours places the map relative to the examined value: non-canonical amd64 value v (quick 6, thorough 9: one bit 47/48/56/63 away from a mapped-able user address, 2^47, 2^48, 2^63, a value of the highest non-canonical page, a value two bits away from canonical) as rsp of mov al,[rsp] x bit b of 40..64 (thorough 0..64) x map {page of v^2^b; the page next to it; page of v and page of v^2^b} x 7 permission rotations x {MemoryInfoList, LinuxMaps} x {Windows AV read at 2^64-1, Linux SIGSEGV SI_KERNEL at 0, Mac GPFLT at 0, Linux MAPERR at 0}, so that every single-bit neighbour of every non-canonical examined value occurs mapped (or null) and unmapped. Every dump is processed end to end; every reported candidate is judged. distinct_nontrivial = distinct (examined value, candidate, source register, bit range, operation) tuples among reported candidates.",
        );
        def.assumptions = vec![
            "a Linux maps line `a-b` is read as covering a..=b, as minidump.rs documents its own reading (`final address is inclusive afaik`)".into(),
            "region permissions follow the bit lists documented on MinidumpMemoryInfo::is_readable/is_writable/is_executable (PAGE_GUARD|PAGE_READWRITE counts as readable and writable)".into(),
            "soundness only: the statement does not require that every admissible neighbour is reported; duplicates in the list are not judged".into(),
            "the register examined is read from frame 0 of the requesting thread (the exception context); the exception thread is always in the thread list here".into(),
            "the map menu contains a Linux region ending at 2^64-1 by design; together with an analysed memory access this reaches the known overflow F5 (processor.rs guard-page logic), reported as the panic it is".into(),
        ];
        def.extra.insert("addresses".into(), json!(bitflip_addresses(ctx.tier).len()));
        let g2 = g.clone();
        def.spaces = vec![Space::new(
            "bitflip",
            g.len,
            move |idx, l| {
                let m = (g2.model)(idx);
                l.eval();
                match process_model(&m) {
                    Proc::Ok(st) => check_flips(&m, &st, l),
                    Proc::ProcessErr(e) => l.violation("c19:process:error", format!("processing a well-formed generated dump failed: {e}"), json!({"model": m.summary()})),
                    Proc::ReadErr(e) => panic!("c19 generator produced an unreadable dump: {e} ({m:?})"),
                    Proc::Panic(p) => l.panic_violation(&p, json!({"model": m.summary()})),
                }
            },
            g.describe(),
        )];
        // the same amd64 dumps with a register file crowded around the first mapped region: every
        // general-purpose register lies within a page of a candidate address (confidence heuristics)
        let g3 = g.clone();
        let g4 = g.clone();
        let crowd = |m: &mut vh::procgen::Model| -> bool {
            if m.cpu != vh::procgen::CpuK::Amd64 || m.exc.as_ref().map(|x| x.ctx != 1).unwrap_or(true) {
                return false;
            }
            let first = match &m.maps {
                vh::procgen::MapsM::Info(r) => r.first().map(|x| x.0),
                vh::procgen::MapsM::Linux(r) => r.first().map(|x| x.0),
                vh::procgen::MapsM::None => None,
            };
            match first {
                Some(b) => {
                    m.gpr_fill = Some(b.wrapping_add(0x18));
                    true
                }
                None => false,
            }
        };
        def.spaces.push(Space::new(
            "bitflip-crowded-registers",
            g.len,
            move |idx, l| {
                let mut m = (g3.model)(idx);
                if !crowd(&mut m) {
                    return;
                }
                l.eval();
                match process_model(&m) {
                    Proc::Ok(st) => check_flips(&m, &st, l),
                    Proc::ProcessErr(e) => l.violation("c19:process:error", format!("processing a well-formed generated dump failed: {e}"), json!({"model": m.summary()})),
                    Proc::ReadErr(e) => panic!("c19 generator produced an unreadable dump: {e} ({m:?})"),
                    Proc::Panic(p) => l.panic_violation(&p, json!({"model": m.summary()})),
                }
            },
            move |idx| {
                let mut m = (g4.model)(idx);
                let on = crowd(&mut m);
                json!({"model": m.summary(), "all_gprs": m.gpr_fill.map(|v| format!("{v:#x}")), "skipped": !on})
            },
        ));
        // maps placed relative to the examined value: every single-bit neighbour (bits 40..64) of every
        // non-canonical value of the menu, with the neighbour mapped / not mapped / the value itself mapped
        let g5 = gen_bitflip_neighbours(ctx.tier);
        let g6 = g5.clone();
        def.spaces.push(Space::new(
            "bitflip-noncanonical-neighbours",
            g5.len,
            move |idx, l| {
                let m = (g6.model)(idx);
                l.eval();
                match process_model(&m) {
                    Proc::Ok(st) => check_flips(&m, &st, l),
                    Proc::ProcessErr(e) => l.violation("c19:process:error", format!("processing a well-formed generated dump failed: {e}"), json!({"model": m.summary()})),
                    Proc::ReadErr(e) => panic!("c19 generator produced an unreadable dump: {e} ({m:?})"),
                    Proc::Panic(p) => l.panic_violation(&p, json!({"model": m.summary()})),
                }
            },
            g5.describe(),
        ));
        // instruction kinds: read / write / read-modify-write / two accesses / implicit stack accesses / none, with
        // the registers at 0 (null base) or at a mapped address
        // a null base register with an index that makes the sum non-canonical, next to the same with a real base
        let g9 = gen_null_base(ctx.tier);
        let g10 = g9.clone();
        def.spaces.push(Space::new(
            "null-base-non-canonical-sum",
            g9.len,
            move |idx, l| {
                let m = (g10.model)(idx);
                l.eval();
                match process_model(&m) {
                    Proc::Ok(st) => check_flips(&m, &st, l),
                    Proc::ProcessErr(e) => l.violation("c19:process:error", format!("processing a well-formed generated dump failed: {e}"), json!({"model": m.summary()})),
                    Proc::ReadErr(e) => panic!("c19 generator produced an unreadable dump: {e} ({m:?})"),
                    Proc::Panic(p) => l.panic_violation(&p, json!({"model": m.summary()})),
                }
            },
            g9.describe(),
        ));
        let g7 = gen_access_kinds(ctx.tier);
        let g8 = g7.clone();
        def.spaces.push(Space::new(
            "access-kinds",
            g7.len,
            move |idx, l| {
                let m = (g8.model)(idx);
                l.eval();
                match process_model(&m) {
                    Proc::Ok(st) => check_flips(&m, &st, l),
                    Proc::ProcessErr(e) => l.violation("c19:process:error", format!("processing a well-formed generated dump failed: {e}"), json!({"model": m.summary()})),
                    Proc::ReadErr(e) => panic!("c19 generator produced an unreadable dump: {e} ({m:?})"),
                    Proc::Panic(p) => l.panic_violation(&p, json!({"model": m.summary()})),
                }
            },
            g7.describe(),
        ));
        def
    })
}
